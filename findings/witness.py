"""Triage witnesses for the findings of DESIGN §5.

These scripts are *triage evidence only*: they show, against the real code, that a
construct a static rule reports really breaks the property (genuine defect, not a
false alarm).  No registered check runs or imports this file.

usage:  /venv/bin/python findings/witness.py [W01 W02 ...]     (default: all)
Each witness prints `DEFECT` (behaviour the property forbids is observed) or `ok`.
HEXITAL_SRC=<dir> selects another checkout (default /repo).
"""
from __future__ import annotations

import copy
import math
import os
import random
import subprocess
import sys
from datetime import datetime, timedelta

sys.path.insert(0, os.environ.get("HEXITAL_SRC", "/repo"))

from hexital import Candle, Hexital  # noqa: E402
from hexital import indicators as I  # noqa: E402
from hexital.analysis import movement, patterns  # noqa: E402
from hexital.core.candle_manager import CandleManager  # noqa: E402


def stream(n=80, seed=1, start=datetime(2024, 1, 1, 9, 0), step=timedelta(minutes=1), flat=False):
    rnd = random.Random(seed)
    out = []
    p = 100.0
    for i in range(n):
        if flat:
            o = h = l = c = 100.0
            v = 0
        else:
            o = p
            c = max(1.0, p + rnd.uniform(-2, 2))
            h = max(o, c) + rnd.uniform(0, 1)
            l = min(o, c) - rnd.uniform(0, 1)
            v = rnd.randint(1, 1000)
            p = c
        out.append(Candle(o, h, l, c, v, timestamp=start + i * step))
    return out


def W01():
    """ADX: batch != incremental (index-1 wraps to the newest candle in a batch)"""
    cs = stream(60)
    a = I.ADX(candles=copy.deepcopy(cs))
    a.calculate()
    b = I.ADX(candles=[])
    for c in copy.deepcopy(cs):
        b.append(c)
    diff = sum(1 for x, y in zip(a.as_list(), b.as_list()) if x != y)
    return diff > 0, f"rows differing batch vs one-by-one: {diff}/60"


def W02():
    """RMA on an input that starts at index 1 raises / late start gives wrong seed"""
    cs = stream(40)
    try:
        tr = I.TR(candles=cs)
        tr.calculate()
        r = I.RMA(candles=cs, input_value="TR", period=5)
        r.calculate()
    except TypeError as e:
        return True, f"TypeError: {e}"
    # position independence: same values, input series shifted by 7 candles
    xs = [c.close for c in stream(30, seed=3)]

    def run(pad):
        cs2 = stream(30 + pad, seed=9)
        for k, c in enumerate(cs2):
            if k >= pad:
                c.indicators["X"] = xs[k - pad]
        r = I.RMA(candles=cs2, input_value="X", period=5)
        r.calculate()
        return [v for v in r.as_list() if v is not None]

    a, b = run(0), run(7)
    return a != b, f"seed with pad0={a[:1]} pad7={b[:1]}"


def W03():
    """OBV 'unchanged' keyed on equal volume instead of equal close"""
    cs = [Candle(10, 11, 9, 10, 100), Candle(10, 12, 9, 11, 100), Candle(11, 12, 10, 11, 50)]
    o = I.OBV(candles=cs)
    o.calculate()
    got = o.as_list()
    want = [100, 200, 200]
    return got != want, f"got {got} want {want}"


def W04():
    """RSI on a strictly rising series: division by a zero loss average"""
    cs = [Candle(i, i + 1, i - 0.5, i + 0.5, 10) for i in range(1, 40)]
    try:
        r = I.RSI(candles=cs, period=5)
        r.calculate()
    except ZeroDivisionError as e:
        return True, f"ZeroDivisionError: {e}"
    return r.as_list()[-1] != 100.0, f"last={r.as_list()[-1]}"


def W05():
    """STOCH / VWMA on flat zero-volume candles raise"""
    out = []
    for cls in (I.STOCH, I.VWMA):
        try:
            x = cls(candles=stream(40, flat=True), period=5)
            x.calculate()
        except ZeroDivisionError:
            out.append(cls.__name__)
    return bool(out), f"ZeroDivisionError in {out}"


def W06():
    """STDEV sqrt of a slightly negative running variance"""
    for seed in range(200):
        rnd = random.Random(seed)
        cs = []
        for i in range(200):
            p = round(rnd.choice([100.0, 100.1, 1e6 + 0.1, 100.0, 100.0]), 4)
            cs.append(Candle(p, p, p, p, 1))
        # long identical tail makes the true variance exactly 0
        for i in range(40):
            cs.append(Candle(100.0, 100.0, 100.0, 100.0, 1))
        try:
            s = I.StandardDeviation(candles=cs, period=5)
            s.calculate()
        except ValueError as e:
            return True, f"seed {seed}: ValueError {e}"
    return False, "no domain error in 200 trials"


def W07():
    """truthiness on readings: flat candles => KC / Supertrend / MACD / HMA stay None"""
    bad = []
    cs = stream(60, flat=True)
    k = I.KC(candles=copy.deepcopy(cs), period=5)
    k.calculate()
    if k.as_list()[-1]["band"] is None:
        bad.append("KC")
    st = I.Supertrend(candles=copy.deepcopy(cs), period=5)
    st.calculate()
    if st.as_list()[-1]["trend"] is None:
        bad.append("Supertrend")
    # MACD/HMA on an input that is legitimately 0.0
    cs2 = stream(60)
    for c in cs2:
        c.indicators["Z"] = 0.0
    m = I.MACD(candles=copy.deepcopy(cs2), input_value="Z")
    m.calculate()
    if m.as_list()[-1]["MACD"] is None:
        bad.append("MACD")
    h = I.HMA(candles=copy.deepcopy(cs2), input_value="Z", period=9)
    h.calculate()
    if h.as_list()[-1] is None:
        bad.append("HMA")
    # ADX in a steady down-trend: +DM smoothed is exactly 0.0
    cs3 = [Candle(200 - i, 201 - i, 199 - i, 200 - i, 10) for i in range(60)]
    a = I.ADX(candles=cs3, period=5)
    a.calculate()
    if a.as_list()[-1]["DM_Plus"] is None:
        bad.append("ADX")
    return bool(bad), f"permanent None in {bad}"


def W08():
    """HA conversion stops after the first candle when starting from 0/1 candles"""
    cs = stream(10)
    ind = I.SMA(candles=[], period=3, candlestick_type="HA")
    for c in copy.deepcopy(cs):
        ind.append(c)
    tags = [c.tag for c in ind.candles]
    return tags.count(None) > 0, f"tags={tags}"


def W09():
    """purge leaves second-level helper entries behind (TSI / STOCH)"""
    cs = stream(80)
    t = I.TSI(candles=cs, period=6)
    t.calculate()
    t.purge()
    left = set()
    for c in cs:
        left |= set(c.indicators) | set(c.sub_indicators)
    return bool(left), f"left behind: {sorted(left)}"


def W10():
    """calculate_index(-1) overwrites a valid TR reading with None"""
    cs = stream(30)
    t = I.TR(candles=cs)
    t.calculate()
    before = t.as_list()[-1]
    t.calculate_index(-1)
    after = t.as_list()[-1]
    return before != after, f"before={before} after={after}"


def W11():
    """helper namespace: purging an ATR deletes a top-level TR's readings"""
    cs = stream(40)
    h = Hexital("x", cs, [I.TR(), I.ATR(period=5)])
    h.calculate()
    before = h.indicator("TR").as_list()
    h.purge("ATR_5")
    after = h.indicator("TR").as_list()
    return before != after, f"TR readings left: {sum(v is not None for v in after)}/{sum(v is not None for v in before)}"


def W12():
    """Hexital.purge selects by substring"""
    cs = stream(60)
    h = Hexital("x", cs, [I.EMA(period=2), I.EMA(period=20)])
    h.calculate()
    before = h.indicator("EMA_20").as_list()
    h.purge("EMA_2")
    after = h.indicator("EMA_20").as_list()
    return before != after, f"EMA_20 readings left after purge('EMA_2'): {sum(v is not None for v in after)}"


def W14():
    """settings -> dict -> Hexital round trip fails for AROON / Donchian / Counter / inverted_hammer / Amorph kwargs"""
    bad = []
    cs = stream(30)
    for ind in (I.AROON(), I.Donchian(), I.Counter(input_value="close", count_value=1)):
        try:
            Hexital("x", cs, [ind.settings])
        except Exception as e:  # noqa
            bad.append(f"{type(ind).__name__}:{type(e).__name__}")
    try:
        Hexital("x", cs, [I.Amorph(analysis=patterns.inverted_hammer).settings])
    except Exception as e:  # noqa
        bad.append(f"inverted_hammer:{type(e).__name__}")
    am = I.Amorph(analysis=movement.rising, indicator="close", length=3)
    s = am.settings
    if "length" not in s or "indicator" not in s:
        bad.append(f"Amorph.settings drops kwargs: {s}")
    return bool(bad), "; ".join(bad)


def W15():
    """an ATR calculated standalone and then given to a Hexital reads None (helpers keep old candles)"""
    cs = stream(40)
    a = I.ATR(candles=copy.deepcopy(cs), period=5)
    a.calculate()
    h = Hexital("x", copy.deepcopy(cs), [a])
    h.calculate()
    last = h.indicator("ATR_5").as_list()[-1]
    return last is None, f"ATR_5 last reading in Hexital: {last}"


def W16():
    """movement.cross raises on missing readings; crossover wraps at index 0"""
    cs = stream(6)
    msgs = []
    try:
        movement.cross(cs, "A", "B")
    except TypeError as e:
        msgs.append(f"cross TypeError: {e}")
    # wrap: crossover at index 0 looks at candles[-1]
    vals = [(1, 0), (1, 0), (1, 0), (0, 1)]
    cs2 = stream(4)
    for c, (a, b) in zip(cs2, vals):
        c.indicators["A"], c.indicators["B"] = a, b
    full = movement.crossover(cs2, "A", "B", index=0)
    trunc = movement.crossover(cs2[:1], "A", "B")
    if full != trunc:
        msgs.append(f"crossover(index=0)={full} vs truncated list={trunc}")
    hb_full = movement.highestbar(cs2, "B", 4, index=1)
    hb_trunc = movement.highestbar(cs2[:2], "B", 4)
    if hb_full != hb_trunc:
        msgs.append(f"highestbar(index=1,len=4)={hb_full} vs truncated={hb_trunc}")
    return bool(msgs), "; ".join(msgs)


def W17():
    """patterns: default index never recognised; negative index / lookback not causal"""
    cs = stream(30, seed=5)
    msgs = []
    for fn in (patterns.doji, patterns.dojistar, patterns.hammer, patterns.inverted_hammer):
        for i in range(10, 30):
            a = fn(cs, index=i)
            b = fn(cs, index=i - 30)
            c = fn(cs[: i + 1])
            if not (a == b == c):
                msgs.append(f"{fn.__name__}@{i}: pos={a} neg={b} trunc-default={c}")
                break
        for i in range(12, 29):
            a = fn(cs, lookback=3, index=i)
            c = fn(cs[: i + 1], lookback=3, index=i)
            if a != c:
                msgs.append(f"{fn.__name__} lookback@{i}: full={a} trunc={c}")
                break
    return bool(msgs), "; ".join(msgs[:4])


def W18():
    """bucket labels depend on the process TZ"""
    code = (
        "import sys; sys.path.insert(0, %r)\n"
        "from datetime import datetime, timedelta\n"
        "from hexital import Candle\n"
        "from hexital.core.candle_manager import CandleManager\n"
        "cs=[Candle(1,2,0.5,1,1,timestamp=datetime(2024,1,1,0,0)+timedelta(minutes=10*i)) for i in range(1,30)]\n"
        "m=CandleManager(cs, timeframe='H1')\n"
        "print([c.timestamp.strftime('%%H:%%M') for c in m.candles][:4])\n"
    ) % os.environ.get("HEXITAL_SRC", "/repo")
    outs = {}
    for tz in ("UTC", "Asia/Kolkata", "America/New_York"):
        env = dict(os.environ, TZ=tz)
        outs[tz] = subprocess.run([sys.executable, "-c", code], env=env, capture_output=True, text=True).stdout.strip()
    return len(set(outs.values())) > 1, str(outs)


def W19():
    """str(indicator) deletes its candle list; Candle.from_list mutates the caller's list"""
    msgs = []
    s = I.SMA(candles=stream(5), period=2)
    str(s)
    if not hasattr(s, "candles"):
        msgs.append("str() removed .candles")
    row = [datetime(2024, 1, 1), 1.0, 2.0, 0.5, 1.5, 10]
    keep = list(row)
    Candle.from_list(row)
    if row != keep:
        msgs.append(f"from_list mutated caller list: {row}")
    h = Hexital("x", [], [I.SMA(period=2), I.SMA(period=2, timeframe="T5")])
    h.append([datetime(2024, 1, 1, 9, 1), 1.0, 2.0, 0.5, 1.5, 10])
    ts = {k: [c.timestamp for c in v] for k, v in h.get_candles().items()}
    if any(t == [None] for t in ts.values()):
        msgs.append(f"timestamps per manager: {ts}")
    return bool(msgs), "; ".join(msgs)


def W20():
    """Hexital.has_reading is False for a reading of 0 / False"""
    cs = stream(5)
    for c in cs:
        c.indicators["Z"] = 0
    h = Hexital("x", cs, [])
    return h.has_reading("Z") is False, f"has_reading('Z') with reading 0 -> {h.has_reading('Z')}"


def W21():
    """BBANDS helpers use default names: a top-level SMA_5 on another input shadows BBANDS' own SMA"""
    cs = stream(40)
    alone = I.BBANDS(candles=copy.deepcopy(cs), period=5)
    alone.calculate()
    h = Hexital("x", copy.deepcopy(cs), [I.SMA(period=5, input_value="high"), I.BBANDS(period=5)])
    h.calculate()
    a = alone.as_list()[-1]
    b = h.indicator("BBANDS_5").as_list()[-1]
    return a != b, f"standalone BBM={a['BBM']} with SMA_5(high) present BBM={b['BBM']}"


def W22():
    """L-1: a top-level indicator whose override name equals another indicator's helper name shadows that helper"""
    cs = stream(60)
    alone = I.KC(candles=copy.deepcopy(cs), period=10)
    alone.calculate()
    h = Hexital("x", copy.deepcopy(cs), [I.EMA(period=3, fullname_override="KC_10_2,0_EMA"), I.KC(period=10)])
    h.calculate()
    a = alone.as_list()[-1]
    b = h.indicator("KC_10_2,0").as_list()[-1]
    return a != b, f"KC band standalone={a['band']} with a top-level 'KC_10_2,0_EMA' present={b['band']}"



def W23():
    """Hexital + Heikin-Ashi + an indicator with its own timeframe: the timeframe manager is seeded with / fed
    already converted candles, so its candles are not the HA conversion of the collapsed raw candles"""
    raw = stream(40, seed=11)
    alone = I.EMA(period=3, timeframe="T5", candlestick_type="HA", candles=copy.deepcopy(raw))
    alone.calculate()
    msgs = []
    try:
        h = Hexital("x", copy.deepcopy(raw), [I.EMA(period=3, timeframe="T5")], candlestick_type="HA")
        h.calculate()
        a = [(c.timestamp, round(c.open, 6), round(c.close, 6)) for c in alone.candles]
        b = [(c.timestamp, round(c.open, 6), round(c.close, 6)) for c in h.candles("T5")]
        if a != b:
            msgs.append(f"construction: T5 HA candles differ from standalone (first diff at {next(i for i, (x, y) in enumerate(zip(a, b)) if x != y) if len(a) == len(b) else 'length'})")
    except Exception as e:  # noqa
        msgs.append(f"construction raised {type(e).__name__}")
    try:
        h2 = Hexital("x", [], [I.EMA(period=3, timeframe="T5")], candlestick_type="HA")
        for c in copy.deepcopy(raw):
            h2.append(c)
        b2 = [(c.timestamp, round(c.open, 6), round(c.close, 6)) for c in h2.candles("T5")]
        a = [(c.timestamp, round(c.open, 6), round(c.close, 6)) for c in alone.candles]
        if a != b2:
            msgs.append("append of Candle objects: T5 HA candles differ from standalone")
    except Exception as e:  # noqa
        msgs.append(f"append raised {type(e).__name__}: {e}"[:120])
    return bool(msgs), "; ".join(msgs)


ALL = [W01, W02, W03, W04, W05, W06, W07, W08, W09, W10, W11, W12, W14, W15, W16, W17, W18, W19, W20, W21, W22, W23]

if __name__ == "__main__":
    want = set(sys.argv[1:])
    for w in ALL:
        if want and w.__name__ not in want:
            continue
        try:
            bad, detail = w()
            print(f"{w.__name__}: {'DEFECT' if bad else 'ok    '}  {w.__doc__.strip()}  --  {detail}")
        except Exception as e:  # noqa
            print(f"{w.__name__}: DEFECT(raised {type(e).__name__}: {e})  {w.__doc__.strip()}")

