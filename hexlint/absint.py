"""Path-sensitive abstract interpreter over the Python subset the repository uses.

Values are value numbers (poly.Frac) plus a few structured kinds; every `if` forks the
abstract state (the analysed functions are small and acyclic; loops occur only as
reductions, which are summarised, never unrolled).  While walking, *sites* are recorded
(positional reads, divisions, truthiness tests, writes, loops, ...) together with the
facts that dominate them; the rules of the individual properties are evaluated over
those sites.  Nothing from the analysed repository is executed.
"""
from __future__ import annotations

import ast
import copy
from dataclasses import dataclass, field
from fractions import Fraction
from typing import Any, Dict, List, Optional, Tuple

from . import poly
from .poly import A, C, Frac, ONE, ZERO, mk_fn, mk_ite, mk_pow, mk_rd, mk_red, mk_sum

T = A("t")  # the evaluated index
N = A("n")  # len(candles)


# ---------------------------------------------------------------------------
# values


class Val:
    pass


@dataclass(frozen=True)
class Num(Val):
    f: Frac

    def __repr__(self):
        return f"Num({self.f!r})"


@dataclass(frozen=True)
class NoneV(Val):
    def __repr__(self):
        return "None"


@dataclass(frozen=True)
class BoolV(Val):
    cond: Any  # cond tuple or True/False

    def __repr__(self):
        return f"Bool({show_cond(self.cond)})"


@dataclass(frozen=True)
class Str(Val):
    s: str

    def __repr__(self):
        return f"Str({self.s!r})"


class DictV(Val):
    def __init__(self, items=None):
        self.items: Dict[str, Val] = dict(items or {})

    def __repr__(self):
        return "Dict{" + ", ".join(f"{k}: {v!r}" for k, v in self.items.items()) + "}"

    def __deepcopy__(self, memo):
        return DictV({k: copy.deepcopy(v, memo) for k, v in self.items.items()})


class ListV(Val):
    def __init__(self, items):
        self.items: List[Val] = list(items)

    def __repr__(self):
        return f"List{self.items!r}"


@dataclass(frozen=True)
class SeqV(Val):
    """a comprehension over a range: element(var) for var in [0,count)"""

    var: tuple
    count: Frac
    elem: Val
    filt: Any = None

    def __repr__(self):
        return f"Seq[{poly.show_atom(self.var)}<{self.count!r}]({self.elem!r})"


@dataclass(frozen=True)
class Obj(Val):
    kind: str
    data: Any = None

    def __repr__(self):
        return f"Obj({self.kind},{self.data!r})"


@dataclass(frozen=True)
class Opaque(Val):
    why: str

    def __repr__(self):
        return f"Opaque({self.why})"


# ---------------------------------------------------------------------------
# conditions


def c_not(c):
    if c is True:
        return False
    if c is False:
        return True
    if c[0] == "not":
        return c[1]
    if c[0] == "cmp":
        op, d = c[1], c[2]
        if op == "<":
            return ("cmp", "<=", -d)
        if op == "<=":
            return ("cmp", "<", -d)
        if op == "==":
            return ("cmp", "!=", d)
        if op == "!=":
            return ("cmp", "==", d)
    if c[0] == "and":
        return ("or",) + tuple(c_not(x) for x in c[1:])
    if c[0] == "or":
        return ("and",) + tuple(c_not(x) for x in c[1:])
    return ("not", c)


def mk_cmp(op: str, lhs: Frac, rhs: Frac):
    """canonical comparison: diff OP 0 with OP in < <= == !="""
    if op == ">":
        op, lhs, rhs = "<", rhs, lhs
    elif op == ">=":
        op, lhs, rhs = "<=", rhs, lhs
    d = lhs - rhs
    if d.is_const():
        v = d.const_value()
        return {"<": v < 0, "<=": v <= 0, "==": v == 0, "!=": v != 0}[op]
    if op in ("==", "!="):
        _, d = poly._lead_sign_norm(d)
    return ("cmp", op, d)


def show_cond(c) -> str:
    if c is True or c is False:
        return str(c)
    tag = c[0]
    if tag == "cmp":
        return f"{c[2]!r} {c[1]} 0"
    if tag == "present":
        return f"present({c[1]}@{c[2]!r})"
    if tag == "period":
        return f"period({c[1]},{c[2]!r}@{c[3]!r})"
    if tag == "truthy":
        return f"truthy({c[1]!r})"
    if tag == "not":
        return "not " + show_cond(c[1])
    if tag in ("and", "or"):
        return "(" + f" {tag} ".join(show_cond(x) for x in c[1:]) + ")"
    return repr(c)


def cond_atoms(c):
    if c is True or c is False:
        return
    if c[0] in ("and", "or"):
        for x in c[1:]:
            yield from cond_atoms(x)
    elif c[0] == "not":
        yield from cond_atoms(c[1])
    else:
        yield c


# ---------------------------------------------------------------------------
# state


@dataclass
class Site:
    kind: str
    node: ast.AST
    facts: tuple
    data: dict

    @property
    def line(self):
        return getattr(self.node, "lineno", 0)


class State:
    def __init__(self):
        self.env: Dict[str, Val] = {}
        self.facts: List[Any] = []  # conds known true
        self.sites: List[Site] = []
        self.effects: List[tuple] = []
        self.written: Dict[str, Tuple[Val, Frac]] = {}  # name -> (value, pos) store forwarding
        self.heap: Dict[tuple, Val] = {}  # (objkey, attr) -> Val for attribute stores
        self.bounds: List[tuple] = []  # (var, count) for active bound variables
        self.notes: List[str] = []
        self.sgn: Dict[Any, str] = {}  # compositional sign of value numbers built on this path

    def fork(self) -> "State":
        s = State()
        s.env = {k: copy.deepcopy(v) if isinstance(v, (DictV, ListV)) else v for k, v in self.env.items()}
        s.facts = list(self.facts)
        s.sites = list(self.sites)
        s.effects = list(self.effects)
        s.written = {k: (copy.deepcopy(v[0]), v[1]) for k, v in self.written.items()}
        s.heap = {k: copy.deepcopy(v) if isinstance(v, (DictV, ListV)) else v for k, v in self.heap.items()}
        s.bounds = list(self.bounds)
        s.notes = list(self.notes)
        s.sgn = dict(self.sgn)
        return s

    def site(self, kind, node, **data):
        self.sites.append(Site(kind, node, tuple(self.facts) + tuple(("bound", v, c) for v, c in self.bounds), data))


@dataclass
class Path:
    state: State
    ret: Val
    node: Optional[ast.AST] = None  # the return statement


class Unmodelled(Exception):
    def __init__(self, node, why):
        self.node, self.why = node, why
        super().__init__(f"{why} at line {getattr(node, 'lineno', '?')}: {ast.unparse(node)[:80] if isinstance(node, ast.AST) else node}")


CMP_OPS = {ast.Lt: "<", ast.LtE: "<=", ast.Gt: ">", ast.GtE: ">=", ast.Eq: "==", ast.NotEq: "!="}


class Interp:
    """generic part; subclasses provide the vocabulary (attributes / calls)"""

    max_paths = 512

    def __init__(self):
        self.unmodelled: List[Tuple[ast.AST, str]] = []
        self.if_convert = False
        self._idiom = None
        self.sign_env_factory = None  # callable(facts) -> sign.SignEnv ; enables compositional sign tracking

    def sg(self, st: "State", f: Frac):
        if self.sign_env_factory is None:
            return None
        from .sign import SignEnv

        env = self.sign_env_factory(tuple(st.facts) + tuple(("bound", v, c) for v, c in st.bounds))
        base = env.frac(f)
        got = st.sgn.get(f)
        s = SignEnv._meet(got, base) if got else base
        if s in ("NONNEG", "NONPOS") and env.fact_nonzero(f):
            s = "POS" if s == "NONNEG" else "NEG"
        return s

    def _track(self, st: "State", op, a: Frac, b: Frac, r: Frac):
        if self.sign_env_factory is None:
            return
        from . import sign as S

        sa, sb = self.sg(st, a), self.sg(st, b)
        if op is ast.Add:
            comp = S.s_add(sa, sb)
        elif op is ast.Sub:
            comp = S.s_add(sa, S.s_neg(sb))
        elif op is ast.Mult:
            comp = S.s_mul(sa, sb)
        elif op is ast.Div:
            comp = S.s_mul(sa, S.s_inv(sb))
        else:
            return
        cur = self.sg(st, r)
        st.sgn[r] = S.SignEnv._meet(comp, cur) if comp != "ANY" else cur

    def merge_if(self, node, cps):
        """if-conversion of a jump-free `if`: run both arms, merge differing locals into ite values.
        Returns None when the arms have effects that cannot be merged (caller falls back to forking)."""
        (t1, s1), (t2, s2) = cps
        if t1 == t2:
            return None
        s_true, s_false = (s1, s2) if t1 else (s2, s1)
        cond = s_true.facts[-1] if len(s_true.facts) > len(s_false.facts) - 1 and s_true.facts else None
        # the distinguishing fact is the last one appended by split_cond
        if not s_true.facts or not s_false.facts or c_not(s_true.facts[-1]) != s_false.facts[-1]:
            return None
        cond = s_true.facts[-1]
        base_eff = len(s_true.effects)
        o1 = self.block(node.body, s_true)
        o2 = self.block(node.orelse, s_false)
        if len(o1) != 1 or len(o2) != 1 or o1[0][1] is not None or o2[0][1] is not None:
            return None
        a, b = o1[0][0], o2[0][0]
        if len(a.effects) != base_eff or len(b.effects) != base_eff or a.written.keys() != b.written.keys():
            return None
        merged = a
        merged.facts = merged.facts[:-1]
        seen = {id(x) for x in a.sites}
        merged.sites = a.sites + [x for x in b.sites if id(x) not in seen]
        for k in set(a.env) | set(b.env):
            va, vb = a.env.get(k), b.env.get(k)
            if va is None or vb is None:
                merged.env[k] = va if vb is None else vb
                continue
            if repr(va) == repr(vb):
                continue
            mv = merge_vals(cond, va, vb)
            if mv is None:
                return None
            merged.env[k] = mv
        return [(merged, None)]

    # ---------------- hooks
    def attr(self, st: State, base: Val, name: str, node) -> Val:
        return Opaque(f"attr .{name} of {base!r}")

    def call(self, st: State, node: ast.Call) -> Val:
        return Opaque(f"call {ast.unparse(node.func)}")

    def name(self, st: State, ident: str, node) -> Val:
        return Opaque(f"name {ident}")

    def subscript(self, st: State, base: Val, idx: Val, node) -> Val:
        return Opaque("subscript")

    def store_attr(self, st: State, base: Val, name: str, value: Val, node):
        st.site("attr-store", node, base=base, attr=name, value=value)
        if isinstance(base, Obj):
            st.heap[(base, name)] = value

    def store_subscript(self, st: State, base: Val, idx: Val, value: Val, node):
        st.site("sub-store", node, base=base, idx=idx, value=value)

    # ---------------- running a function
    def run(self, fn: ast.FunctionDef, st: State) -> List[Path]:
        paths = []
        for s2, out in self.block(fn.body, st):
            if out is None:
                paths.append(Path(s2, NoneV(), None))
            else:
                paths.append(Path(s2, out[1], out[0]))
        return paths

    def block(self, stmts, st: State):
        """returns list of (state, outcome) ; outcome None=fallthrough or (node, value)=returned"""
        cur = [(st, None)]
        for stmt in stmts:
            nxt = []
            for s, out in cur:
                if out is not None:
                    nxt.append((s, out))
                    continue
                nxt.extend(self.stmt(stmt, s))
            cur = nxt
            if len(cur) > self.max_paths:
                raise Unmodelled(stmt, "path explosion")
        return cur

    def stmt_base(self, node, st: State):
        if isinstance(node, ast.Return):
            v = self.expr(node.value, st) if node.value is not None else NoneV()
            return [(st, (node, v))]
        if isinstance(node, ast.Expr):
            if isinstance(node.value, ast.Constant):
                return [(st, None)]
            self.expr(node.value, st)
            return [(st, None)]
        if isinstance(node, ast.Pass):
            return [(st, None)]
        if isinstance(node, ast.Assign):
            v = self.expr(node.value, st)
            for tgt in node.targets:
                self.assign(tgt, v, st, node)
            return [(st, None)]
        if isinstance(node, ast.AnnAssign):
            if node.value is not None:
                self.assign(node.target, self.expr(node.value, st), st, node)
            return [(st, None)]
        if isinstance(node, ast.AugAssign):
            cur = self.expr(_as_load(node.target), st)
            rhs = self.expr(node.value, st)
            v = self.binop(type(node.op), cur, rhs, st, node)
            self.assign(node.target, v, st, node)
            return [(st, None)]
        if isinstance(node, ast.If):
            out = []
            self._idiom = _default_zero_idiom(node)
            try:
                cps = self.cond_paths(node.test, st)
            finally:
                self._idiom = None
            if self.if_convert and len(cps) == 2 and not _has_jump(node):
                merged = self.merge_if(node, cps)
                if merged is not None:
                    return merged
            for truth, s2 in cps:
                body = node.body if truth else node.orelse
                out.extend(self.block(body, s2))
            return out
        if isinstance(node, ast.Raise):
            st.site("raise", node)
            return [(st, (node, Opaque("raise")))]
        if isinstance(node, (ast.For, ast.While)):
            return self.loop(node, st)
        if isinstance(node, ast.FunctionDef):
            st.env[node.name] = Obj("closure", node)
            return [(st, None)]
        if isinstance(node, (ast.Import, ast.ImportFrom)):
            return [(st, None)]
        self.unmodelled.append((node, f"statement {type(node).__name__}"))
        st.site("unmodelled", node, why=f"statement {type(node).__name__}")
        return [(st, None)]

    def loop_havoc(self, node, st: State):
        """havoc the variables the loop assigns, record the loop site"""
        st.site("loop-stmt", node, iter=ast.unparse(node.iter) if isinstance(node, ast.For) else "while")
        self.unmodelled.append((node, "loop statement"))
        for n in ast.walk(node):
            if isinstance(n, ast.Name) and isinstance(n.ctx, ast.Store):
                st.env[n.id] = Opaque("loop-assigned")
        return [(st, None)]

    # ---------------- loops (statement form)
    def loop(self, node, st: State):
        if isinstance(node, ast.While):
            return self.loop_havoc(node, st)
        it = self.expr(node.iter, st)
        if isinstance(it, ListV) and len(it.items) <= 6 and isinstance(node.target, ast.Name):
            # small literal list: unroll exactly
            st.site("loop", node, count=C(len(it.items)), what="for-literal")
            cur = [(st, None)]
            done = []
            for item in it.items:
                nxt = []
                for s_, o_ in cur:
                    s_.env[node.target.id] = item
                    for s2, out in self.block(node.body, s_):
                        if out is not None and not (isinstance(out[1], Obj) and out[1].kind in ("continue", "break")):
                            done.append((s2, out))
                        elif out is not None and out[1].kind == "break":
                            done.append((s2, None))
                        else:
                            nxt.append((s2, None))
                cur = nxt
            return done + cur
        dom = self.iter_domain(it, st, node) if not isinstance(it, SeqV) else (it.var, it.count, None, it.elem)
        assigned = {n.id for n in ast.walk(node) if isinstance(n, ast.Name) and isinstance(n.ctx, ast.Store)}
        if dom is None:
            st.site("loop", node, count=None, what="for", iter=it)
            for k in assigned:
                st.env[k] = Opaque("loop-assigned")
            return [(st, None)]
        var, count, enum_val, elem = dom
        st.site("loop", node, count=count, what="for")
        first = st.fork()  # first iteration: pre-loop values of loop-carried variables, offset 0
        after = st.fork()
        for k in assigned:
            after.env[k] = Opaque("loop-assigned")
        body_st = st
        loop_targets = {n.id for n in ast.walk(node.target) if isinstance(n, ast.Name)}
        for k in assigned - loop_targets:
            # value carried over from earlier iterations: an opaque symbol (its None-ness is unknown too)
            body_st.env[k] = Num(A("carried", k))
        if elem is None:
            elem = Opaque("filtered element")
        if enum_val is not None and isinstance(node.target, ast.Tuple) and len(node.target.elts) == 2:
            self.assign(node.target.elts[0], enum_val, body_st, node)
            self.assign(node.target.elts[1], elem, body_st, node)
        else:
            self.assign(node.target, elem, body_st, node)
        body_st.bounds.append((var, count))
        if isinstance(it, SeqV) and it.filt is not None:
            body_st.facts.append(it.filt)
        outs = []
        for s2, out in self.block(node.body, body_st):
            if out is not None and not (isinstance(out[1], Obj) and out[1].kind in ("continue", "break")):
                if s2.bounds and s2.bounds[-1][0] == var:
                    pass
                outs.append((s2, out))
            else:
                # sites of the body belong to the function: carry them over to the fall-through state
                seen = {id(x) for x in after.sites}
                after.sites.extend(x for x in s2.sites if id(x) not in seen)
        # first iteration, exact in the loop-carried variables (catches e.g. an unguarded None seed)
        try:
            e0 = poly.subst(elem.f, {var: ZERO}) if isinstance(elem, Num) else None
            elem0 = Num(e0) if e0 is not None else (Obj("candle", poly.subst(elem.data, {var: ZERO})) if isinstance(elem, Obj) and elem.kind == "candle" else elem)
            if enum_val is not None and isinstance(node.target, ast.Tuple) and len(node.target.elts) == 2:
                self.assign(node.target.elts[0], Num(ZERO), first, node)
                self.assign(node.target.elts[1], elem0, first, node)
            else:
                self.assign(node.target, elem0, first, node)
            first.facts.append(("ge0", count - ONE))
            if isinstance(it, SeqV) and it.filt is not None:
                first.facts.append(poly.subst(it.filt, {var: ZERO}))
            for s2, out in self.block(node.body, first):
                seen = {id(x) for x in after.sites}
                after.sites.extend(x for x in s2.sites if id(x) not in seen)
        except Unmodelled:
            pass
        outs.append((after, None))
        return outs

    def stmt(self, node, st):
        if isinstance(node, ast.Continue):
            return [(st, (node, Obj("continue")))]
        if isinstance(node, ast.Break):
            return [(st, (node, Obj("break")))]
        return self.stmt_base(node, st)

    def assign(self, tgt, v: Val, st: State, node):
        if isinstance(tgt, ast.Name):
            st.env[tgt.id] = v
        elif isinstance(tgt, ast.Subscript):
            base = self.expr(tgt.value, st)
            idx = self.expr(tgt.slice, st)
            if isinstance(base, DictV) and isinstance(idx, Str):
                base.items[idx.s] = v
            else:
                self.store_subscript(st, base, idx, v, node)
        elif isinstance(tgt, ast.Attribute):
            base = self.expr(tgt.value, st)
            self.store_attr(st, base, tgt.attr, v, node)
        elif isinstance(tgt, (ast.Tuple, ast.List)):
            if isinstance(v, ListV) and len(v.items) == len(tgt.elts):
                for t2, v2 in zip(tgt.elts, v.items):
                    self.assign(t2, v2, st, node)
            else:
                for t2 in tgt.elts:
                    self.assign(t2, Opaque("unpack"), st, node)
        else:
            self.unmodelled.append((node, "assignment target"))

    # ---------------- conditions
    def cond_paths(self, test, st: State):
        """evaluate a boolean expression with short-circuit forking -> [(truth, state)]"""
        if isinstance(test, ast.BoolOp):
            is_and = isinstance(test.op, ast.And)
            cur = [(None, st)]
            result = []
            for i, sub in enumerate(test.values):
                nxt = []
                for _, s in cur:
                    for truth, s2 in self.cond_paths(sub, s):
                        if is_and and not truth:
                            result.append((False, s2))
                        elif (not is_and) and truth:
                            result.append((True, s2))
                        else:
                            nxt.append((truth, s2))
                cur = nxt
            for truth, s in cur:
                result.append((is_and, s))
            return result
        if isinstance(test, ast.UnaryOp) and isinstance(test.op, ast.Not):
            return [(not t, s) for t, s in self.cond_paths(test.operand, st)]
        v = self.expr(test, st)
        c = self.truth(v, st, test)
        return self.split_cond(c, st)

    def split_cond(self, c, st: State):
        if c is True or c is False:
            return [(c, st)]
        if c[0] == "and":
            cur, res = [st], []
            for sub in c[1:]:
                nxt = []
                for s in cur:
                    for t, s2 in self.split_cond(sub, s):
                        (nxt if t else res).append((s2) if t else (False, s2))
                cur = nxt
            return res + [(True, s) for s in cur]
        if c[0] == "or":
            cur, res = [st], []
            for sub in c[1:]:
                nxt = []
                for s in cur:
                    for t, s2 in self.split_cond(sub, s):
                        if t:
                            res.append((True, s2))
                        else:
                            nxt.append(s2)
                cur = nxt
            return res + [(False, s) for s in cur]
        known = self.decide(c, st)
        if known is not None:
            return [(known, st)]
        s_true, s_false = st, st.fork()
        s_true.facts.append(c)
        s_false.facts.append(c_not(c))
        return [(True, s_true), (False, s_false)]

    def decide(self, c, st: State):
        if c in st.facts:
            return True
        if c_not(c) in st.facts:
            return False
        return None

    def truth(self, v: Val, st: State, node):
        """condition under which value v is truthy; records truthiness sites"""
        if isinstance(v, BoolV):
            return v.cond
        if isinstance(v, NoneV):
            return False
        if isinstance(v, DictV):
            return bool(v.items)
        if isinstance(v, Num):
            if v.f.is_const():
                return v.f.const_value() != 0
            st.site("truthy", node, value=v.f, idiom=getattr(self, "_idiom", None), value_sign=self.sg(st, v.f))
            return ("truthy", v.f)
        if isinstance(v, Str):
            return ("truthy-str", v.s) if "<" in v.s else bool(v.s)
        if isinstance(v, ListV):
            return bool(v.items)
        st.site("truthy-opaque", node, value=v)
        return ("opaque", ast.unparse(node))

    # ---------------- expressions
    def expr(self, node, st: State) -> Val:
        m = getattr(self, "e_" + type(node).__name__, None)
        if m is None:
            self.unmodelled.append((node, f"expression {type(node).__name__}"))
            return Opaque(f"expr {type(node).__name__}")
        return m(node, st)

    def e_Constant(self, node, st):
        v = node.value
        if v is None:
            return NoneV()
        if isinstance(v, bool):
            return BoolV(v)
        if isinstance(v, (int, float)):
            return Num(C(Fraction(str(v)) if isinstance(v, float) else v))
        if isinstance(v, str):
            return Str(v)
        return Opaque(f"const {v!r}")

    def e_Name(self, node, st):
        if node.id in st.env:
            return st.env[node.id]
        return self.name(st, node.id, node)

    def e_Attribute(self, node, st):
        base = self.expr(node.value, st)
        if isinstance(base, Obj) and (base, node.attr) in st.heap:
            return st.heap[(base, node.attr)]
        return self.attr(st, base, node.attr, node)

    def e_JoinedStr(self, node, st):
        out = ""
        for part in node.values:
            if isinstance(part, ast.Constant):
                out += str(part.value)
            else:
                v = self.expr(part.value, st)
                out += self.to_text(v)
        return Str(out)

    def to_text(self, v: Val) -> str:
        if isinstance(v, Str):
            return v.s
        if isinstance(v, Num):
            return "<" + repr(v.f) + ">"
        return "<?" + repr(v) + ">"

    def e_Dict(self, node, st):
        d = DictV()
        for k, v in zip(node.keys, node.values):
            kv = self.expr(k, st) if k is not None else None
            if not isinstance(kv, Str):
                return Opaque("dict with non-literal key")
            d.items[kv.s] = self.expr(v, st)
        return d

    def e_List(self, node, st):
        return ListV([self.expr(e, st) for e in node.elts])

    e_Tuple = e_List

    def e_UnaryOp(self, node, st):
        if isinstance(node.op, ast.Not):
            v = self.expr(node.operand, st)
            return BoolV(c_not(self.truth(v, st, node.operand)))
        v = self.expr(node.operand, st)
        if isinstance(v, Num):
            return Num(-v.f) if isinstance(node.op, ast.USub) else v
        return Opaque("unary on non-number")

    def e_BinOp(self, node, st):
        l = self.expr(node.left, st)
        r = self.expr(node.right, st)
        return self.binop(type(node.op), l, r, st, node)

    def binop(self, op, l: Val, r: Val, st: State, node) -> Val:
        if isinstance(l, Str) and isinstance(r, Str) and op is ast.Add:
            return Str(l.s + r.s)
        if isinstance(l, BoolV) and l.cond in (True, False):
            l = Num(C(int(l.cond)))
        if isinstance(r, BoolV) and r.cond in (True, False):
            r = Num(C(int(r.cond)))
        if isinstance(l, BoolV) and isinstance(r, Num):
            l = Num(mk_ite(l.cond, ONE, ZERO))
        if isinstance(r, BoolV) and isinstance(l, Num):
            r = Num(mk_ite(r.cond, ONE, ZERO))
        if not (isinstance(l, Num) and isinstance(r, Num)):
            if isinstance(l, NoneV) or isinstance(r, NoneV):
                st.site("none-arith", node)
            return Opaque(f"binop on {type(l).__name__},{type(r).__name__}")
        a, b = l.f, r.f
        _rd = [x for x in (poly._single_atom(a), poly._single_atom(b)) if x is not None and x[0] == "rd"]
        if _rd:
            st.site("rd-arith", node, atoms=_rd)
        if op is ast.Add:
            r = a + b
            self._track(st, op, a, b, r)
            return Num(r)
        if op is ast.Sub:
            r = a - b
            self._track(st, op, a, b, r)
            return Num(r)
        if op is ast.Mult:
            r = a * b
            self._track(st, op, a, b, r)
            return Num(r)
        if op is ast.Div:
            st.site("div", node, num=a, den=b, op="/", den_sign=self.sg(st, b))
            if b.is_zero():
                return Opaque("division by literal zero")
            r = a / b
            self._track(st, op, a, b, r)
            return Num(r)
        if op is ast.FloorDiv:
            st.site("div", node, num=a, den=b, op="//")
            return Num(mk_fn("floordiv", a, b))
        if op is ast.Mod:
            st.site("div", node, num=a, den=b, op="%")
            return Num(mk_fn("mod", a, b))
        if op is ast.Pow:
            return Num(mk_pow(a, b))
        return Opaque(f"operator {op.__name__}")

    def e_Compare(self, node, st):
        left = self.expr(node.left, st)
        conds = []
        for op, rnode in zip(node.ops, node.comparators):
            right = self.expr(rnode, st)
            conds.append(self.compare(op, left, right, st, node))
            left = right
        if len(conds) == 1:
            return BoolV(conds[0])
        if any(c is False for c in conds):
            return BoolV(False)
        conds = [c for c in conds if c is not True]
        return BoolV(("and",) + tuple(conds)) if len(conds) > 1 else BoolV(conds[0] if conds else True)

    def compare(self, op, l: Val, r: Val, st: State, node):
        if isinstance(op, (ast.Is, ast.IsNot)):
            pos = isinstance(op, ast.Is)
            c = self.is_none(l, st, node) if isinstance(r, NoneV) else (self.is_none(r, st, node) if isinstance(l, NoneV) else ("opaque", ast.unparse(node)))
            if isinstance(l, BoolV) and isinstance(r, BoolV) and r.cond in (True, False):
                c = l.cond if r.cond else c_not(l.cond)
            return c if pos else c_not(c)
        if type(op) in CMP_OPS:
            if isinstance(l, Num) and isinstance(r, Num):
                st.site("compare", node, lhs=l.f, rhs=r.f, op=CMP_OPS[type(op)])
                return mk_cmp(CMP_OPS[type(op)], l.f, r.f)
            if isinstance(l, Str) and isinstance(r, Str) and type(op) in (ast.Eq, ast.NotEq):
                eq = l.s == r.s if ("<" not in l.s and "<" not in r.s) else ("streq", l.s, r.s)
                return eq if type(op) is ast.Eq else c_not(eq)
            if isinstance(l, NoneV) or isinstance(r, NoneV):
                if type(op) in (ast.Eq, ast.NotEq):
                    other = r if isinstance(l, NoneV) else l
                    c = self.is_none(other, st, node)
                    return c if type(op) is ast.Eq else c_not(c)
                st.site("none-compare", node)
            if isinstance(l, (Num, BoolV)) and isinstance(r, (Num, BoolV)) and type(op) in (ast.Eq, ast.NotEq):
                lf = l.f if isinstance(l, Num) else mk_ite(l.cond, ONE, ZERO)
                rf = r.f if isinstance(r, Num) else mk_ite(r.cond, ONE, ZERO)
                return mk_cmp(CMP_OPS[type(op)], lf, rf)
        if isinstance(op, (ast.In, ast.NotIn)):
            return ("opaque", ast.unparse(node))
        return ("opaque", ast.unparse(node))

    def is_none(self, v: Val, st: State, node):
        if isinstance(v, NoneV):
            return True
        if isinstance(v, (DictV, ListV, Str, BoolV)):
            return False
        if isinstance(v, Num):
            a = poly._single_atom(v.f)
            if a is not None and a[0] == "rd":
                return c_not(("present", a[1], a[2]))
            if a is not None and a[0] == "red":
                return ("isnone", v.f)
            # the result of arithmetic is never None (None operands raise instead)
            return False
        return ("opaque", ast.unparse(node))

    def e_BoolOp(self, node, st):
        # value context: only support boolean result
        vals = [self.expr(v, st) for v in node.values]
        conds = [self.truth(v, st, n) for v, n in zip(vals, node.values)]
        tag = "and" if isinstance(node.op, ast.And) else "or"
        return BoolV((tag,) + tuple(conds))

    def e_IfExp(self, node, st):
        test = self.expr(node.test, st)
        c = self.truth(test, st, node.test)
        if c is True:
            return self.expr(node.body, st)
        if c is False:
            return self.expr(node.orelse, st)
        known = self.decide(c, st)
        if known is True:
            return self.expr(node.body, st)
        if known is False:
            return self.expr(node.orelse, st)
        st.facts.append(c)
        a = self.expr(node.body, st)
        st.facts.pop()
        st.facts.append(c_not(c))
        b = self.expr(node.orelse, st)
        st.facts.pop()
        if isinstance(a, Num) and isinstance(b, Num):
            r = mk_ite(c, a.f, b.f)
            if self.sign_env_factory is not None:
                from . import sign as S

                st.facts.append(c)
                sa = self.sg(st, a.f)
                st.facts.pop()
                st.facts.append(c_not(c))
                sb = self.sg(st, b.f)
                st.facts.pop()
                st.sgn[r] = S.s_join(sa, sb)
            return Num(r)
        if isinstance(a, NoneV) and isinstance(b, NoneV):
            return a
        return Obj("ite", (c, a, b))

    def e_Subscript(self, node, st):
        base = self.expr(node.value, st)
        if isinstance(node.slice, ast.Slice):
            lo = self.expr(node.slice.lower, st) if node.slice.lower else None
            hi = self.expr(node.slice.upper, st) if node.slice.upper else None
            if isinstance(base, SeqV) and base.filt is None and node.slice.step is None:
                k = int(lo.f.const_value()) if isinstance(lo, Num) and lo.f.is_const() else (0 if lo is None else None)
                m = -int(hi.f.const_value()) if isinstance(hi, Num) and hi.f.is_const() and hi.f.const_value() < 0 else (0 if hi is None else None)
                if k is not None and m is not None and k >= 0:
                    shifted = subst_val(base.elem, {base.var: Frac.atom(base.var) + C(k)}) if k else base.elem
                    return SeqV(base.var, base.count - C(k + m), shifted, None)
            return self.slice(st, base, lo, hi, node)
        idx = self.expr(node.slice, st)
        if isinstance(base, DictV) and isinstance(idx, Str):
            return base.items.get(idx.s, NoneV())
        if isinstance(base, ListV) and isinstance(idx, Num) and idx.f.is_const():
            i = int(idx.f.const_value())
            if -len(base.items) <= i < len(base.items):
                return base.items[i]
        return self.subscript(st, base, idx, node)

    def slice(self, st, base, lo, hi, node) -> Val:
        return Opaque("slice")

    def e_Call(self, node, st):
        fn = node.func
        if isinstance(fn, ast.Name) and fn.id not in st.env:
            b = self.builtin(fn.id, node, st)
            if b is not None:
                return b
        return self.call(st, node)

    # ---------------- builtins and reductions
    def builtin(self, name, node, st) -> Optional[Val]:
        args = node.args
        if name in ("sum", "min", "max", "any", "all") and len(args) == 1 and isinstance(args[0], (ast.GeneratorExp, ast.ListComp)):
            return self.reduction(name, args[0], st, node)
        if name in ("abs", "float", "int", "round", "bool"):
            v = self.expr(args[0], st)
            if name == "bool":
                return BoolV(self.truth(v, st, args[0]))
            if isinstance(v, Num):
                if name == "round":
                    return Num(mk_fn("round", v.f, *[self.num(self.expr(a, st)) for a in args[1:]]))
                return Num(mk_fn(name, v.f))
            if isinstance(v, NoneV):
                st.site("none-arith", node)
            return Opaque(f"{name} of {type(v).__name__}")
        if name in ("min", "max"):
            vals = [self.expr(a, st) for a in args]
            if len(vals) == 1 and isinstance(vals[0], SeqV):
                s = vals[0]
                if isinstance(s.elem, Num):
                    st.site("loop", node, count=s.count, what=name)
                    body = s.elem.f if s.filt is None else mk_ite(s.filt, s.elem.f, A("sym", "skip"))
                    red = Num(mk_red(name, s.var, s.count, body, False))
                    dflt = [kw for kw in node.keywords if kw.arg == "default"]
                    if dflt:
                        dv = self.expr(dflt[0].value, st)
                        return Obj("ite", (("nonempty", s.var, s.count, s.filt), red, dv))
                    st.site("reduce-maybe-empty", node, seq=s, what=name)
                    return red
            if all(isinstance(v, Num) for v in vals) and vals:
                return Num(mk_fn(name, *[v.f for v in vals]))
            return Opaque(f"{name} over non-numbers")
        if name == "sum" and len(args) == 1:
            v = self.expr(args[0], st)
            if isinstance(v, SeqV) and isinstance(v.elem, Num):
                st.site("loop", node, count=v.count, what="sum")
                body = v.elem.f if v.filt is None else mk_ite(v.filt, v.elem.f, ZERO)
                return Num(mk_sum(v.var, v.count, body))
            if isinstance(v, ListV) and all(isinstance(x, Num) for x in v.items):
                out = ZERO
                for x in v.items:
                    out = out + x.f
                return Num(out)
            return Opaque("sum of unknown")
        if name in ("all", "any") and len(args) == 1:
            v = self.expr(args[0], st)
            if isinstance(v, ListV):
                conds = [self.truth(x, st, node) for x in v.items]
                return BoolV((("and" if name == "all" else "or"),) + tuple(conds))
            return Opaque(f"{name} of unknown")
        if name == "len":
            v = self.expr(args[0], st)
            return self.length(st, v, node)
        if name == "isinstance":
            v = self.expr(args[0], st)
            return BoolV(self.isinstance_(st, v, args[1], node))
        if name == "range":
            vals = [self.num(self.expr(a, st)) for a in args]
            return Obj("range", tuple(vals))
        if name == "enumerate":
            return Obj("enumerate", self.expr(args[0], st))
        if name == "reversed":
            return Obj("reversed", self.expr(args[0], st))
        if name == "getattr" and len(args) in (2, 3):
            base, nm = self.expr(args[0], st), self.expr(args[1], st)
            if isinstance(nm, Str) and "<" not in nm.s:
                return self.attr(st, base, nm.s, node)
        if name == "zip" and len(args) == 2:
            return Obj("zip", (self.expr(args[0], st), self.expr(args[1], st)))
        if name in ("list", "tuple"):
            return self.expr(args[0], st) if args else ListV([])
        if name == "str":
            return Str(self.to_text(self.expr(args[0], st)))
        return None

    def num(self, v: Val) -> Frac:
        if isinstance(v, Num):
            return v.f
        return A("sym", f"?{v!r}")

    def length(self, st, v, node) -> Val:
        if isinstance(v, ListV):
            return Num(C(len(v.items)))
        if isinstance(v, SeqV):
            return Num(v.count) if v.filt is None else Opaque("len of filtered seq")
        return Opaque("len")

    def isinstance_(self, st, v, typ, node):
        return ("opaque", ast.unparse(node))

    def iter_domain(self, it: Val, st: State, node):
        """-> (count, {loopvar_pattern: value builder}) for range / enumerate(range) / SeqV, else None
        returns (var, count, index_value(Frac of var) or None, elem Val or None)"""
        var = poly.fresh_bv()
        o = Frac.atom(var)
        if isinstance(it, Obj) and it.kind == "range":
            r = it.data
            if len(r) == 1:
                return var, r[0], None, Num(o)
            if len(r) == 2:
                return var, r[1] - r[0], None, Num(r[0] + o)
            if len(r) == 3 and r[2].is_const():
                step = r[2].const_value()
                if step == -1:
                    return var, r[0] - r[1], None, Num(r[0] - o)
                if step == 1:
                    return var, r[1] - r[0], None, Num(r[0] + o)
            return None
        if isinstance(it, Obj) and it.kind == "enumerate":
            inner = self.iter_domain(it.data, st, node)
            if inner is None:
                return None
            v2, count, _, elem = inner
            return v2, count, Num(Frac.atom(v2)), elem
        if isinstance(it, SeqV):
            return it.var, it.count, None, it.elem if it.filt is None else None
        if isinstance(it, Obj) and it.kind == "reversed":
            inner = self.iter_domain(it.data, st, node)
            if inner is None or inner[3] is None or inner[2] is not None:
                return None
            v2, count, _, elem = inner
            # position o of the reversed sequence is position count-1-o of the sequence
            return var, count, None, subst_val(elem, {v2: count - ONE - o})
        if isinstance(it, Obj) and it.kind == "zip":
            da, db = self.iter_domain(it.data[0], st, node), self.iter_domain(it.data[1], st, node)
            if da is None or db is None or da[3] is None or db[3] is None:
                return None
            ea = subst_val(da[3], {da[0]: o})
            eb = subst_val(db[3], {db[0]: o})
            d = da[1] - db[1]
            if d.is_const():
                count = db[1] if d.const_value() >= 0 else da[1]
            else:
                count = mk_fn("min", da[1], db[1])
            return var, count, None, ListV([ea, eb])
        return None

    def reduction(self, name, comp, st: State, node) -> Val:
        if len(comp.generators) != 1:
            self.unmodelled.append((node, "nested comprehension"))
            return Opaque("nested comprehension")
        gen = comp.generators[0]
        it = self.expr(gen.iter, st)
        dom = self.iter_domain(it, st, node)
        if dom is None:
            st.site("loop", node, count=None, what=name, iter=it)
            return self.reduction_other(name, comp, it, st, node)
        var, count, enum_val, elem = dom
        if elem is None:
            return Opaque("filtered sequence re-iterated")
        st.site("loop", node, count=count, what=name)
        saved = dict(st.env)
        tgt = gen.target
        if enum_val is not None and isinstance(tgt, ast.Tuple) and len(tgt.elts) == 2:
            self.assign(tgt.elts[0], enum_val, st, node)
            self.assign(tgt.elts[1], elem, st, node)
        else:
            self.assign(tgt, elem, st, node)
        st.bounds.append((var, count))
        filt = None
        for cnd in gen.ifs:
            c = self.truth(self.expr(cnd, st), st, cnd)
            filt = c if filt is None else ("and", filt, c)
        body = self.expr(comp.elt, st)
        st.bounds.pop()
        st.env = saved
        if name == "sum" and isinstance(body, Num):
            b = body.f if filt is None else mk_ite(filt, body.f, ZERO)
            return Num(mk_sum(var, count, b))
        if name in ("min", "max") and isinstance(body, Num) and filt is None:
            return Num(mk_red(name, var, count, body.f, False))
        if name in ("any", "all"):
            c = self.truth(body, st, comp.elt)
            return BoolV((name + "-over", var, count, c))
        return Opaque(f"{name} reduction over {type(body).__name__}")

    def reduction_other(self, name, comp, it, st, node) -> Val:
        return Opaque(f"{name} over non-range iterable")

    def e_ListComp(self, node, st):
        if len(node.generators) != 1:
            return Opaque("nested comprehension")
        gen = node.generators[0]
        it = self.expr(gen.iter, st)
        dom = self.iter_domain(it, st, node)
        if dom is None:
            st.site("loop", node, count=None, what="listcomp", iter=it)
            return self.listcomp_other(node, it, st)
        var, count, enum_val, elem = dom
        if elem is None:
            return Opaque("filtered sequence re-iterated")
        st.site("loop", node, count=count, what="listcomp")
        saved = dict(st.env)
        if enum_val is not None and isinstance(gen.target, ast.Tuple) and len(gen.target.elts) == 2:
            self.assign(gen.target.elts[0], enum_val, st, node)
            self.assign(gen.target.elts[1], elem, st, node)
        else:
            self.assign(gen.target, elem, st, node)
        st.bounds.append((var, count))
        filt = None
        for cnd in gen.ifs:
            c = self.truth(self.expr(cnd, st), st, cnd)
            filt = c if filt is None else ("and", filt, c)
        body = self.expr(node.elt, st)
        st.bounds.pop()
        st.env = saved
        return SeqV(var, count, body, filt)

    e_GeneratorExp = e_ListComp

    def listcomp_other(self, node, it, st) -> Val:
        return Opaque("comprehension over non-range iterable")

    def e_Set(self, node, st):
        return ListV([self.expr(e, st) for e in node.elts])

    def e_Lambda(self, node, st):
        return Opaque("lambda")


def subst_val(v, mp):
    """substitute atoms inside a value"""
    if isinstance(v, Num):
        return Num(poly.subst(v.f, mp))
    if isinstance(v, ListV):
        return ListV([subst_val(x, mp) for x in v.items])
    if isinstance(v, DictV):
        return DictV({k: subst_val(x, mp) for k, x in v.items.items()})
    if isinstance(v, BoolV) and isinstance(v.cond, tuple):
        return BoolV(poly.subst(v.cond, mp))
    if isinstance(v, Obj) and v.kind == "candle" and isinstance(v.data, Frac):
        return Obj("candle", poly.subst(v.data, mp))
    return v


def merge_vals(cond, va: Val, vb: Val):
    if isinstance(va, Num) and isinstance(vb, Num):
        return Num(mk_ite(cond, va.f, vb.f))
    if isinstance(va, BoolV) and isinstance(vb, BoolV):
        if va.cond is True and vb.cond is False:
            return BoolV(cond)
        if va.cond is False and vb.cond is True:
            return BoolV(c_not(cond))
        return BoolV(("or", ("and", cond, va.cond), ("and", c_not(cond), vb.cond)))
    if isinstance(va, NoneV) and isinstance(vb, NoneV):
        return va
    return Obj("ite", (cond, va, vb))


def _has_jump(node) -> bool:
    for n in ast.walk(node):
        if isinstance(n, (ast.Return, ast.Raise, ast.Continue, ast.Break, ast.For, ast.While)):
            return True
    return False


def _default_zero_idiom(node: ast.If):
    """`if not x: x = 0`"""
    t = node.test
    if isinstance(t, ast.UnaryOp) and isinstance(t.op, ast.Not) and isinstance(t.operand, ast.Name) and not node.orelse and len(node.body) == 1:
        b = node.body[0]
        if (
            isinstance(b, ast.Assign)
            and len(b.targets) == 1
            and isinstance(b.targets[0], ast.Name)
            and b.targets[0].id == t.operand.id
            and isinstance(b.value, ast.Constant)
            and b.value.value in (0, 0.0)
            and not isinstance(b.value.value, bool)
        ):
            return "default-zero"
    return None


def _as_load(node):
    n = copy.deepcopy(node)
    for x in ast.walk(n):
        if hasattr(x, "ctx"):
            x.ctx = ast.Load()
    return n
