"""Alias expansion: `x = <path>` (a local name for an attribute path / an element of one) is replaced by the path wherever x is read,
when nothing between the binding and the reads can re-bind the path.  `Introduce local alias` and its inverse are the same program;
the canonical form has no aliases, which is the form the pinned tree is mostly written in.

Soundness of the expansion rests on a name-based may-write summary of the whole package (computed here, from the loaded trees):
for every function name the set of attribute names it may store to, directly or through the package functions it may call
(resolved by bare name, merged over same-named functions: an over-approximation), with
  * a store to a property that has a setter counted as a call of the setter,
  * a write to an attribute a property getter reads counted as a write to the property,
  * in-place mutation of a list held in attribute `a` recorded as "[a]", mutation through a parameter as "[?]" (may be any list).
An alias whose path could be re-bound (or, for an element alias, whose list could be mutated) between binding and last read is
left alone: expanding a stale read would hide exactly the defect a `cached too early` change introduces."""
from __future__ import annotations

import ast
import copy
from typing import Dict, List, Set

_MUTATORS = ("append", "extend", "insert", "pop", "remove", "clear", "sort", "reverse", "update", "setdefault", "popitem", "add", "discard")
_FRESH = ("list", "dict", "set", "tuple", "sorted", "deepcopy", "copy")


def _path(e):
    """-> (root name, [attrs], subscript index expr or None) for Name(.attr)*([idx])?   else None"""
    idx = None
    if isinstance(e, ast.Call) and isinstance(e.func, ast.Name) and e.func.id == "len" and len(e.args) == 1 and not e.keywords:
        # the length of a list held under a path: stable until the path is re-bound or the list mutated (like an element of it)
        inner = _path(e.args[0]) if not isinstance(e.args[0], ast.Name) else (e.args[0].id, [], None)
        if inner is None or inner[2] is not None or inner[0] == "<tuple>":
            return None
        return inner[0], inner[1], ast.Constant(value=0)
    if isinstance(e, ast.Tuple) and e.elts and all(isinstance(x, (ast.Name, ast.Constant)) for x in e.elts) and any(isinstance(x, ast.Name) for x in e.elts):
        # a tuple of locals / parameters handed around under one name
        return "<tuple>", [], ast.Tuple(elts=[x for x in e.elts if isinstance(x, ast.Name)], ctx=ast.Load())
    if isinstance(e, ast.Subscript) and not isinstance(e.slice, ast.Slice):
        if any(isinstance(n, (ast.Call, ast.Subscript, ast.Attribute, ast.NamedExpr, ast.Lambda, ast.IfExp)) for n in ast.walk(e.slice)):
            return None
        idx = e.slice
        e = e.value
    attrs = []
    while isinstance(e, ast.Attribute):
        attrs.append(e.attr)
        e = e.value
    if not isinstance(e, ast.Name):
        return None
    if not attrs and idx is None:
        return None
    return e.id, list(reversed(attrs)), idx


class Summary:
    def __init__(self, trees: List[ast.AST]):
        self.writes: Dict[str, Set[str]] = {}
        self.calls: Dict[str, Set[str]] = {}
        self.getter_reads: Dict[str, Set[str]] = {}
        self.setters: Set[str] = set()
        self.top: Set[str] = set()  # functions with dynamic stores (setattr with a computed name, __dict__ writes)
        # attributes that hold plain containers (list / dict / set) vs. anything else, from annotations and initial values
        self.container_attrs: Set[str] = set()
        self.object_attrs: Set[str] = set()

        def classify(name, ann, val):
            txt = (ast.unparse(ann) if ann is not None else "")
            head = txt.replace("Optional[", "").split("[")[0].split(".")[-1]
            is_cont = head in ("List", "Dict", "Set", "list", "dict", "set", "Sequence", "MutableSequence", "Deque", "deque", "DefaultDict", "OrderedDict")
            if val is not None:
                if isinstance(val, (ast.List, ast.Dict, ast.Set, ast.ListComp, ast.DictComp, ast.SetComp)):
                    is_cont = True
                elif isinstance(val, ast.Call) and ast.unparse(val.func) in ("list", "dict", "set", "deque", "defaultdict"):
                    is_cont = True
                elif isinstance(val, ast.Call) and ast.unparse(val.func) == "field" and any(k.arg == "default_factory" and ast.unparse(k.value) in ("list", "dict", "set") for k in val.keywords):
                    is_cont = True
                elif ann is None and not isinstance(val, (ast.IfExp, ast.Name, ast.Constant)):
                    pass
            (self.container_attrs if is_cont else self.object_attrs).add(name)

        for t in trees:
            for cls in [n for n in ast.walk(t) if isinstance(n, ast.ClassDef)]:
                for st in cls.body:
                    if isinstance(st, ast.AnnAssign) and isinstance(st.target, ast.Name):
                        classify(st.target.id, st.annotation, st.value)
                for n in ast.walk(cls):
                    if isinstance(n, ast.AnnAssign) and isinstance(n.target, ast.Attribute):
                        classify(n.target.attr, n.annotation, n.value)
        self.container_attrs -= self.object_attrs
        for t in trees:
            for fn in [n for n in ast.walk(t) if isinstance(n, (ast.FunctionDef, ast.AsyncFunctionDef))]:
                decos = [ast.unparse(d) for d in fn.decorator_list]
                if "property" in decos:
                    self.getter_reads.setdefault(fn.name, set()).update(n.attr for n in ast.walk(fn) if isinstance(n, ast.Attribute) and isinstance(n.ctx, ast.Load))
                    continue
                if any(d.endswith(".setter") for d in decos):
                    self.setters.add(fn.name)
                w, c = self.direct(fn)
                self.writes.setdefault(fn.name, set()).update(w)
                self.calls.setdefault(fn.name, set()).update(c)
        # closure
        changed = True
        while changed:
            changed = False
            for f, cs in self.calls.items():
                for g in cs:
                    if g in self.writes and not self.writes[g] <= self.writes[f]:
                        self.writes[f] |= self.writes[g]
                        changed = True
                    if g in self.top and f not in self.top:
                        self.top.add(f)
                        changed = True

    def direct(self, node, params=None):
        """(attribute names written, names called) by the statements under `node`"""
        w: Set[str] = set()
        c: Set[str] = set()
        if params is None:
            params = {a.arg for a in node.args.args + node.args.kwonlyargs} if isinstance(node, (ast.FunctionDef, ast.AsyncFunctionDef)) else set()
        fresh = set()
        for n in ast.walk(node):
            if isinstance(n, ast.Assign) and len(n.targets) == 1 and isinstance(n.targets[0], ast.Name):
                v = n.value
                if isinstance(v, (ast.List, ast.Dict, ast.Set, ast.ListComp, ast.DictComp, ast.SetComp, ast.Tuple)) or (isinstance(v, ast.Call) and isinstance(v.func, ast.Name) and v.func.id in _FRESH):
                    fresh.add(n.targets[0].id)
        for n in ast.walk(node):
            if isinstance(n, ast.Attribute) and isinstance(n.ctx, (ast.Store, ast.Del)):
                w.add(n.attr)
                c.add(n.attr)  # a property setter of that name, if there is one
            elif isinstance(n, ast.Subscript) and isinstance(n.ctx, (ast.Store, ast.Del)):
                base = n.value
                if isinstance(base, ast.Attribute):
                    w.add(f"[{base.attr}]")
                elif isinstance(base, ast.Name) and base.id not in fresh:
                    w.add("[?]")
            elif isinstance(n, ast.Call):
                f = n.func
                if isinstance(f, ast.Name):
                    c.add(f.id)
                    if f.id == "setattr":
                        if len(n.args) >= 2 and isinstance(n.args[1], ast.Constant) and isinstance(n.args[1].value, str):
                            w.add(n.args[1].value)
                            c.add(n.args[1].value)
                        else:
                            w.add("<any>")
                elif isinstance(f, ast.Attribute):
                    if f.attr in _MUTATORS:
                        base = f.value
                        if isinstance(base, ast.Name) and base.id in fresh:
                            pass  # a method of a container built right here: not a call into the package
                        elif isinstance(base, ast.Attribute) and base.attr in self.container_attrs:
                            w.add(f"[{base.attr}]")
                        else:
                            c.add(f.attr)
                    else:
                        c.add(f.attr)
                    if f.attr in _MUTATORS and not (isinstance(f.value, ast.Name) and f.value.id in fresh) and not (isinstance(f.value, ast.Attribute) and f.value.attr in self.container_attrs):
                        base = f.value
                        if isinstance(base, ast.Attribute):
                            w.add(f"[{base.attr}]")
                        elif isinstance(base, ast.Name) and base.id not in fresh:
                            w.add("[?]")
                        elif not isinstance(base, ast.Name):
                            w.add("[?]")
                    if f.attr in ("__setattr__", "__dict__"):
                        w.add("<any>")
        return w, c

    def effect(self, stmts) -> Set[str]:
        w: Set[str] = set()
        for st in stmts:
            dw, dc = self.direct(st, params=set())
            w |= dw
            for g in dc:
                w |= self.writes.get(g, set())
        return w

    def may_rebind(self, written: Set[str], attrs: List[str], element: bool) -> bool:
        if "<any>" in written:
            return True
        for a in attrs:
            if a in written:
                return True
            if any(r in written for r in self.getter_reads.get(a, ())):
                return True
        if element:
            if "[?]" in written:
                return True
            last = attrs[-1] if attrs else None
            if last is not None and f"[{last}]" in written:
                return True
        return False


def _expand_in_function(fn: ast.FunctionDef, summ: Summary, log=None) -> bool:
    if any(isinstance(n, (ast.Global, ast.Nonlocal)) for n in ast.walk(fn)):
        return False
    changed = False
    for _ in range(12):
        stores: Dict[str, int] = {}
        nested_names: Set[str] = set()
        for n in ast.walk(fn):
            if isinstance(n, ast.Name) and isinstance(n.ctx, (ast.Store, ast.Del)):
                stores[n.id] = stores.get(n.id, 0) + 1
            elif isinstance(n, ast.arg):
                stores[n.arg] = stores.get(n.arg, 0) + 2
            elif isinstance(n, (ast.FunctionDef, ast.AsyncFunctionDef, ast.Lambda, ast.ClassDef)) and n is not fn:
                nested_names |= {m.id for m in ast.walk(n) if isinstance(m, ast.Name)}
            elif isinstance(n, ast.ExceptHandler) and n.name:
                stores[n.name] = stores.get(n.name, 0) + 2

        def find(owner):
            for f_ in ("body", "orelse", "finalbody"):
                lst = getattr(owner, f_, None)
                if not (isinstance(lst, list) and lst and isinstance(lst[0], ast.stmt)):
                    continue
                for i, st in enumerate(lst):
                    if isinstance(st, ast.Assign) and len(st.targets) == 1 and isinstance(st.targets[0], ast.Name):
                        x = st.targets[0].id
                        p = _path(st.value)
                        if p is not None and stores.get(x) == 1 and x not in nested_names and not x.startswith("__"):
                            root, attrs, idx = p
                            # all reads of x lie in the statements that follow in this block
                            total = sum(1 for n in ast.walk(fn) if isinstance(n, ast.Name) and n.id == x and isinstance(n.ctx, ast.Load))
                            after = lst[i + 1:]
                            here = [sum(1 for n in ast.walk(s) if isinstance(n, ast.Name) and n.id == x and isinstance(n.ctx, ast.Load)) for s in after]
                            if total and sum(here) == total:
                                last = max(k for k, c_ in enumerate(here) if c_)
                                span = after[: last + 1]
                                names = {root} | ({n.id for n in ast.walk(idx) if isinstance(n, ast.Name)} if idx is not None else set())
                                if root == "<tuple>":
                                    idx = None
                                element = idx is not None and root != "<tuple>"

                                def dirties(node) -> bool:
                                    """may executing `node` (a statement or an expression) re-bind the path / mutate the list the element was taken from?"""
                                    for n in ast.walk(node):
                                        if isinstance(n, ast.Name) and n.id in names and isinstance(n.ctx, (ast.Store, ast.Del)):
                                            return True
                                        if element and not attrs:
                                            if isinstance(n, ast.Call) and isinstance(n.func, ast.Attribute) and n.func.attr in _MUTATORS and isinstance(n.func.value, ast.Name) and n.func.value.id == root:
                                                return True
                                            if isinstance(n, ast.Subscript) and isinstance(n.ctx, (ast.Store, ast.Del)) and isinstance(n.value, ast.Name) and n.value.id == root:
                                                return True
                                    written = summ.effect([node])
                                    if element and not attrs and "[?]" in written:
                                        return True
                                    return summ.may_rebind(written, attrs, element)

                                def reads(node) -> bool:
                                    return any(isinstance(n, ast.Name) and n.id == x and isinstance(n.ctx, ast.Load) for n in ast.walk(node))

                                ok = [True]

                                def scan(stmts, dirty):
                                    """-> dirty after the statements (None: every path left the block)"""
                                    for s in stmts:
                                        if dirty is None:
                                            return None
                                        if isinstance(s, ast.If):
                                            if reads(s.test) and dirty:
                                                ok[0] = False
                                            d0 = dirty or dirties(s.test)
                                            d1, d2 = scan(s.body, d0), scan(s.orelse, d0)
                                            dirty = None if d1 is None and d2 is None else bool(d1) or bool(d2)
                                        elif isinstance(s, (ast.For, ast.While, ast.AsyncFor)):
                                            head = s.iter if not isinstance(s, ast.While) else s.test
                                            d_in = dirty or dirties(s)  # the body may run again after any of its writes
                                            if reads(s) and d_in:
                                                ok[0] = False
                                            dirty = d_in
                                        elif isinstance(s, (ast.With, ast.Try, ast.AsyncWith, ast.Match)) or isinstance(s, (ast.FunctionDef, ast.ClassDef)):
                                            if reads(s) and (dirty or dirties(s)):
                                                ok[0] = False
                                            dirty = dirty or dirties(s)
                                        else:
                                            if reads(s) and dirty:
                                                ok[0] = False
                                            if isinstance(s, (ast.Return, ast.Raise, ast.Continue, ast.Break)):
                                                return None
                                            dirty = dirty or dirties(s)
                                    return dirty

                                scan(span, False)
                                if ok[0]:
                                    return lst, i, x, st.value
                    if not isinstance(st, (ast.FunctionDef, ast.AsyncFunctionDef, ast.ClassDef)):
                        r = find(st)
                        if r:
                            return r
            for h in getattr(owner, "handlers", []) or []:
                r = find(h)
                if r:
                    return r
            return None

        r = find(fn)
        if not r:
            break
        lst, i, x, val = r
        del lst[i]
        if not lst:
            lst.append(ast.Pass())

        class _S(ast.NodeTransformer):
            def visit_Name(s_, n):
                return copy.deepcopy(val) if n.id == x and isinstance(n.ctx, ast.Load) else n

        _S().visit(fn)
        ast.fix_missing_locations(fn)
        if log is not None:
            log.append(f"{fn.name}: {x} = {ast.unparse(val)}")
        changed = True
    return changed


def expand_aliases(trees: List[ast.AST], log=None) -> bool:
    summ = Summary(trees)
    changed = False
    for t in trees:
        for fn in [n for n in ast.walk(t) if isinstance(n, ast.FunctionDef)]:
            changed = _expand_in_function(fn, summ, log) or changed
    return changed
