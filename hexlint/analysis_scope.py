"""Abstract interpretation of the analysis scope: movement / pattern functions, analysis.utils,
and the index helpers they rely on (C16, C17, C02 and the movement contracts used by indicators)."""
from __future__ import annotations

import ast
import copy
from dataclasses import dataclass, field
from typing import Dict, List, Optional

from . import poly
from .absint import (BoolV, DictV, Interp, ListV, N, NoneV, Num, Obj, Opaque, Path, SeqV, Site, State, Str, T, Unmodelled,
                     Val, c_not, merge_vals, show_cond)
from .facts import describe_facts, prove_ge0
from .model import AnalysisError, ClassInfo, FuncInfo, ModuleInfo, Repo
from .poly import A, C, Frac, ONE, ZERO, mk_fn, mk_ite, mk_rd, mk_red, mk_sum

RAW = A("raw")  # the public index argument as given (may be negative / None)
IDX = A("idx")  # absindex(raw, n): 0 <= idx <= n-1, idx == raw (mod n)

INDEX_PARAMS = ("index",)
CANDLE_FIELDS = ("open", "high", "low", "close", "volume")


class AnalysisInterp(Interp):
    def __init__(self, repo: Repo, fi: FuncInfo):
        super().__init__()
        self.repo, self.fi = repo, fi
        self.mod: ModuleInfo = fi.module
        self.depth = 0
        self.candle_cls = repo.cls("hexital.core.candle", "Candle")

    # ---------------- names / attrs
    def name(self, st, ident, node):
        if ident in ("True", "False"):
            return BoolV(ident == "True")
        r = self.repo.resolve(self.mod, ident)
        if isinstance(r, FuncInfo):
            return Obj("func", r)
        if isinstance(r, ClassInfo):
            return Obj("class", r)
        if isinstance(r, ModuleInfo):
            return Obj("module", r)
        imp = self.mod.imports.get(ident)
        if imp:
            return Obj("extmod", ".".join(imp[1:]))
        return Opaque(f"name {ident}")

    def attr(self, st, base, name, node):
        if isinstance(base, Obj) and base.kind == "candle":
            pos = base.data
            if name in CANDLE_FIELDS:
                return Num(mk_rd(name, pos))
            m = self.repo.find_method(self.candle_cls, name)
            if m is not None and m.kind == "property":
                return self.inline(st, m, {"self": base}, node, modinfo=m.module)
            if name in ("indicators", "sub_indicators"):
                return Obj("cand-" + name, pos)
            if name == "timestamp":
                return Opaque("timestamp")
            return Opaque(f"candle.{name}")
        if isinstance(base, Obj) and base.kind == "module":
            r = self.repo.resolve(base.data, name)
            if isinstance(r, FuncInfo):
                return Obj("func", r)
            if isinstance(r, ModuleInfo):
                return Obj("module", r)
            return Opaque(f"{base.data.name}.{name}")
        if isinstance(base, Obj) and base.kind == "extmod":
            return Obj("extfunc", f"{base.data}.{name}")
        return Opaque(f"attr .{name} of {base!r}")

    def subscript(self, st, base, idx, node):
        if isinstance(base, Obj) and base.kind == "candles" and isinstance(idx, Num):
            st.site("read", node, name=None, pos=idx.f, how="candles[]", checked=False)
            return Obj("candle", idx.f)
        if isinstance(base, Obj) and base.kind == "slice":
            return Opaque("subscript of slice")
        return Opaque("subscript")

    def slice(self, st, base, lo, hi, node):
        if isinstance(base, Obj) and base.kind == "candles":
            lo_f = lo.f if isinstance(lo, Num) else (ZERO if lo is None else None)
            hi_f = hi.f if isinstance(hi, Num) else (N if hi is None else None)
            st.site("slice", node, lo=lo_f, hi=hi_f)
            if lo_f is None or hi_f is None:
                return Opaque("slice with non-numeric bound")
            return Obj("slice", (lo_f, hi_f))
        return Opaque("slice")

    def length(self, st, v, node):
        if isinstance(v, Obj) and v.kind == "candles":
            st.site("len-candles", node)
            return Num(N)
        if isinstance(v, SeqV):
            if v.filt is None:
                return Num(v.count)
            return Num(A("lenf", v.var, v.count, v.filt))
        return super().length(st, v, node)

    def truth(self, v, st, node):
        if isinstance(v, Obj) and v.kind == "candles":
            return ("cmp", "<", -N)  # non-empty list: n > 0
        if isinstance(v, SeqV):
            return ("nonempty", v.var, v.count, v.filt)
        if isinstance(v, Obj) and v.kind == "ite":
            c, a, b = v.data
            return ("or", ("and", c, self.truth(a, st, node)), ("and", c_not(c), self.truth(b, st, node)))
        return super().truth(v, st, node)

    def isinstance_(self, st, v, typ, node):
        t = ast.unparse(typ)
        if isinstance(v, NoneV):
            return "None" in t  # None is an instance of nothing else
        if isinstance(v, Obj) and v.kind == "candles":
            return False if "Candle" in t else ("opaque", ast.unparse(node))
        if isinstance(v, Obj) and v.kind == "candle":
            return "Candle" in t
        if isinstance(v, Num):
            a = poly._single_atom(v.f)
            if a is not None and a[0] == "rd":
                if "dict" in t:
                    return ("isdict", a[1], a[2])
                return ("and", ("present", a[1], a[2]), ("isnum", a[1], a[2]))
            return "dict" not in t
        if isinstance(v, DictV):
            return "dict" in t
        return ("opaque", ast.unparse(node))

    def is_none(self, v, st, node):
        if isinstance(v, Num):
            a = poly._single_atom(v.f)
            if a is not None and a[0] in ("idx",):
                return ("invalid-index",)
            if a is not None and a[0] == "raw":
                return ("raw-none",)
            if a is not None and a[0] == "cfg" and a[1] in getattr(self, "optional_params", ()):
                return ("param-none", a[1])
        return super().is_none(v, st, node)

    # ---------------- iteration over candle slices and sequences
    def iter_domain(self, it, st, node):
        if isinstance(it, Obj) and it.kind == "slice":
            lo, hi = it.data
            var = poly.fresh_bv()
            return var, hi - lo, None, Obj("candle", lo + Frac.atom(var))
        if isinstance(it, Obj) and it.kind == "reversed" and isinstance(it.data, Obj) and it.data.kind == "slice":
            # newest first over candles[lo:hi]: positions hi-1, hi-2, ..., lo
            lo, hi = it.data.data
            var = poly.fresh_bv()
            return var, hi - lo, None, Obj("candle", hi - ONE - Frac.atom(var))
        if isinstance(it, Obj) and it.kind == "reversed" and isinstance(it.data, SeqV):
            s = it.data
            var = poly.fresh_bv()
            rev = poly.subst
            if isinstance(s.elem, Num):
                elem = Num(poly.subst(s.elem.f, {s.var: s.count - ONE - Frac.atom(var)}))
                filt = poly.subst(s.filt, {s.var: s.count - ONE - Frac.atom(var)}) if isinstance(s.filt, tuple) else s.filt
                if filt is not None:
                    return None
                return var, s.count, None, elem
            return None
        if isinstance(it, Obj) and it.kind == "candles":
            st.site("whole-list-iter", node)
            var = poly.fresh_bv()
            return var, N, None, Obj("candle", Frac.atom(var))
        return super().iter_domain(it, st, node)

    def e_ListComp(self, node, st):
        # filtered comprehension over a (reversed) sequence keeps element form, filter recorded
        if len(node.generators) == 1:
            gen = node.generators[0]
            it = self.expr(gen.iter, st)
            src = it.data if isinstance(it, Obj) and it.kind == "reversed" else it
            if isinstance(src, SeqV) and isinstance(gen.target, ast.Name) and isinstance(node.elt, ast.Name) and node.elt.id == gen.target.id and gen.ifs:
                saved = dict(st.env)
                st.env[gen.target.id] = src.elem
                st.bounds.append((src.var, src.count))
                filt = None
                for cnd in gen.ifs:
                    c = self.truth(self.expr(cnd, st), st, cnd)
                    filt = c if filt is None else ("and", filt, c)
                st.bounds.pop()
                st.env = saved
                st.site("loop", node, count=src.count, what="listcomp")
                return SeqV(src.var, src.count, src.elem, filt if src.filt is None else ("and", src.filt, filt))
            # fall through: evaluate generically but with `it` already computed
        return super().e_ListComp(node, st)

    e_GeneratorExp = e_ListComp

    # ---------------- calls
    def call(self, st, node):
        fn = node.func
        if isinstance(fn, ast.Attribute):
            base = self.expr(fn.value, st)
            if isinstance(base, Obj) and base.kind in ("module", "extmod"):
                return self.callee(st, node, self.attr(st, base, fn.attr, node))
            if isinstance(base, (DictV,)) and fn.attr == "get":
                return Opaque("dict.get")
            return Opaque(f"call {ast.unparse(fn)}")
        if isinstance(fn, ast.Name):
            tgt = self.expr(fn, st)
            return self.callee(st, node, tgt)
        return Opaque("call of expression")

    def bind_args(self, fnode: ast.FunctionDef, call: ast.Call, st) -> Dict[str, Val]:
        params = [a.arg for a in fnode.args.args]
        out: Dict[str, Optional[Val]] = {p: None for p in params}
        for p, a in zip(params, call.args):
            out[p] = self.expr(a, st)
        for kw in call.keywords:
            if kw.arg is not None:
                out[kw.arg] = self.expr(kw.value, st)
        defaults = fnode.args.defaults
        off = len(params) - len(defaults)
        for i, p in enumerate(params):
            if out[p] is None and i >= off:
                out[p] = self.expr(defaults[i - off], st)
        return {k: (v if v is not None else Opaque(f"missing {k}")) for k, v in out.items()}

    def callee(self, st, node, tgt):
        if isinstance(tgt, Obj) and tgt.kind == "closure":
            fnode = tgt.data
            return self.inline_node(st, fnode, self.bind_args(fnode, node, st), node, self.mod, base_env=st.env)
        if isinstance(tgt, Obj) and tgt.kind == "func":
            fi: FuncInfo = tgt.data
            mname = fi.module.name
            if mname.startswith("hexital.utils") and fi.name in ("validate_index", "absindex", "valid_index"):
                return self.index_helper(st, node, fi)
            if mname.startswith("hexital.utils") and fi.name in ("reading_by_index", "reading_by_candle"):
                b = self.bind_args(fi.node, node, st)
                name = b.get("name")
                nm = name.s if isinstance(name, Str) else f"<?{name!r}>"
                if fi.name == "reading_by_index":
                    pos = b.get("index")
                    if not isinstance(pos, Num):
                        return Opaque("reading_by_index(non-number)")
                    # valid_index inside: positions >= n give None; negative positions wrap
                    st.site("read", node, name=nm, pos=pos.f, how="reading_by_index", checked=True)
                    return Num(mk_rd(nm, pos.f))
                c = b.get("candle")
                if isinstance(c, Obj) and c.kind == "candle":
                    return Num(mk_rd(nm, c.data))
                return Opaque("reading_by_candle(non-candle)")
            if mname.startswith("hexital.analysis") or mname.startswith("hexital.utils"):
                return self.inline(st, fi, self.bind_args(fi.node, node, st), node, modinfo=fi.module)
            st.site("repo-call", node, func=fi)
            return Opaque(f"call {fi.qualname}")
        st.site("unknown-call", node, target=ast.unparse(node.func))
        return Opaque(f"call {ast.unparse(node.func)}")

    def index_helper(self, st, node, fi: FuncInfo) -> Val:
        b = self.bind_args(fi.node, node, st)
        idx = b.get("index")
        ln = b.get("length")
        ok_len = isinstance(ln, Num) and ln.f == N
        if not ok_len:
            st.site("norm-bad-length", node, func=fi.name)
        is_raw = isinstance(idx, Num) and idx.f == RAW
        if fi.name == "absindex":
            if is_raw and ok_len:
                return Num(IDX)
            if isinstance(idx, Num) and ok_len:
                st.site("absindex-of", node, arg=idx.f)
                return Num(A("sym", f"absindex({idx.f!r})"))
            return Opaque("absindex(?)")
        if fi.name == "valid_index":
            if is_raw and ok_len:
                return BoolV(("valid-raw",))
            if isinstance(idx, Num) and ok_len:
                return BoolV(("and", ("ge0", idx.f + N), ("ge0", N - ONE - idx.f)))
            return BoolV(("opaque", ast.unparse(node)))
        if fi.name == "validate_index":
            if is_raw and ok_len:
                st.site("validate-index", node)
                return Num(RAW)  # returned unchanged: still RAW
            return Opaque("validate_index(?)")
        return self.inline(st, fi, b, node, modinfo=fi.module)

    # ---------------- inlining with if-conversion and return merging
    def inline(self, st, fi: FuncInfo, args: Dict[str, Val], node, modinfo) -> Val:
        return self.inline_node(st, fi.node, args, node, modinfo)

    def inline_node(self, st, fnode, args, node, modinfo, base_env=None) -> Val:
        if self.depth >= 6:
            st.site("unmodelled", node, why="inline depth")
            return Opaque("inline depth")
        saved_env, saved_mod, saved_conv = st.env, self.mod, self.if_convert
        base_facts = len(st.facts)
        work = st.fork()
        work.env = dict(base_env or {})
        work.env.update(args)
        self.mod = modinfo
        self.if_convert = True
        self.depth += 1
        try:
            outs = self.block(fnode.body, work)
        finally:
            self.depth -= 1
            self.mod, self.if_convert = saved_mod, saved_conv
        # merge: sites of every path flow back; value = ite-chain over the path conditions
        seen = {id(x) for x in st.sites}
        for s2, _ in outs:
            for x in s2.sites:
                if id(x) not in seen:
                    seen.add(id(x))
                    st.sites.append(x)
        vals = []
        for s2, out in outs:
            delta = tuple(s2.facts[base_facts:])
            cond = True if not delta else (delta[0] if len(delta) == 1 else ("and",) + delta)
            v = out[1] if out is not None else NoneV()
            vals.append((cond, v))
        result = vals[-1][1]
        for cond, v in reversed(vals[:-1]):
            if cond is True:
                result = v
                continue
            mv = merge_vals(cond, v, result)
            result = mv if mv is not None else Obj("ite", (cond, v, result))
        return result


# ---------------------------------------------------------------------------
# per-function analysis


@dataclass
class FuncAnalysis:
    fi: FuncInfo
    paths: List[Path]
    interp: AnalysisInterp
    params: Dict[str, Val]
    error: Optional[str] = None

    def sites(self, kind=None):
        seen = set()
        for p in self.paths:
            for s in p.state.sites:
                if kind is not None and s.kind != kind:
                    continue
                k = (id(s.node), s.kind, repr(sorted((k2, repr(v)) for k2, v in s.data.items())), repr(s.facts))
                if k in seen:
                    continue
                seen.add(k)
                yield s


_cache: Dict[tuple, FuncAnalysis] = {}


def analyse_function(repo: Repo, fi: FuncInfo) -> FuncAnalysis:
    key = (repo.digest, fi.module.name, fi.qualname)
    if key in _cache:
        return _cache[key]
    it = AnalysisInterp(repo, fi)
    st = State()
    params: Dict[str, Val] = {}
    a = fi.node.args
    names = [x.arg for x in a.args + a.kwonlyargs]
    for p in names:
        ann = None
        for x in a.args + a.kwonlyargs:
            if x.arg == p and x.annotation is not None:
                ann = ast.unparse(x.annotation)
        ann_flat = (ann or "").replace(" ", "")
        if p == "candles" or "List[Candle]" in ann_flat or "list[Candle]" in ann_flat or "Sequence[Candle]" in ann_flat:
            v = Obj("candles")
        elif p in INDEX_PARAMS or (ann_flat in ("int", "Optional[int]", "int|None") and ("index" in p or "indx" in p or p == "idx")):
            v = Num(RAW)
        elif p in ("candle", "candle_two") or ann_flat == "Candle":
            v = Obj("candle", A("sym", p))
        elif ann and "str" in ann:
            v = Str(f"<{p}>")
        elif ann and ("int" in ann or "float" in ann):
            v = Num(A("cfg", p))
        elif ann and "bool" in ann:
            v = BoolV(("param", p))
        else:
            v = Opaque(f"param {p}")
        params[p] = v
        st.env[p] = v
    it.optional_params = set()
    defaults = dict(zip([x.arg for x in a.args][len(a.args) - len(a.defaults):], a.defaults))
    for x in a.args + a.kwonlyargs:
        ann = ast.unparse(x.annotation) if x.annotation is not None else ""
        d = defaults.get(x.arg)
        if "Optional" in ann or "None" in ann or (isinstance(d, ast.Constant) and d.value is None):
            it.optional_params.add(x.arg)
    fa = FuncAnalysis(fi, [], it, params)
    try:
        fa.paths = it.run(fi.node, st)
    except Unmodelled as e:
        fa.error = str(e)
    _cache[key] = fa
    return fa


def analysis_universe(repo: Repo) -> Dict[str, FuncInfo]:
    out: Dict[str, FuncInfo] = {}
    for mapname in ("MOVEMENT_MAP", "PATTERN_MAP"):
        for k, v in repo.dict_literal("hexital.analysis", mapname).items():
            if not isinstance(v, FuncInfo):
                raise AnalysisError(f"{mapname}[{k!r}] is not a function")
            out[f"{v.module.name}.{v.name}"] = v
    mv = repo.module("hexital.analysis.movement")
    for extra in ("above", "below"):
        if extra not in mv.functions:
            raise AnalysisError(f"movement.{extra} vanished")
        out[f"{mv.name}.{extra}"] = mv.functions[extra]
    return out


# facts available for position obligations in public functions (no assumption on the arguments)
def public_context(site: Site):
    extra = [N]  # n >= 0
    facts = list(site.facts)
    for c in site.facts:
        if c == ("not", ("invalid-index",)):
            extra += [IDX, N - ONE - IDX]
        if c == ("valid-raw",):
            extra += [RAW + N, N - ONE - RAW]
    return tuple(facts), extra


def evaluated_index(fa: FuncAnalysis) -> Frac:
    return IDX


def movement_summary(repo: Repo) -> Dict[str, dict]:
    """derived contract of each movement function: are all its look-back positions clamped at 0?"""
    out: Dict[str, dict] = {}
    mv = repo.module("hexital.analysis.movement")
    for name, fi in mv.functions.items():
        if name.startswith("_"):
            continue
        fa = analyse_function(repo, fi)
        clamped = fa.error is None
        n_sites = 0
        for s in list(fa.sites("read")) + list(fa.sites("slice")):
            n_sites += 1
            facts, extra = public_context(s)
            lo = s.data["pos"] if s.kind == "read" else s.data["lo"]
            if lo is None:
                clamped = False
                continue
            if RAW in poly.all_atoms(lo) or lo == RAW:
                # raw subscript guarded by validity is position-exact (i and i-n are the same candle)
                continue
            if not prove_ge0(lo, facts, extra):
                clamped = False
        out[name] = {"clamped": clamped and n_sites > 0, "sites": n_sites}
    return out
