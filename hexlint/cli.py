"""./check <id> [--tier quick|thorough] [--replay path]"""
from __future__ import annotations

import argparse
import importlib
import os
import pkgutil
import sys


def main(argv=None) -> int:
    ap = argparse.ArgumentParser()
    ap.add_argument("prop")
    ap.add_argument("--tier", default=os.environ.get("VERIF_TIER", "quick"), choices=["quick", "thorough"])
    ap.add_argument("--replay", default=None)
    args = ap.parse_args(argv)
    from . import core, props

    for m in pkgutil.iter_modules(props.__path__):
        importlib.import_module(f"hexlint.props.{m.name}")
    return core.run_check(args.prop, args.tier, args.replay)


if __name__ == "__main__":
    try:
        code = main()
    except SystemExit:
        raise
    except BaseException as e:  # noqa
        import traceback

        traceback.print_exc()
        print(f"ANALYSIS-ERROR internal: {type(e).__name__}: {e}")
        code = 2
    sys.stdout.flush()
    sys.exit(code)
