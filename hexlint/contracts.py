"""Contracts of the accessor helpers the calculation summaries rely on (DESIGN Appendix C.1), checked against
their bodies: reading_period, candles_sum, the Indicator wrappers, Managed.set_reading, Indicator._set_reading."""
from __future__ import annotations

import ast

from . import poly
from .absint import BoolV, N, NoneV, Num, Obj, c_not, mk_cmp, show_cond
from .analysis_scope import IDX, RAW, analyse_function
from .core import Result, finding, norm_construct
from .model import Repo
from .poly import A, C, Frac, ONE, ZERO, mk_fn
from .structure import arg_of, call_name, call_target, calls_in, canon_ifexp, is_subsequence, path_calls, stmt_paths

RULE = "R-CONTRACT"


def check_reading_period(prop: str, res: Result, repo: Repo):
    """reading_period(candles, P, name, at): False if at-(P-1) < 0, else presence at offsets {P-1, (P-1)/2, 0}"""
    f = repo.func("hexital.utils.candles", "reading_period")
    fa = analyse_function(repo, f)
    if fa.error:
        res.errors.append(f"{f.where}: {fa.error}")
        return
    P = A("cfg", "period")
    name = "<name>"
    n_true = 0
    for p in fa.paths:
        if not (isinstance(p.ret, BoolV) and p.ret.cond is True):
            continue
        n_true += 1
        facts = list(p.state.facts)
        at = N - ONE if ("raw-none",) in facts else RAW
        want_bound = c_not(mk_cmp("<", at - (P - ONE), ZERO))
        offs = [mk_fn("int", P - ONE), mk_fn("int", (P - ONE) / C(2)), ZERO]
        want_present = {("present", name, at - o) for o in offs}
        got_present = {c for c in facts if isinstance(c, tuple) and c[0] == "present"}
        cmps = [c for c in facts if isinstance(c, tuple) and c[0] == "cmp" and P.atoms() <= (poly.all_atoms(c[2]) | c[2].atoms())]
        ok_bound = cmps == [want_bound]
        ok_present = got_present == want_present
        if ok_bound and ok_present:
            res.ok(RULE, {"helper": "reading_period", "true iff": f"{show_cond(want_bound)} and readings present at offsets period-1, (period-1)/2, 0 from {at!r}"}, nontrivial=f"reading_period:{at!r}")
        else:
            why = []
            if not ok_bound:
                why.append(f"look-back bound is [{'; '.join(show_cond(c) for c in cmps)}], must be exactly [{show_cond(want_bound)}] (window of `period` inputs ending at the index)")
            if not ok_present:
                why.append(f"presence sampled at {sorted(repr(c[2]) for c in got_present)}, must be at {sorted(repr(c[2]) for c in want_present)}")
            res.fail(RULE, finding(prop, RULE, f, p.node or f.node, "reading_period deviates from its contract: " + "; ".join(why), construct="reading_period: " + "; ".join(why)[:150]))
    if n_true == 0:
        res.fail(RULE, finding(prop, RULE, f, f.node, "reading_period never returns True", construct="reading_period: no True path"))


def check_candles_sum(prop: str, res: Result, repo: Repo):
    """candles_sum(candles, name, L, at): sum of the non-None readings at positions [at+1-L, at]"""
    f = repo.func("hexital.utils.candles", "candles_sum")
    fa = analyse_function(repo, f)
    if fa.error:
        res.errors.append(f"{f.where}: {fa.error}")
        return
    L = A("cfg", "length")
    ok_any = False
    for s in fa.sites("slice"):
        lo, hi = s.data["lo"], s.data["hi"]
        if lo is None or hi is None:
            continue
        span = hi - lo
        # length clipped to the list size is allowed (dead under the callers' look-back guard)
        sa = poly._single_atom(span)
        span_ok = span == L or (sa is not None and sa[0] == "ite" and {sa[2], sa[3]} == {L, N}) or (sa is not None and sa[0] == "fn" and sa[1] == "min" and set(sa[2:]) == {L, N})
        if hi == IDX + ONE and span_ok:
            ok_any = True
            res.ok(RULE, {"helper": "candles_sum", "window": f"candles[{lo!r} : {hi!r}] = the `length` candles ending at the index"}, nontrivial="candles_sum:window")
        else:
            res.fail(RULE, finding(prop, RULE, f, s.node, f"candles_sum sums candles[{lo!r}:{hi!r}]; the contract is the `length` candles ending at (and including) the index", construct=f"candles_sum window [{lo!r}:{hi!r}]"[:150]))
    if not ok_any and not res.findings:
        res.fail(RULE, finding(prop, RULE, f, f.node, "candles_sum no longer sums a slice of the candle list", construct="candles_sum: slice"))
    rets = [p.ret for p in fa.paths if isinstance(p.ret, Num)]
    good = False
    for r in rets:
        for a in poly.all_atoms(r.f) | r.f.atoms():
            if a[0] == "sum":
                body = a[3]
                b = poly._single_atom(body)
                if b is not None and b[0] == "ite" and isinstance(b[1], tuple) and b[1][0] == "present" and b[3].is_zero():
                    good = True
    if good:
        res.ok(RULE, {"helper": "candles_sum", "value": "sum over the window of the readings that are not None"}, nontrivial="candles_sum:value")
    else:
        res.fail(RULE, finding(prop, RULE, f, f.node, "candles_sum must add up exactly the readings of the window that are not None", construct="candles_sum: value"))


def check_wrappers(prop: str, res: Result, repo: Repo):
    """Indicator.reading / reading_period / candles_sum / prev_reading forward `index if index is not None else _active_index`
    and `name if name else self.name`"""
    for nm in ("reading", "reading_period", "candles_sum"):
        m = repo.method("hexital.core.indicator", "Indicator", nm)
        exprs = [n for n in ast.walk(m.node) if isinstance(n, ast.IfExp)]
        idx_ok = any(canon_ifexp(e) == ("index is not None", "index", "self._active_index") for e in exprs)
        name_ok = any(canon_ifexp(e) == ("name", "name", "self.name") for e in exprs)
        if idx_ok and name_ok:
            res.ok(RULE, {"wrapper": f"Indicator.{nm}", "forwards": "index if index is not None else self._active_index; name if name else self.name"}, nontrivial=f"wrapper:{nm}")
        else:
            res.fail(RULE, finding(prop, RULE, m, m.node, f"Indicator.{nm} must forward `index if index is not None else self._active_index` (index 0 is a valid position) and `name if name else self.name`", construct=f"Indicator.{nm}: " + "; ".join(ast.unparse(e) for e in exprs)[:140]))
    pe = repo.method("hexital.core.indicator", "Indicator", "prev_exists")
    if "self.prev_reading(" in ast.unparse(pe.node) and "is not None" in ast.unparse(pe.node):
        res.ok(RULE, {"wrapper": "Indicator.prev_exists", "is": "prev_reading(name) is not None"})
    else:
        res.fail(RULE, finding(prop, RULE, pe, pe.node, "prev_exists must be `prev_reading(name) is not None`", construct="prev_exists"))
    pr = repo.method("hexital.core.indicator", "Indicator", "prev_reading")
    zero_guard = False
    for n in ast.walk(pr.node):
        if isinstance(n, ast.If) and any(isinstance(x, ast.Return) and (x.value is None or (isinstance(x.value, ast.Constant) and x.value.value is None)) for x in n.body):
            for c in ast.walk(n.test):
                if isinstance(c, ast.Compare) and len(c.ops) == 1 and isinstance(c.ops[0], ast.Eq) and {ast.unparse(c.left), ast.unparse(c.comparators[0])} == {"self._active_index", "0"}:
                    zero_guard = True
    rd = repo.method("hexital.core.indicator", "Indicator", "reading")
    offs = [ast.unparse(arg_of(c, rd, 1)).replace(" ", "") for c in calls_in(pr.node) if call_target(c) == "self.reading" and arg_of(c, rd, 1) is not None]
    if zero_guard and offs and all(o in ("self._active_index-1", "-1+self._active_index") for o in offs):
        res.ok(RULE, {"wrapper": "Indicator.prev_reading", "is": "None at index 0, else the reading at _active_index - 1"}, nontrivial="wrapper:prev_reading")
    else:
        res.fail(RULE, finding(prop, RULE, pr, pr.node, "prev_reading must return None at index 0 and read _active_index - 1 otherwise", construct="prev_reading: guard/offset"))


def check_set_reading(prop: str, res: Result, repo: Repo, skip_managed=False):
    sr = repo.method("hexital.core.indicator", "Managed", "set_reading")
    for p in ([] if skip_managed else stmt_paths(sr.node.body)):
        calls = path_calls(p)
        seq = []
        for c in calls:
            if call_name(c) == "_calculate_sub_indicators":
                a0 = arg_of(c, repo.method("hexital.core.indicator", "Indicator", "_calculate_sub_indicators"), 0)
                seq.append("subs:" + (ast.unparse(a0) if a0 is not None else "?"))
            elif call_name(c) == "_set_reading":
                seq.append("write")
        if seq == ["subs:True", "write", "subs:False"]:
            res.ok(RULE, {"helper": "Managed.set_reading", "order": "prior sub-indicators -> write the reading -> post sub-indicators (which read it)"}, nontrivial="set_reading:order")
        else:
            res.fail(RULE, finding(prop, RULE, sr, sr.node, "Managed.set_reading must run prior sub-indicators, then store the reading, then run the post sub-indicators that read it", construct="set_reading: " + " -> ".join(seq)))
    w = [c for c in calls_in(sr.node) if call_name(c) == "_set_reading"]
    sr_params = [a.arg for a in sr.node.args.args if a.arg != "self"]
    st0 = repo.method("hexital.core.indicator", "Indicator", "_set_reading")
    _ldefs = {}
    for n_ in ast.walk(sr.node):
        if isinstance(n_, ast.Assign) and len(n_.targets) == 1 and isinstance(n_.targets[0], ast.Name):
            _ldefs.setdefault(n_.targets[0].id, []).append(ast.unparse(n_.value))

    def _arg_txt(e):
        t = ast.unparse(e) if e is not None else "?"
        return _ldefs[t][0] if isinstance(e, ast.Name) and len(_ldefs.get(t, ())) == 1 and t not in sr_params else t

    if skip_managed:
        pass
    elif w and sr_params and [_arg_txt(arg_of(w[0], st0, k)) for k in (0, 1)] == [sr_params[0], "self._active_index"]:
        res.ok(RULE, {"helper": "Managed.set_reading", "writes": "at the managed cursor (_active_index)"})
    else:
        res.fail(RULE, finding(prop, RULE, sr, sr.node, "Managed.set_reading must store at self._active_index", construct="set_reading: target index"))
    st = repo.method("hexital.core.indicator", "Indicator", "_set_reading")
    from .structure import canon_if, canon_ifexp

    ps = [a.arg for a in st.node.args.args if a.arg != "self"]
    rd_p, ix_p = (ps + ["reading", "index"])[:2]
    defs = {}
    for n in ast.walk(st.node):
        if isinstance(n, ast.Assign) and len(n.targets) == 1 and isinstance(n.targets[0], ast.Name) and n.targets[0].id not in (rd_p, ix_p):
            defs.setdefault(n.targets[0].id, []).append(n.value)

    class _Res(ast.NodeTransformer):
        def visit_Name(self, node):
            if isinstance(node.ctx, ast.Load) and len(defs.get(node.id, ())) == 1:
                import copy as _c

                return self.visit(_c.deepcopy(defs[node.id][0]))
            return node

    def resolved(e):
        import copy as _c

        return ast.unparse(_Res().visit(_c.deepcopy(e)))

    ok_sr = False
    want_sub, want_top = f"self.candles[{ix_p}].sub_indicators", f"self.candles[{ix_p}].indicators"
    # the index may be defaulted in place (`index = index if index else self._active_index`, as pinned) or inside the subscript
    _inl = f"{ix_p} if {ix_p} else self._active_index"
    _norm_ix = lambda t: t.replace(f"self.candles[{_inl}]", f"self.candles[{ix_p}]")
    # (a) statement form: if self._sub_indicator: <sub store> else: <top store>
    for n in ast.walk(st.node):
        if isinstance(n, ast.If):
            tst, then, other = canon_if(n)
            if ast.unparse(tst) == "self._sub_indicator":
                def stores(stmts):
                    return [_norm_ix(resolved(t.value)) for x in stmts for s_ in ast.walk(x) if isinstance(s_, ast.Assign) for t in s_.targets if isinstance(t, ast.Subscript) and ast.unparse(t.slice) == "self.name" and ast.unparse(s_.value) == rd_p]
                ok_sr = ok_sr or (stores(then) == [want_sub] and stores(other) == [want_top])
    # (b) expression form: <sub dict> if self._sub_indicator else <top dict>, then one store into it
    for n in ast.walk(st.node):
        if isinstance(n, ast.Assign) and ast.unparse(n.value) == rd_p:
            for t in n.targets:
                if isinstance(t, ast.Subscript) and ast.unparse(t.slice) == "self.name":
                    import copy as _c

                    base = _Res().visit(_c.deepcopy(t.value))
                    if isinstance(base, ast.IfExp):
                        c, a, b = canon_ifexp(base)
                        ok_sr = ok_sr or (c == "self._sub_indicator" and _norm_ix(a) == want_sub and _norm_ix(b) == want_top)
    # (c) path form: on every path the one store under self.name goes to the dict the `_sub_indicator` test on that path selects
    #     (the dict may be held in a local first)
    if not ok_sr:
        from .structure import stmt_paths as _paths
        import copy as _c

        class _Sub1(ast.NodeTransformer):
            def __init__(self, env):
                self.env = env

            def visit_Name(self, node):
                return _c.deepcopy(self.env[node.id]) if isinstance(node.ctx, ast.Load) and node.id in self.env else node

        verdicts = []
        for path in _paths(st.node.body):
            if path and isinstance(path[-1], ast.Raise):
                continue
            env, pol, got = {}, None, []
            for item in path:
                if isinstance(item, tuple) and item[0] == "if":
                    t_, flipped = item[1].test, False
                    while isinstance(t_, ast.UnaryOp) and isinstance(t_.op, ast.Not):
                        t_, flipped = t_.operand, not flipped
                    if ast.unparse(t_) in ("self._sub_indicator", "bool(self._sub_indicator)"):
                        pol = item[2] != flipped
                elif isinstance(item, ast.Assign):
                    for t in item.targets:
                        if isinstance(t, ast.Subscript) and ast.unparse(t.slice) == "self.name" and ast.unparse(item.value) == rd_p:
                            got.append(_norm_ix(ast.unparse(_Sub1(env).visit(_c.deepcopy(t.value)))))
                        elif isinstance(t, ast.Name) and t.id not in (rd_p,):
                            env[t.id] = _Sub1(env).visit(_c.deepcopy(item.value))
            verdicts.append(pol is not None and got == [want_sub if pol else want_top])
        ok_sr = bool(verdicts) and all(verdicts)
    if ok_sr:
        res.ok(RULE, {"helper": "Indicator._set_reading", "writes": "helper readings to sub_indicators, top-level readings to indicators, keyed by self.name"}, nontrivial="_set_reading")
    else:
        res.fail(RULE, finding(prop, RULE, st, st.node, "_set_reading must store helper readings in candle.sub_indicators and top-level readings in candle.indicators under self.name", construct="_set_reading: targets"))


def sem_gate(prop: str, res: Result, repo: Repo, helpers, rule=RULE) -> bool:
    """the contract of each helper decided by evaluation on model inputs (helpersem).  True: decided for all of them (ok recorded /
    violation reported); False: at least one could not be evaluated -- the shape recogniser gets its turn"""
    from .helpersem import verdict

    def where(h):
        if h.startswith("Indicator."):
            return repo.method("hexital.core.indicator", "Indicator", h.split(".")[1])
        if h.startswith("Managed."):
            return repo.method("hexital.core.indicator", "Managed", h.split(".")[1])
        if h in ("valid_index", "absindex", "validate_index"):
            return repo.func("hexital.utils.indexing", h)
        return repo.func("hexital.utils.candles", h)

    vs = {h: verdict(repo, h) for h in helpers}
    decided = True
    for h, (s_, d_) in vs.items():
        if s_ == "mismatch":
            fi = where(h)
            res.fail(rule, finding(prop, rule, fi, fi.node, f"{h} deviates from its contract -- {d_}; the formulas are analysed against that contract, so their verdicts no longer describe what runs", construct=f"{h}: contract"))
        elif s_ == "ok":
            res.ok(rule, {"helper": h, "contract": d_}, nontrivial=f"sem:{h}")
        else:
            decided = False
    return decided


def check_all(prop: str, res: Result, repo: Repo):
    if not sem_gate(prop, res, repo, ("reading_by_candle", "reading_by_index", "reading_period")):
        check_reading_period(prop, res, repo)
    if not sem_gate(prop, res, repo, ("candles_sum",)):
        check_candles_sum(prop, res, repo)
    if not sem_gate(prop, res, repo, ("Indicator.reading", "Indicator.prev_reading", "Indicator.prev_exists", "Indicator.read_candle", "Indicator.reading_count", "Indicator.reading_period", "Indicator.candles_sum")):
        check_wrappers(prop, res, repo)
    check_set_reading(prop, res, repo, skip_managed=sem_gate(prop, res, repo, ("Managed.set_reading",)))
