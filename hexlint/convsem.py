"""Shape-level abstract interpretation of the input converters (Candle.from_dict / from_list / from_dicts / from_lists).

A converter is straight-line code over a container whose *shape* (which keys are present, how long the row is, where the datetime sits)
decides every branch; the prices themselves are never inspected.  So the converter is evaluated over inputs of a fixed shape whose
leaves are opaque symbols (Sym): containers, constants, key tests, isinstance on a leaf's declared kind are evaluated exactly, a
leaf's value is never looked at.  The result is the constructor call the converter ends in, with every slot either a symbol of the input,
a constant, or a Coerced(symbol) when a conversion function was applied on the way.

Anything outside the supported subset raises Undecided (the rule then reports ANALYSIS-ERROR, never a violation): a VIOLATION needs a
fully evaluated shape whose constructor slots differ from the expectation.  Nothing of /repo is imported or executed: the evaluator
walks the loaded syntax trees."""
from __future__ import annotations

import ast
import copy
from typing import Any, Dict, List, Optional


class Undecided(Exception):
    pass


class Raised(Exception):
    """the converter raises on this shape"""

    def __init__(self, what):
        super().__init__(what)
        self.what = what


class Sym:
    def __init__(self, name: str, kind: str):
        self.name, self.kind = name, kind

    def __repr__(self):
        return f"<{self.name}>"


class Coerced:
    def __init__(self, fn: str, arg):
        self.fn, self.arg = fn, arg

    def __repr__(self):
        return f"{self.fn}({self.arg!r})"


class Ctor:
    """a candle built by the constructor: slots by parameter name"""

    def __init__(self, slots: Dict[str, Any], cls: str = "Candle"):
        self.slots, self.cls = slots, cls

    def __repr__(self):
        return "Candle(" + ", ".join(f"{k}={v!r}" for k, v in self.slots.items()) + ")"


class TypeRef:
    def __init__(self, name):
        self.name = name

    def __repr__(self):
        return self.name


class ObjV:
    """an object with known attributes (anything else is undecided)"""

    def __init__(self, name: str, attrs: Dict[str, Any], cls: Optional[str] = None):
        self.name, self.attrs, self.cls = name, attrs, cls

    def __repr__(self):
        return f"<{self.name}>"


class Closure:
    def __init__(self, node, env, owner=None, interp=None):
        self.node, self.env, self.owner, self.interp = node, env, owner, interp


class BoundBuiltin:
    def __init__(self, recv, name):
        self.recv, self.name = recv, name


class _Return(Exception):
    def __init__(self, v):
        self.v = v


_COERCIONS = ("int", "float", "str", "bool", "round", "abs", "Decimal", "floor", "ceil", "trunc")
_TYPE_NAMES = ("datetime", "float", "int", "str", "dict", "list", "tuple", "bool", "Candle", "timedelta", "set", "object")
_MISSING = object()


class Interp:
    def __init__(self, repo, modname="hexital.core.candle", clsname="Candle"):
        self.repo = repo
        self.mi = repo.module(modname)
        self.clsname = clsname
        self.cls_node = next((n for n in self.mi.tree.body if isinstance(n, ast.ClassDef) and n.name == clsname), None) if clsname else None
        if clsname and self.cls_node is None:
            raise Undecided(f"class {clsname} not found in {modname}")
        init = next((n for n in self.cls_node.body if isinstance(n, ast.FunctionDef) and n.name == "__init__"), None) if self.cls_node is not None else None
        # (a dataclass has no written constructor: construction of such a class is undecided, everything else works)
        self.ctor_params = [a.arg for a in init.args.args[1:]] if init is not None else None
        self.steps = 0
        self.depth = 0
        self.mutated: List[str] = []  # names of input containers mutated in place
        self.inputs: Dict[int, str] = {}
        self.intercept: Dict[str, Any] = {}  # function name -> python callable(args, kwargs) standing for a repo function
        self.children: Dict[str, "Interp"] = {}

    def foreign(self, clsname: str):
        """the interpreter of another class of the package (shares budget-free state; looked up by class name)"""
        if clsname in self.children:
            return self.children[clsname]
        for mn, mi in self.repo.modules.items():
            if any(isinstance(n, ast.ClassDef) and n.name == clsname for n in mi.tree.body):
                try:
                    ch = Interp(self.repo, mn, clsname)
                except (Undecided, StopIteration):
                    return None
                ch.intercept = self.intercept
                ch.inputs = self.inputs
                ch.mutated = self.mutated
                self.children[clsname] = ch
                return ch
        return None

    # ---- helpers ------------------------------------------------------------------------------------------------------------
    def method(self, name, cls_node=None, depth=0):
        cls_node = cls_node if cls_node is not None else self.cls_node
        for n in (cls_node.body if cls_node is not None else ()):
            if isinstance(n, ast.FunctionDef) and n.name == name:
                return n
        # inherited: the base classes of the package, by name
        if cls_node is not None and depth < 4:
            for b in cls_node.bases:
                bn = ast.unparse(b).split(".")[-1]
                for mi_ in self.repo.modules.values():
                    for c in mi_.tree.body:
                        if isinstance(c, ast.ClassDef) and c.name == bn:
                            r = self.method(name, c, depth + 1)
                            if r is not None:
                                return r
        return None

    def module_func(self, name):
        for n in self.mi.tree.body:
            if isinstance(n, ast.FunctionDef) and n.name == name:
                return n
        return None

    def imported_func(self, name):
        """a function of another module of the package, imported by name: evaluated by an interpreter of that module"""
        for n in self.mi.tree.body:
            if isinstance(n, ast.ImportFrom) and n.module in self.repo.modules:
                for a in n.names:
                    if (a.asname or a.name) == name:
                        key = "module:" + n.module
                        ch = self.children.get(key)
                        if ch is None:
                            ch = Interp(self.repo, n.module, None)
                            ch.intercept, ch.inputs, ch.mutated = self.intercept, self.inputs, self.mutated
                            self.children[key] = ch
                        fn = ch.module_func(a.name)
                        if fn is not None:
                            return Closure(fn, {}, interp=ch)
                        return ch.imported_func(a.name)
        return None

    def module_const(self, name, mi=None, depth=0):
        mi = mi or self.mi
        for n in mi.tree.body:
            if isinstance(n, ast.ImportFrom) and depth < 3:
                for a in n.names:
                    if (a.asname or a.name) == name and n.module and n.module in self.repo.modules:
                        return self.module_const(a.name, self.repo.module(n.module), depth + 1)
        for n in mi.tree.body:
            tgt = None
            if isinstance(n, ast.Assign) and len(n.targets) == 1 and isinstance(n.targets[0], ast.Name):
                tgt, val = n.targets[0].id, n.value
            elif isinstance(n, ast.AnnAssign) and isinstance(n.target, ast.Name) and n.value is not None:
                tgt, val = n.target.id, n.value
            if tgt == name:
                return self.eval(val, {})
        return _MISSING

    def class_const(self, name):
        for n in (self.cls_node.body if self.cls_node is not None else ()):
            if isinstance(n, ast.Assign) and len(n.targets) == 1 and isinstance(n.targets[0], ast.Name) and n.targets[0].id == name:
                return self.eval(n.value, {})
            if isinstance(n, ast.AnnAssign) and isinstance(n.target, ast.Name) and n.target.id == name and n.value is not None:
                return self.eval(n.value, {})
        return _MISSING

    def tick(self):
        self.steps += 1
        if self.steps > 20000:
            raise Undecided("evaluation budget exhausted")

    def touch(self, obj):
        if id(obj) in self.inputs:
            self.mutated.append(self.inputs[id(obj)])

    # ---- truth --------------------------------------------------------------------------------------------------------------
    def truth(self, v) -> bool:
        if isinstance(v, (Sym, Coerced)):
            raise Undecided(f"truth value of the input leaf {v!r}")
        if isinstance(v, ObjV) and v.cls:
            # an object is falsy when its class says so (__bool__, else __len__ == 0)
            ch = self if v.cls == self.clsname else self.foreign(v.cls)
            for dunder in ("__bool__", "__len__"):
                m = ch.method(dunder) if ch is not None else None
                if m is not None:
                    r = ch.call_function(m, [], {}, bound_first=v)
                    if isinstance(r, (Sym, Coerced)):
                        raise Undecided(f"{dunder} of {v!r}")
                    return bool(r)
            return True
        if isinstance(v, (Ctor, TypeRef, Closure, BoundBuiltin, ObjV)):
            return True
        return bool(v)

    # ---- calls --------------------------------------------------------------------------------------------------------------
    def call_function(self, fn: ast.FunctionDef, args: list, kwargs: dict, env0: Optional[dict] = None, bound_first=_MISSING):
        self.depth += 1
        if self.depth > 8:
            raise Undecided("call depth")
        try:
            a = fn.args
            if a.vararg or a.kwarg or a.posonlyargs:
                raise Undecided(f"signature of {fn.name}")
            params = [p.arg for p in a.args]
            env = dict(env0 or {})
            pos = list(args)
            if bound_first is not _MISSING:
                pos = [bound_first] + pos
            if len(pos) > len(params):
                raise Raised(f"TypeError: too many arguments for {fn.name}")
            for p, v in zip(params, pos):
                env[p] = v
            rest = params[len(pos):]
            defaults = dict(zip(params[len(params) - len(a.defaults):], a.defaults))
            for p in rest:
                if p in kwargs:
                    env[p] = kwargs.pop(p)
                elif p in defaults:
                    env[p] = self.eval(defaults[p], {})
                else:
                    raise Raised(f"TypeError: missing argument {p} of {fn.name}")
            for k_, d_ in zip(a.kwonlyargs, a.kw_defaults):
                if k_.arg in kwargs:
                    env[k_.arg] = kwargs.pop(k_.arg)
                elif d_ is not None:
                    env[k_.arg] = self.eval(d_, {})
                else:
                    raise Raised(f"TypeError: missing argument {k_.arg}")
            if kwargs:
                raise Raised(f"TypeError: unexpected argument {sorted(kwargs)} for {fn.name}")
            try:
                self.block(fn.body, env)
            except _Return as r:
                return r.v
            return None
        finally:
            self.depth -= 1

    def construct(self, args, kwargs):
        if self.ctor_params is None:
            raise Undecided(f"construction of {self.clsname} (no written __init__)")
        slots = {}
        if len(args) > len(self.ctor_params):
            raise Raised("TypeError: too many constructor arguments")
        for p, v in zip(self.ctor_params, args):
            slots[p] = v
        for k, v in kwargs.items():
            if k in slots:
                raise Raised(f"TypeError: constructor slot {k} given twice")
            if k not in self.ctor_params:
                raise Raised(f"TypeError: constructor has no slot {k}")
            slots[k] = v
        return Ctor(slots, self.clsname)

    # ---- statements ---------------------------------------------------------------------------------------------------------
    def block(self, stmts, env):
        for st in stmts:
            self.stmt(st, env)

    def assign(self, tgt, v, env):
        if isinstance(tgt, ast.Name):
            env[tgt.id] = v
        elif isinstance(tgt, (ast.Tuple, ast.List)):
            if isinstance(v, (Sym, Coerced, Ctor)) or not hasattr(v, "__iter__") or isinstance(v, (str, dict)) and not isinstance(v, (list, tuple)):
                if isinstance(v, dict):
                    v = list(v)
                else:
                    raise Undecided(f"unpacking {v!r}")
            vals = list(v)
            star = [i for i, e in enumerate(tgt.elts) if isinstance(e, ast.Starred)]
            if not star:
                if len(vals) != len(tgt.elts):
                    raise Raised("ValueError: unpack")
                for e, x in zip(tgt.elts, vals):
                    self.assign(e, x, env)
            else:
                if len(star) > 1 or len(vals) < len(tgt.elts) - 1:
                    raise Raised("ValueError: unpack")
                i = star[0]
                after = len(tgt.elts) - i - 1
                for e, x in zip(tgt.elts[:i], vals[:i]):
                    self.assign(e, x, env)
                self.assign(tgt.elts[i].value, vals[i:len(vals) - after], env)
                for e, x in zip(tgt.elts[i + 1:], vals[len(vals) - after:]):
                    self.assign(e, x, env)
        elif isinstance(tgt, ast.Attribute):
            obj = self.eval(tgt.value, env)
            if isinstance(obj, ObjV):
                obj.attrs[tgt.attr] = v
            else:
                raise Undecided(f"attribute store on {obj!r}")
        elif isinstance(tgt, ast.Subscript):
            obj = self.eval(tgt.value, env)
            key = self.eval(tgt.slice, env) if not isinstance(tgt.slice, ast.Slice) else None
            if isinstance(obj, (list, dict)) and key is not None and not isinstance(key, (Sym, Coerced)):
                self.touch(obj)
                try:
                    obj[key] = v
                except (IndexError, TypeError) as e:
                    raise Raised(type(e).__name__)
            else:
                raise Undecided("subscript store")
        else:
            raise Undecided(f"assignment target {type(tgt).__name__}")

    def stmt(self, st, env):
        self.tick()
        if isinstance(st, ast.Expr):
            if isinstance(st.value, ast.Constant):
                return
            self.eval(st.value, env)
        elif isinstance(st, ast.Assign):
            v = self.eval(st.value, env)
            for t in st.targets:
                self.assign(t, v, env)
        elif isinstance(st, ast.AnnAssign):
            if st.value is not None:
                self.assign(st.target, self.eval(st.value, env), env)
        elif isinstance(st, ast.AugAssign):
            load = copy.deepcopy(st.target)
            for n_ in ast.walk(load):
                if hasattr(n_, "ctx"):
                    n_.ctx = ast.Load()
            self.assign(st.target, self.eval(ast.BinOp(left=load, op=st.op, right=st.value), env), env)
        elif isinstance(st, ast.Return):
            raise _Return(self.eval(st.value, env) if st.value is not None else None)
        elif isinstance(st, ast.If):
            self.block(st.body if self.truth(self.eval(st.test, env)) else st.orelse, env)
        elif isinstance(st, ast.For):
            it = self.iterate(self.eval(st.iter, env))
            broke = False
            for x in it:
                self.assign(st.target, x, env)
                try:
                    self.block(st.body, env)
                except _Break:
                    broke = True
                    break
                except _Continue:
                    continue
            if not broke:
                self.block(st.orelse, env)
        elif isinstance(st, ast.While):
            n_ = 0
            broke = False
            while self.truth(self.eval(st.test, env)):
                n_ += 1
                if n_ > 500:
                    raise Undecided("loop does not end within 500 iterations on the model input")
                try:
                    self.block(st.body, env)
                except _Break:
                    broke = True
                    break
                except _Continue:
                    continue
            if not broke:
                self.block(st.orelse, env)
        elif isinstance(st, ast.Break):
            raise _Break()
        elif isinstance(st, ast.Continue):
            raise _Continue()
        elif isinstance(st, ast.Pass):
            return
        elif isinstance(st, ast.FunctionDef):
            env[st.name] = Closure(st, env)
        elif isinstance(st, ast.Raise):
            raise Raised(ast.unparse(st.exc)[:60] if st.exc else "re-raise")
        elif isinstance(st, ast.Assert):
            if not self.truth(self.eval(st.test, env)):
                raise Raised("AssertionError")
        else:
            raise Undecided(f"statement {type(st).__name__}")

    # ---- expressions --------------------------------------------------------------------------------------------------------
    def iterate(self, v):
        if isinstance(v, (list, tuple)):
            return list(v)
        if isinstance(v, dict):
            return list(v)
        if isinstance(v, (set, frozenset)):
            return sorted(v, key=repr)
        if isinstance(v, str):
            return list(v)
        if isinstance(v, range):
            return list(v)
        raise Undecided(f"iteration over {v!r}")

    def comp(self, gens, env, emit):
        def rec(i, env):
            if i == len(gens):
                emit(env)
                return
            g = gens[i]
            for x in self.iterate(self.eval(g.iter, env)):
                e2 = dict(env)
                self.assign(g.target, x, e2)
                if all(self.truth(self.eval(c, e2)) for c in g.ifs):
                    rec(i + 1, e2)

        rec(0, env)

    def eval(self, e, env):
        self.tick()
        if isinstance(e, ast.Constant):
            return e.value
        if isinstance(e, ast.Name):
            if e.id in env:
                return env[e.id]
            if e.id == self.clsname:
                return TypeRef(self.clsname)
            if e.id in self.intercept:
                return BoundBuiltin(("intercept", e.id), "__call__")
            fn = self.module_func(e.id)
            if fn is not None:
                return Closure(fn, {})
            imp = self.imported_func(e.id)
            if imp is not None:
                return imp
            c = self.module_const(e.id)
            if c is not _MISSING:
                return c
            if e.id in _TYPE_NAMES:
                return TypeRef(e.id)
            if e.id[:1].isupper() and any(isinstance(n, ast.ClassDef) and n.name == e.id for mi_ in self.repo.modules.values() for n in mi_.tree.body):
                return TypeRef(e.id)
            if e.id in ("None", "True", "False"):
                return {"None": None, "True": True, "False": False}[e.id]
            return BoundBuiltin(None, e.id)
        if isinstance(e, ast.Tuple):
            return tuple(self.elts(e.elts, env))
        if isinstance(e, ast.List):
            return self.elts(e.elts, env)
        if isinstance(e, ast.Set):
            return set(self.hashable(x) for x in self.elts(e.elts, env))
        if isinstance(e, ast.Dict):
            out = {}
            for k, v in zip(e.keys, e.values):
                if k is None:
                    d = self.eval(v, env)
                    if not isinstance(d, dict):
                        raise Undecided("** of a non-dict")
                    out.update(d)
                else:
                    out[self.hashable(self.eval(k, env))] = self.eval(v, env)
            return out
        if isinstance(e, ast.IfExp):
            return self.eval(e.body if self.truth(self.eval(e.test, env)) else e.orelse, env)
        if isinstance(e, ast.BoolOp):
            v = None
            for x in e.values:
                v = self.eval(x, env)
                t = self.truth(v)
                if isinstance(e.op, ast.And) and not t or isinstance(e.op, ast.Or) and t:
                    return v
            return v
        if isinstance(e, ast.UnaryOp):
            v = self.eval(e.operand, env)
            if isinstance(e.op, ast.Not):
                return not self.truth(v)
            if isinstance(e.op, ast.USub) and isinstance(v, (int, float)) and not isinstance(v, bool):
                return -v
            raise Undecided("unary operator on an input leaf")
        if isinstance(e, ast.Compare):
            return self.compare(e, env)
        if isinstance(e, ast.Subscript):
            obj = self.eval(e.value, env)
            if isinstance(e.slice, ast.Slice):
                lo, hi, stp = (self.eval(x, env) if x is not None else None for x in (e.slice.lower, e.slice.upper, e.slice.step))
                if isinstance(obj, (list, tuple, str)) and all(x is None or isinstance(x, int) for x in (lo, hi, stp)):
                    return obj[lo:hi:stp]
                raise Undecided("slice")
            k = self.eval(e.slice, env)
            if isinstance(k, (Sym, Coerced)):
                raise Undecided("subscript by an input leaf")
            if isinstance(obj, (list, tuple, str)):
                if not isinstance(k, int):
                    raise Raised("TypeError: index")
                try:
                    return obj[k]
                except IndexError:
                    raise Raised("IndexError")
            if isinstance(obj, dict):
                try:
                    return obj[self.hashable(k)]
                except KeyError:
                    raise Raised(f"KeyError: {k!r}")
            raise Undecided(f"subscript of {obj!r}")
        if isinstance(e, ast.Attribute):
            obj = self.eval(e.value, env)
            return self.getattr(obj, e.attr)
        if isinstance(e, ast.Call):
            return self.call(e, env)
        if isinstance(e, ast.ListComp):
            out = []
            self.comp(e.generators, env, lambda en: out.append(self.eval(e.elt, en)))
            return out
        if isinstance(e, ast.GeneratorExp):
            out = []
            self.comp(e.generators, env, lambda en: out.append(self.eval(e.elt, en)))
            return tuple(out)  # consumed once by its only reader; the elements are effect-free look-ups
        if isinstance(e, ast.SetComp):
            out = set()
            self.comp(e.generators, env, lambda en: out.add(self.hashable(self.eval(e.elt, en))))
            return out
        if isinstance(e, ast.DictComp):
            out = {}

            def put(en):
                out[self.hashable(self.eval(e.key, en))] = self.eval(e.value, en)

            self.comp(e.generators, env, put)
            return out
        if isinstance(e, ast.Lambda):
            fn = ast.FunctionDef(name="<lambda>", args=e.args, body=[ast.Return(value=e.body)], decorator_list=[])
            return Closure(fn, env)
        if isinstance(e, ast.Starred):
            raise Undecided("starred expression")
        if isinstance(e, ast.JoinedStr):
            parts = []
            for v in e.values:
                if isinstance(v, ast.Constant):
                    parts.append(str(v.value))
                else:
                    x = self.eval(v.value, env)
                    if not isinstance(x, (str, int, float)) or v.format_spec is not None or v.conversion != -1:
                        raise Undecided("formatted input")
                    parts.append(str(x))
            return "".join(parts)
        if isinstance(e, ast.BinOp):
            l, r = self.eval(e.left, env), self.eval(e.right, env)
            if isinstance(e.op, ast.Add) and type(l) is type(r) and isinstance(l, (list, tuple, str)):
                return l + r
            if isinstance(e.op, ast.BitOr) and isinstance(l, dict) and isinstance(r, dict):
                return {**l, **r}
            if isinstance(l, (set, frozenset)) and isinstance(r, (set, frozenset)) and isinstance(e.op, (ast.BitOr, ast.BitAnd, ast.Sub)):
                return l | r if isinstance(e.op, ast.BitOr) else l & r if isinstance(e.op, ast.BitAnd) else l - r
            if all(isinstance(x, (int, float)) and not isinstance(x, bool) for x in (l, r)) and isinstance(e.op, (ast.Add, ast.Sub, ast.Mult)):
                return {ast.Add: l + r, ast.Sub: l - r, ast.Mult: l * r}[type(e.op)]
            if all(isinstance(x, (int, float)) and not isinstance(x, bool) for x in (l, r)) and isinstance(e.op, (ast.Div, ast.FloorDiv, ast.Mod)):
                if r == 0:
                    raise Raised("ZeroDivisionError")
                return l / r if isinstance(e.op, ast.Div) else l // r if isinstance(e.op, ast.FloorDiv) else l % r
            raise Undecided("arithmetic on an input leaf")
        raise Undecided(f"expression {type(e).__name__}")

    def hashable(self, k):
        if isinstance(k, (Sym, Coerced)):
            raise Undecided("input leaf used as a key")
        if isinstance(k, (list, dict, set)):
            raise Raised("TypeError: unhashable")
        return k

    def elts(self, elts, env):
        out = []
        for x in elts:
            if isinstance(x, ast.Starred):
                out.extend(self.iterate(self.eval(x.value, env)))
            else:
                out.append(self.eval(x, env))
        return out

    def compare(self, e, env):
        left = self.eval(e.left, env)
        for op, rn in zip(e.ops, e.comparators):
            right = self.eval(rn, env)
            if isinstance(op, (ast.Is, ast.IsNot)):
                r = left is right
                r = r if isinstance(op, ast.Is) else not r
            elif isinstance(op, (ast.In, ast.NotIn)):
                if isinstance(left, (Sym, Coerced)):
                    raise Undecided("membership of an input leaf")
                if isinstance(right, dict):
                    r = self.hashable(left) in right
                elif isinstance(right, (list, tuple, set, frozenset)):
                    if any(isinstance(x, (Sym, Coerced)) for x in right):
                        raise Undecided("membership among input leaves")
                    r = left in right
                elif isinstance(right, str) and isinstance(left, str):
                    r = left in right
                else:
                    raise Undecided("membership test")
                r = r if isinstance(op, ast.In) else not r
            elif isinstance(op, (ast.Eq, ast.NotEq)):
                if any(isinstance(x, (Sym, Coerced)) for x in (left, right)):
                    raise Undecided("comparison of an input leaf")
                if isinstance(left, TypeRef) and isinstance(right, TypeRef):
                    r = left.name == right.name
                else:
                    r = left == right
                r = r if isinstance(op, ast.Eq) else not r
            else:
                if all(isinstance(x, (int, float)) and not isinstance(x, bool) for x in (left, right)):
                    r = {ast.Lt: left < right, ast.LtE: left <= right, ast.Gt: left > right, ast.GtE: left >= right}[type(op)]
                else:
                    raise Undecided("ordering comparison of an input leaf")
            if not r:
                return False
            left = right
        return True

    def kind_of(self, v) -> str:
        if isinstance(v, Sym):
            return v.kind
        if isinstance(v, Coerced):
            return {"int": "int", "float": "float", "str": "str", "bool": "bool"}.get(v.fn, "float")
        if isinstance(v, Ctor):
            return v.cls
        if isinstance(v, ObjV):
            return v.cls or "object"
        if v is None:
            return "NoneType"
        return type(v).__name__

    def getattr(self, obj, attr):
        if isinstance(obj, TypeRef) and obj.name == self.clsname:
            m = self.method(attr)
            if m is not None:
                return Closure(m, {}, owner="cls")
            c = self.class_const(attr)
            if c is not _MISSING:
                return c
            raise Undecided(f"{self.clsname}.{attr}")
        if isinstance(obj, TypeRef) and attr in ("__name__", "__qualname__"):
            return obj.name
        if isinstance(obj, TypeRef):
            ch = self.foreign(obj.name)
            if ch is not None:
                m = ch.method(attr)
                if m is not None:
                    return Closure(m, {}, owner="cls", interp=ch)
                c = ch.class_const(attr)
                if c is not _MISSING:
                    return c
            raise Undecided(f"{obj.name}.{attr}")
        if isinstance(obj, ObjV):
            if attr in obj.attrs:
                return obj.attrs[attr]
            if obj.cls and obj.cls != self.clsname:
                ch = self.foreign(obj.cls)
                fm = ch.method(attr) if ch is not None else None
                if fm is not None:
                    decos = [ast.unparse(d) for d in fm.decorator_list]
                    if "property" in decos:
                        return ch.call_function(fm, [], {}, bound_first=obj)
                    return Closure(fm, {"__self__": obj}, owner="self", interp=ch)
                if ch is not None:
                    c = ch.class_const(attr)
                    if c is not _MISSING:
                        return c
            if attr == "__setattr__":
                def _set(a, k, o=obj):
                    if len(a) != 2 or not isinstance(a[0], str):
                        raise Undecided("__setattr__ with a computed name")
                    o.attrs[a[0]] = a[1]
                    return None

                return _set
            if attr == "__dict__":
                return obj.attrs
            m = self.method(attr) if obj.cls == self.clsname else None
            if m is None and obj.cls == self.clsname:
                c = self.class_const(attr)  # a class-level default the instance has not overwritten
                if c is not _MISSING:
                    return c
            if m is not None:
                decos = [ast.unparse(d) for d in m.decorator_list]
                if "property" in decos:
                    return self.call_function(m, [], {}, bound_first=obj)
                return Closure(m, {"__self__": obj}, owner="self")
            raise Undecided(f"attribute {attr} of {obj!r}")
        if isinstance(obj, (list, dict, str, tuple, set)):
            return BoundBuiltin(obj, attr)
        if isinstance(obj, BoundBuiltin) and obj.recv is None:
            return BoundBuiltin(None, f"{obj.name}.{attr}")
        raise Undecided(f"attribute {attr} of {obj!r}")

    def call(self, e: ast.Call, env):
        f = self.eval(e.func, env)
        args = self.elts(e.args, env)
        kwargs = {}
        for k in e.keywords:
            if k.arg is None:
                d = self.eval(k.value, env)
                if not isinstance(d, dict):
                    raise Undecided("** of a non-dict")
                for kk, vv in d.items():
                    if not isinstance(kk, str):
                        raise Raised("TypeError: keywords must be strings")
                    kwargs[kk] = vv
            else:
                kwargs[k.arg] = self.eval(k.value, env)
        return self.apply(f, args, kwargs)

    def apply(self, f, args, kwargs):
        if isinstance(f, TypeRef):
            if f.name == self.clsname:
                return self.construct(args, kwargs)
            if f.name not in ("datetime", "float", "int", "str", "dict", "list", "tuple", "bool", "set", "object", "timedelta"):
                ch = self.foreign(f.name)
                if ch is not None:
                    return ch.construct(args, kwargs)
            return self.builtin(None, f.name, args, kwargs)
        if isinstance(f, Closure) and f.interp is not None and f.interp is not self:
            f2 = Closure(f.node, f.env, f.owner, None)
            f.interp.depth = self.depth
            f.interp.steps = self.steps
            try:
                return f.interp.apply(f2, args, kwargs)
            finally:
                self.steps = f.interp.steps
        if isinstance(f, Closure):
            fn = f.node
            decos = [ast.unparse(d) for d in fn.decorator_list]
            if f.owner == "cls":
                if "classmethod" in decos:
                    return self.call_function(fn, args, dict(kwargs), f.env, bound_first=TypeRef(self.clsname))
                if "staticmethod" in decos:
                    return self.call_function(fn, args, dict(kwargs), f.env)
                raise Undecided(f"instance method {fn.name} called on the class")
            if f.owner == "self":
                return self.call_function(fn, args, dict(kwargs), {}, bound_first=f.env["__self__"])
            return self.call_function(fn, args, dict(kwargs), f.env)
        if isinstance(f, BoundBuiltin):
            return self.builtin(f.recv, f.name, args, kwargs)
        if callable(f) and not isinstance(f, (Sym, Coerced, Ctor, ObjV, TypeRef)):
            return f(args, kwargs)  # a stand-in handed in by the rule (method of a scenario object)
        raise Undecided(f"call of {f!r}")

    def builtin(self, recv, name, args, kwargs):
        if recv is None:
            if name in ("deepcopy", "copy.deepcopy") and len(args) == 1:
                return _deep(args[0])
            if name == "setattr" and len(args) == 3 and isinstance(args[0], ObjV) and isinstance(args[1], str):
                args[0].attrs[args[1]] = args[2]
                return None
            if name == "vars" and len(args) == 1 and isinstance(args[0], ObjV):
                return args[0].attrs
            if name == "isinstance" and len(args) == 2:
                ts = args[1] if isinstance(args[1], tuple) else (args[1],)
                if not all(isinstance(t, TypeRef) for t in ts):
                    raise Undecided("isinstance against a non-type")
                k = self.kind_of(args[0])
                names = {t.name for t in ts}
                if "object" in names:
                    return True
                if k == "bool" and "int" in names:
                    return True
                return k in names
            if name in ("list", "tuple") and len(args) <= 1 and not kwargs:
                vals = self.iterate(args[0]) if args else []
                return list(vals) if name == "list" else tuple(vals)
            if name == "dict":
                out = {}
                if args:
                    if isinstance(args[0], dict):
                        out.update(args[0])
                    else:
                        for kv in self.iterate(args[0]):
                            k, v = kv
                            out[self.hashable(k)] = v
                out.update(kwargs)
                return out
            if name in ("set", "frozenset") and len(args) <= 1:
                return set(self.hashable(x) for x in (self.iterate(args[0]) if args else []))
            if name == "len" and len(args) == 1:
                if isinstance(args[0], (list, tuple, dict, str, set)):
                    return len(args[0])
                raise Undecided("len of an input leaf")
            if name == "next" and 1 <= len(args) <= 2:
                vals = self.iterate(args[0])
                if vals:
                    return vals[0]
                if len(args) == 2:
                    return args[1]
                raise Raised("StopIteration")
            if name == "iter" and len(args) == 1:
                return tuple(self.iterate(args[0]))
            if name == "zip":
                its = [self.iterate(a) for a in args]
                return [tuple(t) for t in zip(*its)]
            if name == "enumerate":
                start = args[1] if len(args) > 1 else kwargs.get("start", 0)
                return [(i + start, x) for i, x in enumerate(self.iterate(args[0]))]
            if name == "reversed" and len(args) == 1:
                return list(reversed(self.iterate(args[0])))
            if name == "sorted" and len(args) == 1 and set(kwargs) <= {"reverse"}:
                vals_ = self.iterate(args[0])
                if all(isinstance(x, (int, float)) and not isinstance(x, bool) for x in vals_) and isinstance(kwargs.get("reverse", False), bool):
                    return sorted(vals_, reverse=kwargs.get("reverse", False))
                raise Undecided("sorted over non-numbers")
            if name == "range" and all(isinstance(a, int) for a in args):
                return list(range(*args))
            if name == "map" and len(args) >= 2:
                its = [self.iterate(a) for a in args[1:]]
                return [self.apply(args[0], list(t), {}) for t in zip(*its)]
            if name == "filter" and len(args) == 2:
                return [x for x in self.iterate(args[1]) if self.truth(self.apply(args[0], [x], {}) if args[0] is not None else x)]
            if name in ("field", "dataclasses.field") and not args:
                # a dataclass field read off the class: its default
                if "default" in kwargs:
                    return kwargs["default"]
                if "default_factory" in kwargs:
                    return self.apply(kwargs["default_factory"], [], {})
                raise Undecided("dataclass field without a default")
            if name == "id" and len(args) == 1:
                return id(args[0])
            if name == "type" and len(args) == 1:
                return TypeRef(self.kind_of(args[0]))
            if name == "bool" and len(args) == 1 and not isinstance(args[0], (Sym, Coerced)):
                return self.truth(args[0])
            if name in ("takewhile", "itertools.takewhile", "dropwhile", "itertools.dropwhile") and len(args) == 2:
                vals, out_, dropping = self.iterate(args[1]), [], True
                for x in vals:
                    t = self.truth(self.apply(args[0], [x], {}))
                    if name.endswith("takewhile"):
                        if not t:
                            break
                        out_.append(x)
                    else:
                        if dropping and t:
                            continue
                        dropping = False
                        out_.append(x)
                return out_
            if name in ("chain", "itertools.chain"):
                out_ = []
                for a_ in args:
                    out_.extend(self.iterate(a_))
                return out_
            if name in ("islice", "itertools.islice") and 2 <= len(args) <= 4 and all(isinstance(a_, int) or a_ is None for a_ in args[1:]):
                import itertools as _it

                return list(_it.islice(self.iterate(args[0]), *args[1:]))
            if name == "sum" and 1 <= len(args) <= 2:
                vals = self.iterate(args[0])
                if not all(isinstance(x, (int, float)) for x in vals):
                    raise Undecided("sum over input leaves") if any(isinstance(x, (Sym, Coerced)) for x in vals) else Raised("TypeError")
                return sum(vals, args[1] if len(args) == 2 else 0)
            if name in ("min", "max") and args and all(isinstance(x, (int, float)) for x in (self.iterate(args[0]) if len(args) == 1 and not isinstance(args[0], (int, float)) else args)):
                vals = self.iterate(args[0]) if len(args) == 1 and not isinstance(args[0], (int, float)) else list(args)
                if not vals:
                    if "default" in kwargs:
                        return kwargs["default"]
                    raise Raised("ValueError")
                return (min if name == "min" else max)(vals)
            if name == "any" and len(args) == 1:
                return any(self.truth(x) for x in self.iterate(args[0]))
            if name == "all" and len(args) == 1:
                return all(self.truth(x) for x in self.iterate(args[0]))
            if name == "getattr" and len(args) in (2, 3) and isinstance(args[1], str):
                try:
                    return self.getattr(args[0], args[1])
                except Undecided as ex:
                    if len(args) == 3 and isinstance(args[0], (dict, list)):
                        return args[2]
                    if len(args) == 3 and isinstance(args[0], ObjV) and str(ex).startswith("attribute "):
                        return args[2]  # neither stored on the object nor defined by its class
                    raise
            if name in _COERCIONS and args:
                if isinstance(args[0], (Sym, Coerced)):
                    return Coerced(name, args[0])
                if name in ("int", "float", "str", "bool", "abs") and isinstance(args[0], (int, float, str, bool)):
                    try:
                        return {"int": int, "float": float, "str": str, "bool": bool, "abs": abs}[name](args[0])
                    except (ValueError, TypeError) as ex:
                        raise Raised(type(ex).__name__)
                raise Undecided(f"{name}() of {args[0]!r}")
            if name in ("itemgetter", "operator.itemgetter") and args:
                keys = list(args)

                class _IG:
                    pass

                return BoundBuiltin(("itemgetter", keys), "__call__")
            raise Undecided(f"call of {name}")
        # methods of containers / strings
        if isinstance(recv, tuple) and recv and recv[0] == "intercept" and name == "__call__":
            return self.intercept[recv[1]](args, kwargs)
        if isinstance(recv, tuple) and recv and recv[0] == "itemgetter" and name == "__call__":
            keys = recv[1]
            obj = args[0]
            vals = []
            for k in keys:
                if isinstance(obj, dict):
                    if self.hashable(k) not in obj:
                        raise Raised(f"KeyError: {k!r}")
                    vals.append(obj[k])
                elif isinstance(obj, (list, tuple)):
                    try:
                        vals.append(obj[k])
                    except (IndexError, TypeError):
                        raise Raised("IndexError")
                else:
                    raise Undecided("itemgetter on an input leaf")
            return vals[0] if len(vals) == 1 else tuple(vals)
        if isinstance(recv, dict):
            if name == "get" and 1 <= len(args) <= 2 and not kwargs:
                return recv.get(self.hashable(args[0]), args[1] if len(args) == 2 else None)
            if name == "items" and not args:
                return [(k, v) for k, v in recv.items()]
            if name == "keys" and not args:
                return list(recv.keys())
            if name == "values" and not args:
                return list(recv.values())
            if name == "copy" and not args:
                return dict(recv)
            if name == "pop" and 1 <= len(args) <= 2:
                self.touch(recv)
                k = self.hashable(args[0])
                if k in recv:
                    return recv.pop(k)
                if len(args) == 2:
                    return args[1]
                raise Raised(f"KeyError: {k!r}")
            if name == "setdefault" and len(args) == 2:
                k = self.hashable(args[0])
                if k not in recv:
                    self.touch(recv)
                return recv.setdefault(k, args[1])
            if name == "update":
                self.touch(recv)
                for a in args:
                    if not isinstance(a, dict):
                        raise Undecided("dict.update argument")
                    recv.update(a)
                recv.update(kwargs)
                return None
            if name == "clear":
                self.touch(recv)
                recv.clear()
                return None
            if name == "__contains__" and len(args) == 1:
                return self.hashable(args[0]) in recv
            raise Undecided(f"dict.{name}")
        if isinstance(recv, list):
            if name == "pop" and len(args) <= 1:
                i = args[0] if args else -1
                if not isinstance(i, int):
                    raise Undecided("list.pop index")
                self.touch(recv)
                try:
                    return recv.pop(i)
                except IndexError:
                    raise Raised("IndexError")
            if name == "copy" and not args:
                return list(recv)
            if name in ("append", "insert", "extend", "remove", "reverse", "clear"):
                self.touch(recv)
                if name == "append" and len(args) == 1:
                    recv.append(args[0])
                    return None
                if name == "extend" and len(args) == 1:
                    recv.extend(self.iterate(args[0]))
                    return None
                if name == "insert" and len(args) == 2 and isinstance(args[0], int):
                    recv.insert(args[0], args[1])
                    return None
                if name == "reverse":
                    recv.reverse()
                    return None
                if name == "clear":
                    recv.clear()
                    return None
                raise Undecided(f"list.{name}")
            if name == "index" or name == "count":
                raise Undecided(f"list.{name}")
            raise Undecided(f"list.{name}")
        if isinstance(recv, set):
            if name == "add" and len(args) == 1:
                recv.add(self.hashable(args[0]))
                return None
            if name in ("update", "union"):
                out_ = recv if name == "update" else set(recv)
                for a_ in args:
                    out_ |= {self.hashable(x) for x in self.iterate(a_)}
                return None if name == "update" else out_
            if name == "discard" and len(args) == 1:
                recv.discard(self.hashable(args[0]))
                return None
            if name == "copy" and not args:
                return set(recv)
            raise Undecided(f"set.{name}")
        if isinstance(recv, tuple):
            raise Undecided(f"tuple.{name}")
        if isinstance(recv, str):
            if name in ("lower", "upper", "capitalize", "title", "strip", "casefold", "swapcase") and not args:
                return getattr(recv, name)()
            if name in ("split", "rsplit", "partition", "rpartition", "removeprefix", "removesuffix", "replace", "find", "index", "count", "join") and all(isinstance(a, (str, int)) or (name == "join" and isinstance(a, (list, tuple)) and all(isinstance(x, str) for x in a)) for a in args) and not kwargs:
                try:
                    r = getattr(recv, name)(*args)
                except (ValueError, TypeError) as ex:
                    raise Raised(type(ex).__name__)
                return list(r) if isinstance(r, list) else r
            if name in ("startswith", "endswith") and len(args) == 1 and isinstance(args[0], (str, tuple)):
                return getattr(recv, name)(args[0])
            if name == "format" and all(isinstance(a, (str, int, float)) for a in args) and not kwargs:
                return recv.format(*args)
            raise Undecided(f"str.{name}")
        raise Undecided(f"method {name} of {recv!r}")


def _deep(v, memo=None):
    """deepcopy on scenario values: objects and containers are copied, opaque leaves and constants are shared (immutable)"""
    memo = {} if memo is None else memo
    if id(v) in memo:
        return memo[id(v)]
    if isinstance(v, ObjV):
        o = ObjV("copy of " + v.name, {}, v.cls)
        memo[id(v)] = o
        for k, x in v.attrs.items():
            o.attrs[k] = x if callable(x) and not isinstance(x, (ObjV,)) else _deep(x, memo)
        return o
    if isinstance(v, dict):
        d = {}
        memo[id(v)] = d
        for k, x in v.items():
            d[k] = _deep(x, memo)
        return d
    if isinstance(v, list):
        l = []
        memo[id(v)] = l
        l.extend(_deep(x, memo) for x in v)
        return l
    if isinstance(v, tuple):
        return tuple(_deep(x, memo) for x in v)
    if isinstance(v, set):
        return set(v)
    return v


class _Break(Exception):
    pass


class _Continue(Exception):
    pass


# ---- shapes -----------------------------------------------------------------------------------------------------------------------

SLOTS = ("open", "high", "low", "close", "volume", "timestamp")


def _row_syms(tag: str, kind="float"):
    return {s: Sym(f"{tag}.{s}", "datetime" if s == "timestamp" else kind) for s in SLOTS}


def dict_shapes():
    """(label, input dict, expected slot -> value | 'const')"""
    out = []
    s = _row_syms("row")
    out.append(("all six keys, lower case", {k: s[k] for k in SLOTS}, dict(s)))
    s = _row_syms("row")
    out.append(("all six keys, Capitalised", {k.capitalize(): s[k] for k in SLOTS}, dict(s)))
    s = _row_syms("row")
    out.append(("five value keys, no timestamp", {k: s[k] for k in SLOTS[:5]}, {**{k: s[k] for k in SLOTS[:5]}, "timestamp": None}))
    s = _row_syms("row", "int")
    out.append(("integer prices", {k: s[k] for k in SLOTS}, dict(s)))
    s = _row_syms("row")
    extra = {"indicators": {"X": Sym("row.indicators.X", "float")}, "sub_indicators": {"Y": Sym("row.sub.Y", "float")}, "clean_values": {"close": Sym("row.clean.close", "float")},
             "Indicators": {"X2": Sym("row.Indicators.X2", "float")}, "note": Sym("row.note", "str"), "tag": Sym("row.tag", "str"), "_tag": Sym("row._tag", "str")}
    for k in ("Adj Close", "adj close", "adj_close", "price", "Price", "last", "Last", "vwap", "time", "Time", "date", "Date", "datetime", "Datetime"):
        extra[k] = Sym(f"row[{k!r}]", "datetime" if k.lower() in ("time", "date", "datetime") else "float")
    out.append(("six keys plus keys that are not candle values (indicators, sub_indicators, clean_values, tag, 'Adj Close', 'price', 'date' ...)", {**{k: s[k] for k in SLOTS}, **extra}, dict(s)))
    s = _row_syms("row")
    out.append(("six Capitalised keys plus the same foreign keys", {**{k.capitalize(): s[k] for k in SLOTS}, **extra}, dict(s)))
    out.append(("empty dict", {}, {k: "const" for k in SLOTS}))
    return out


def list_shapes():
    out = []
    for kind in ("float", "int"):
        s = _row_syms("row", kind)
        vals = [s[k] for k in SLOTS[:5]]
        out.append((f"[timestamp, o, h, l, c, v] ({kind})", [s["timestamp"]] + vals, dict(s)))
        s = _row_syms("row", kind)
        vals = [s[k] for k in SLOTS[:5]]
        out.append((f"[o, h, l, c, v, timestamp] ({kind})", vals + [s["timestamp"]], dict(s)))
        s = _row_syms("row", kind)
        vals = [s[k] for k in SLOTS[:5]]
        out.append((f"[o, h, l, c, v] ({kind})", vals, {**{k: s[k] for k in SLOTS[:5]}, "timestamp": None}))
    return out


def slot_mismatch(ctor, want) -> Optional[str]:
    if not isinstance(ctor, Ctor):
        return f"the converter returns {ctor!r}, not a candle built by the constructor"
    for k in SLOTS:
        got = ctor.slots.get(k, None)
        w = want[k]
        if w == "const":
            if isinstance(got, (Sym, Coerced, list, dict)):
                return f"slot {k} = {got!r} for a row without that key"
            continue
        if got is not w:
            if isinstance(got, Coerced):
                return f"slot {k} receives {got!r}: the value is converted on the way instead of handed over as given"
            return f"slot {k} receives {got!r} instead of {w!r}"
    for k, v in ctor.slots.items():
        if k not in SLOTS and v is not None and v != {}:
            return f"constructor slot {k} receives {v!r}: data of the caller's row reaches a slot that is not a candle value (the candle's store becomes the caller's object)"
    return None


def run_converter(repo, name: str, shapes):
    """-> list of (label, status, detail): status in ok / mismatch / raised / undecided"""
    out = []
    for label, inp, want in shapes:
        it = Interp(repo)
        fn = it.method(name)
        if fn is None:
            out.append((label, "undecided", f"Candle.{name} not found"))
            continue
        it.inputs[id(inp)] = "the caller's row"
        snapshot = list(inp) if isinstance(inp, list) else dict(inp)
        decos = [ast.unparse(d) for d in fn.decorator_list]
        try:
            r = it.call_function(fn, [inp], {}, bound_first=TypeRef(it.clsname) if "classmethod" in decos else _MISSING)
        except Undecided as ex:
            out.append((label, "undecided", str(ex)))
            continue
        except Raised as ex:
            out.append((label, "raised", ex.what))
            continue
        except RecursionError:
            out.append((label, "undecided", "recursion"))
            continue
        bad = slot_mismatch(r, want)
        if bad is None and (it.mutated or (list(inp) if isinstance(inp, list) else dict(inp)) != snapshot):
            bad = "the caller's row is changed in place by the conversion"
        out.append((label, "mismatch" if bad else "ok", bad or repr(r)))
    return out


def run_batch(repo, name: str, single: str, shapes):
    """from_dicts / from_lists over a two-row batch: the result is the list of what `single` gives per row"""
    out = []
    picks = [shapes[0], shapes[1], shapes[2]]
    for (la, a, wa), (lb, b, wb) in ((picks[0], picks[1]), (picks[2], picks[0])):
        it = Interp(repo)
        fn = it.method(name)
        label = f"batch of two rows: {la} / {lb}"
        if fn is None:
            out.append((label, "undecided", f"Candle.{name} not found"))
            continue
        decos = [ast.unparse(d) for d in fn.decorator_list]
        batch = [a, b]
        it.inputs[id(batch)] = "the caller's batch"
        it.inputs[id(a)] = "a row of the caller's batch"
        it.inputs[id(b)] = "a row of the caller's batch"
        try:
            r = it.call_function(fn, [batch], {}, bound_first=TypeRef(it.clsname) if "classmethod" in decos else _MISSING)
        except Undecided as ex:
            out.append((label, "undecided", str(ex)))
            continue
        except Raised as ex:
            out.append((label, "raised", ex.what))
            continue
        if not isinstance(r, (list, tuple)) or len(r) != 2:
            out.append((label, "mismatch", f"a batch of two rows gives {r!r}"))
            continue
        bad = slot_mismatch(r[0], wa) or slot_mismatch(r[1], wb)
        if bad is None and it.mutated:
            bad = f"{it.mutated[0]} is changed in place by the conversion"
        out.append((label, "mismatch" if bad else "ok", bad or "one candle per row, each as the single-row converter builds it"))
    return out
