"""Findings, known-findings matching, evidence writing and the check driver."""
from __future__ import annotations

import ast
import hashlib
import json
import os
import sys
import time
import traceback
from dataclasses import dataclass, field
from typing import Callable, Dict, List, Optional

from .model import AnalysisError, Repo

VERIF = os.path.dirname(os.path.dirname(os.path.abspath(__file__)))
KNOWN_FILE = os.path.join(VERIF, "known_findings.json")


def norm_construct(node_or_text) -> str:
    if isinstance(node_or_text, ast.AST):
        try:
            txt = ast.unparse(node_or_text)
        except Exception:  # pragma: no cover
            txt = repr(node_or_text)
    else:
        txt = str(node_or_text)
    txt = " ".join(txt.split())
    return txt[:200]


@dataclass
class Finding:
    prop: str
    rule: str
    module: str
    function: str
    construct: str
    message: str
    line: int = 0

    def key(self):
        return (self.prop, self.rule, self.module, self.function, self.construct)

    def text(self) -> str:
        return f"{self.module}:{self.line} {self.rule} {self.function}: `{self.construct}` -- {self.message}"


@dataclass
class Result:
    prop: str
    tier: str
    findings: List[Finding] = field(default_factory=list)
    obligations: int = 0
    discharged: int = 0
    samples: List[dict] = field(default_factory=list)
    notes: List[str] = field(default_factory=list)
    rules: Dict[str, dict] = field(default_factory=dict)  # rule -> {sites, floor, discharged, failed}
    universe: Dict[str, object] = field(default_factory=dict)
    assumptions: List[str] = field(default_factory=list)
    explanation: str = ""
    nontrivial: set = field(default_factory=set)
    errors: List[str] = field(default_factory=list)

    # -- bookkeeping used by rules
    def rule(self, name: str, floor: int = 0, what: str = ""):
        r = self.rules.setdefault(name, {"sites": 0, "floor": floor, "discharged": 0, "failed": 0, "what": what})
        if floor:
            r["floor"] = floor
        if what:
            r["what"] = what
        return r

    def ok(self, rule: str, sample: Optional[dict] = None, nontrivial: Optional[str] = None):
        r = self.rule(rule)
        r["sites"] += 1
        r["discharged"] += 1
        self.obligations += 1
        self.discharged += 1
        if nontrivial:
            self.nontrivial.add((rule, nontrivial))
        if sample is not None and sum(1 for s in self.samples if s.get("rule") == rule) < 3:
            d = {"rule": rule, "status": "discharged"}
            d.update(sample)
            self.samples.append(d)

    def fail(self, rule: str, f: Finding):
        r = self.rule(rule)
        r["sites"] += 1
        r["failed"] += 1
        self.obligations += 1
        self.findings.append(f)
        self.nontrivial.add((rule, f.construct))

    def note(self, msg: str):
        if msg not in self.notes:
            self.notes.append(msg)


def finding(prop, rule, fi_or_mod, node, message, function=None, construct=None) -> Finding:
    """build a Finding from a FuncInfo / ModuleInfo plus an ast node"""
    from .model import FuncInfo, ModuleInfo, ClassInfo

    if isinstance(fi_or_mod, FuncInfo):
        module, fn = fi_or_mod.module.relpath, fi_or_mod.qualname
    elif isinstance(fi_or_mod, ClassInfo):
        module, fn = fi_or_mod.module.relpath, fi_or_mod.name
    elif isinstance(fi_or_mod, ModuleInfo):
        module, fn = fi_or_mod.relpath, "<module>"
    else:
        module, fn = str(fi_or_mod), "<module>"
    if function:
        fn = function
    return Finding(prop, rule, module, fn, norm_construct(construct if construct is not None else node), message, getattr(node, "lineno", 0) if node is not None else 0)


# ---------------------------------------------------------------------------
# known findings


def load_known() -> List[dict]:
    if not os.path.exists(KNOWN_FILE):
        return []
    with open(KNOWN_FILE) as fh:
        return json.load(fh).get("entries", [])


def match_known(f: Finding, known: List[dict]) -> Optional[dict]:
    for e in known:
        if e.get("status") != "known":
            continue
        if (
            e.get("property") == f.prop
            and e.get("rule") == f.rule
            and e.get("function") == f.function
            and e.get("construct") == f.construct
        ):
            return e
    return None


# ---------------------------------------------------------------------------
# driver

CHECKS: Dict[str, Callable[[Repo, str], Result]] = {}
STRUCTURAL_RULES = {"R-REBIND", "R-PURGE"}


def register(prop: str):
    def deco(fn):
        CHECKS[prop] = fn
        return fn

    return deco


def evidence_dir() -> str:
    # self-tests analyse scratch copies and must not clobber the evidence of the real tree
    return os.environ.get("HEXLINT_EVIDENCE_DIR") or os.path.join(VERIF, "evidence")


def write_evidence(res: Result, wall: float, violations: int, known_hits: List[str], seed: int, repo: Optional[Repo]):
    os.makedirs(evidence_dir(), exist_ok=True)
    path = os.path.join(evidence_dir(), f"{res.prop}.json")
    rules = {}
    for k, v in res.rules.items():
        rules[k] = dict(v)
    samples = res.samples[:40] or [{"note": "no obligation sampled"}]
    cov = {
        "explanation": res.explanation
        or "static analysis of /repo's current source (ast-based abstract interpretation and structural rules); no repository code is executed",
        "obligations": res.obligations,
        "discharged": res.discharged,
        "evaluations": max(res.obligations, 1),
        "distinct_nontrivial": max(len(res.nontrivial), 0),
        "rule": "one evaluation = one obligation instance (site x rule) extracted from the parsed source; non-trivial = needed at least one dominating fact, a value-number comparison or an effect/ordering derivation",
        "samples": samples,
        "checker_cmd": f"./check {res.prop} --tier {res.tier}",
        "trusted_base": ["CPython ast parser", "hexlint engine (/verif/hexlint)", "input assumptions listed under assumptions"],
        "rules": rules,
        "universe": res.universe,
        "notes": res.notes[:60],
        "known_findings_matched": known_hits,
        "unlisted_violations": [f.text() for f in res.findings if f.text() not in known_hits][:60],
        "repo_digest": repo.digest if repo else None,
        "exhaustive": True,
    }
    ev = {
        "property_id": res.prop,
        "tier": res.tier,
        "seed": seed,
        "level": "other",
        "coverage": cov,
        "assumptions": res.assumptions,
        "wall_s": round(wall, 3),
        "violations": violations,
    }
    with open(path, "w") as fh:
        json.dump(ev, fh, indent=1, default=str)
    return path


def write_replay(prop: str, f: Finding) -> str:
    d = os.path.join(evidence_dir(), "replay")
    os.makedirs(d, exist_ok=True)
    h = hashlib.sha256("|".join(f.key()).encode()).hexdigest()[:12]
    path = os.path.join(d, f"{prop}-{h}.json")
    with open(path, "w") as fh:
        json.dump(
            {"property": prop, "rule": f.rule, "module": f.module, "function": f.function, "construct": f.construct, "line": f.line, "message": f.message},
            fh,
            indent=1,
        )
    return path


def run_check(prop: str, tier: str = "quick", replay: Optional[str] = None) -> int:
    t0 = time.time()
    seed = int(os.environ.get("VERIF_SEED", "0") or 0)
    repo = None
    try:
        if prop not in CHECKS:
            print(f"ANALYSIS-ERROR property={prop} no such check")
            return 2
        repo = Repo()
        res = CHECKS[prop](repo, tier)
        res.tier = tier
        # floors: a rule that matched fewer sites than confirmed by hand is analysis-broken
        for name, r in res.rules.items():
            if r["sites"] < r["floor"]:
                res.errors.append(f"rule {name}: {r['sites']} sites < floor {r['floor']} ({r.get('what','')})")
        if tier == "thorough" and not os.environ.get("HEXLINT_NO_SELFTEST") and not os.environ.get("HEXLINT_EVIDENCE_DIR"):
            # checker sensitivity on scratch copies of the current tree: recorded as evidence; a miss on a tree whose
            # fragments are all present means the checker (not /repo) is broken
            from .selftest.runner import run_for_property

            st = run_for_property(prop)
            res.universe["selftest"] = {"entries": len(st), "ok": sum(1 for x in st if x["status"] == "ok"), "skipped": [x["id"] for x in st if x["status"] == "skipped"], "undecided": [x["id"] for x in st if x["status"] == "undecided"], "missed": [x["id"] for x in st if x["status"] == "missed"], "failed": [x["id"] for x in st if x["status"] == "FAILED"]}
            for x in st:
                if x["status"] == "ok":
                    res.ok("SELFTEST", {"edit": x["id"], "kind": x["kind"], "check exit": x["exit"]}, nontrivial=x["id"])
                elif x["status"] == "FAILED":
                    res.errors.append(f"self-test {x['id']} ({x['kind']}): check exit {x['exit']} contradicts the expectation")
        known = load_known()
        known_hits, unlisted = [], []
        seen = set()
        tainted = repo.tainted() if getattr(repo, "residual_classes", None) else {}
        for f in res.findings:
            if f.key() in seen:
                continue
            seen.add(f.key())
            why = tainted.get((f.module, f.function))
            if why is None and f.rule in STRUCTURAL_RULES and getattr(repo, "residual", None):
                # rules that recognise one particular shape of one function (and report its absence) cannot look through a helper
                # that survived inlining (a generator, a loop, recursion): the interprocedural rules can and are not affected
                why = repo.relies_on_residual_function(f.module, f.function)
            if why is not None and match_known(f, known) is None:
                # the function relies on a helper / helper class outside the pinned decomposition that could not be inlined: the rule
                # has not seen the whole computation, so its report is not a witness
                res.errors.append(f"{f.module}:{f.line} {f.rule} {f.function}: undecided, the function relies on the helper `{why}` ({repo.residual[why]}), which is not part of the pinned decomposition and could not be dissolved [{f.construct[:80]}]")
                continue
            e = match_known(f, known)
            if e is not None:
                known_hits.append(f.text())
                print(f"KNOWN-FINDING: property={prop} {f.text()}")
            else:
                unlisted.append(f)
        if replay:
            want = json.load(open(replay))
            unlisted = [f for f in unlisted if f.rule == want.get("rule") and f.function == want.get("function") and f.construct == want.get("construct")]
        wall = time.time() - t0
        write_evidence(res, wall, len(unlisted), known_hits, seed, repo)
        for n in res.notes[:30]:
            print(f"NOTE: {n}")
        tot = ", ".join(f"{k}:{v['discharged']}/{v['sites']}" for k, v in sorted(res.rules.items()))
        print(f"[{prop}] tier={tier} obligations={res.obligations} discharged={res.discharged} rules=({tot}) wall={wall:.2f}s")
        if res.errors:
            for e in res.errors:
                print(f"ANALYSIS-ERROR property={prop} {e}")
            if not unlisted:
                return 2
        if unlisted:
            for f in unlisted:
                path = write_replay(prop, f)
                print(f"VIOLATION property={prop} replay={path}")
                print(f"  {f.text()}")
            return 1
        return 0
    except AnalysisError as e:
        print(f"ANALYSIS-ERROR property={prop} {e}")
        return 2
    except Exception as e:  # noqa
        traceback.print_exc()
        print(f"ANALYSIS-ERROR property={prop} internal error: {type(e).__name__}: {e}")
        return 2
