"""Rules about the calculation drivers in core/indicator.py, core/candlestick_type.py, core/candle.py:
R-RESUME, driver loop shape (skip-if-present, R-ROUND, sweep start), R-ORDER(append), R-SPAN, R-STATE, R-MERGE."""
from __future__ import annotations

import ast
from typing import List, Optional

from .core import Result, finding, norm_construct
from .model import AnalysisError, ClassInfo, FuncInfo, Repo
from .facts import prove_ge0
from .structure import (arg_of, attr_stores, call_name, call_target, calls_in, is_subsequence, normal_exit, path_calls, stmt_paths,
                        subscript_stores)


def _const(node) -> Optional[object]:
    if isinstance(node, ast.Constant):
        return node.value
    return None


def _is_len_minus_1(node, seq_txt: Optional[str] = None) -> bool:
    if isinstance(node, ast.BinOp) and isinstance(node.op, ast.Sub) and _const(node.right) == 1:
        l = node.left
        return isinstance(l, ast.Call) and call_name(l) == "len" and (seq_txt is None or ast.unparse(l.args[0]) == seq_txt)
    return False


def _membership_marks(test: ast.AST) -> Optional[str]:
    """classify the 'candle is marked' predicate of a resume scan:
    'membership' (x in d) | 'tag' (== .tag / .tag truthiness) | None (something else, e.g. value/truthiness tests)"""
    kinds = set()
    for n in ast.walk(test):
        if isinstance(n, ast.Compare):
            if all(isinstance(o, (ast.In, ast.NotIn)) for o in n.ops):
                kinds.add("membership")
            elif any(".tag" in ast.unparse(x) for x in [n.left] + n.comparators):
                kinds.add("tag")
            else:
                kinds.add("other")
        elif isinstance(n, ast.Call):
            kinds.add("other")
        elif isinstance(n, ast.Attribute) and n.attr == "tag":
            kinds.add("tag")
    kinds.discard(None)
    if kinds == {"membership"}:
        return "membership"
    if kinds and kinds <= {"tag"}:
        return "tag"
    return None


def check_resume(prop: str, res: Result, fi: FuncInfo, seq_txt: str, want_mark: str, repo: Optional[Repo] = None):
    """resume scan, decided semantically (hexlint/resume.py): with the handled elements forming a prefix [0, m) of the n elements, every
    return case of the scan (delegations and predicate helpers inlined, the scan loop replaced by its closed form) must entail
    result == m (conversion: nothing twice, nothing skipped) resp. 0 <= result <= m (readings: nothing skipped); the 'handled' mark must be
    the key / tag, not the stored value.  Returns the ScanAnalysis (or None when the scan cannot be modelled -> analysis error)."""
    from .resume import Unknown, analyse_scan, case_text, feasible, M, N

    rule = "R-RESUME"
    fn = fi.node
    if seq_txt == "<param0>":
        seq_txt = next((a.arg for a in fn.args.args if a.arg not in ("self", "cls")), "candles")
    if repo is None:
        raise AnalysisError("check_resume needs the repository model")
    try:
        sa = analyse_scan(repo, fi, seq_txt)
    except Unknown as e:
        # an unmodelled shape is not evidence of a violation: fail closed as analysis error, never as a pass
        res.errors.append(f"{fi.where} {fi.qualname}: resume scan cannot be modelled ({e}); the rule cannot decide it")
        return None
    # conversion must not convert twice; a reading must not be computed twice either: the sweep's skip test only sees top-level
    # readings, so a helper series (stored in sub_indicators) that is re-entered is overwritten, with whatever history is left after trimming
    exact = True
    n_live = 0
    for c in sa.cases:
        facts = tuple(f for f in c.facts if f is not True)
        if any(f is False for f in facts) or not feasible(facts):
            continue
        n_live += 1
        txt = case_text(c)
        if c.result is None and "not a linear expression" in str(getattr(c, "note", "")) and any(k in str(c.note) for k in ("max(", "min(", "next(", "sum(", "len([", "for ")):
            res.errors.append(f"{fi.where} {rule} {fi.qualname}: resume scan case {txt}: the returned position is a reduction the scan model cannot express; the rule cannot decide it")
            continue
        if c.result is None:
            res.fail(rule, finding(prop, rule, fi, c.node, f"resume scan case {txt}: the resume position is not a position derived from the scan", construct=f"resume case {txt}"[:190]))
            continue
        base = [M, N - M]
        no_skip = prove_ge0(M - c.result, facts, base) and prove_ge0(c.result, facts, base)
        no_redo = prove_ge0(c.result - M, facts, base)
        if not no_skip:
            res.fail(rule, finding(prop, rule, fi, c.node, f"resume scan case {txt}: with m elements already handled the scan can resume after position m: unhandled elements are skipped for good", construct=f"resume case {txt}"[:190]))
        elif exact and not no_redo:
            res.fail(rule, finding(prop, rule, fi, c.node, f"resume scan case {txt}: the scan can resume before position m: an element that was already {'converted' if want_mark == 'tag' else 'calculated'} is {'converted' if want_mark == 'tag' else 'calculated'} again{'' if want_mark == 'tag' else ' (a helper series is overwritten from whatever history trimming left)'}", construct=f"resume case {txt}"[:190]))
        else:
            res.ok(rule, {"site": fi.where, "case": txt, "proved": "result == m" if no_redo else "0 <= result <= m"}, nontrivial=f"{fi.qualname}:{txt}"[:120])
    if n_live == 0:
        res.errors.append(f"{fi.where} {fi.qualname}: resume scan has no feasible return case")
    want = "membership" if want_mark == "membership" else "tag"
    for node, kind in sa.marks:
        if kind == want:
            res.ok(rule, {"site": f"{fi.where} {norm_construct(node)[:100]}", "mark": kind}, nontrivial=f"{fi.qualname}:mark")
        else:
            res.fail(rule, finding(prop, rule, fi, node, f"the 'already done' mark is a {kind} test; it must be a {want} test on the store the readings are written to (a value/truthiness test treats stored None/0 readings as not done; a test on the wrong store never finds the mark)"))
    if not sa.marks:
        res.errors.append(f"{fi.where} {fi.qualname}: resume scan never tests the 'already done' mark")
    return sa


def resume_rework_bounded(sa, want_exact=False):
    """for C07: every feasible case resumes at m or m-1 (constant re-work) and the scan runs newest-first"""
    from .poly import ONE as ONE_
    from .resume import feasible, M, N

    bad = []
    for c in sa.cases:
        facts = tuple(f for f in c.facts if f is not True)
        if any(f is False for f in facts) or not feasible(facts) or c.result is None:
            continue
        if not prove_ge0(c.result - M + ONE_, facts, [M, N - M]):
            bad.append(c)
    asc = [n for n, d in sa.loops if d == "ascending"]
    return bad, asc


def check_calculate_driver(prop: str, res: Result, repo: Repo, want=("R-SKIP", "R-ROUND", "R-SWEEP", "R-SUBS"), sweep_mode="exact"):
    ind = repo.indicator_base()
    calc = repo.method("hexital.core.indicator", "Indicator", "calculate")
    fn = calc.node
    loops = [n for n in fn.body if isinstance(n, ast.For)]
    if len(loops) != 1:
        res.fail("R-SWEEP", finding(prop, "R-SWEEP", calc, fn, "Indicator.calculate no longer has exactly one sweep loop", construct=f"{len(loops)} top-level for loops"))
        return
    loop = loops[0]
    it = loop.iter
    lv = loop.target.id if isinstance(loop.target, ast.Name) else "?"
    if "R-SWEEP" in want:
        ok = isinstance(it, ast.Call) and call_name(it) == "range" and len(it.args) == 2 and isinstance(it.args[0], ast.Call) and call_target(it.args[0]) == "self._find_calc_index" and ast.unparse(it.args[1]) == "len(self.candles)"
        if not ok and sweep_mode == "bounded":
            # for the work bound it is enough that the sweep does not restart from a constant position
            ok = isinstance(it, ast.Call) and call_name(it) == "range" and len(it.args) == 2 and not isinstance(it.args[0], ast.Constant) and "_find_calc_index" in ast.unparse(fn)
        if ok:
            res.ok("R-SWEEP", {"site": f"{calc.where} {norm_construct(it)}", "why": "sweep starts at the resume index and ends at the newest candle"}, nontrivial="calculate:range")
        else:
            res.fail("R-SWEEP", finding(prop, "R-SWEEP", calc, it, "the sweep of calculate() must run from self._find_calc_index() to len(self.candles)"))
    body_paths = [p for p in stmt_paths(loop.body)]
    n_calc = 0
    for p in body_paths:
        names = [call_name(c) for c in path_calls(p)]
        ended_continue = p and isinstance(p[-1], ast.Continue)
        if "_calculate_reading" in names:
            n_calc += 1
            if "R-ROUND" in want:
                if is_subsequence(["_calculate_reading", "round_values", "_set_reading"], names):
                    res.ok("R-ROUND", {"site": f"{calc.where} calculate loop", "order": "_calculate_reading -> round_values -> _set_reading"}, nontrivial="calculate:round")
                else:
                    res.fail("R-ROUND", finding(prop, "R-ROUND", calc, loop, "a path of the sweep stores a reading without round_values between _calculate_reading and _set_reading", construct="calculate: " + " -> ".join(names)))
            if "R-SKIP" in want:
                if "_set_active_index" in names and names.index("_set_active_index") < names.index("_calculate_reading"):
                    res.ok("R-SKIP", {"site": f"{calc.where}", "why": "_set_active_index(index) precedes _calculate_reading(index)"})
                else:
                    res.fail("R-SKIP", finding(prop, "R-SKIP", calc, loop, "the active index is not set before the reading is calculated", construct="calculate: " + " -> ".join(names)))
                # the path that calculates must be the one on which the present-test failed
                tests = [item for item in p if isinstance(item, tuple) and item[0] == "if"]
                aliases = {ast.unparse(x.targets[0]): ast.unparse(x.value) for x in p if isinstance(x, ast.Assign) and len(x.targets) == 1 and isinstance(x.targets[0], ast.Name)}
                pols = [(_present_polarity(item[1].test, lv, aliases), item[2]) for item in tests]
                pols = [(p_, taken) for p_, taken in pols if p_ is not None]
                guard_ok = any(p_ is (not taken) for p_, taken in pols)
                if guard_ok:
                    res.ok("R-SKIP", {"site": f"{calc.where}", "why": "readings are written once: _calculate_reading runs only when indicators.get(name) is None"}, nontrivial="calculate:skip")
                elif not pols:
                    # no present-test on the calculating path: redundant as long as the sweep starts exactly after the newest candle that
                    # holds an entry (R-SWEEP + R-RESUME, which demand that), because every swept candle is then without one
                    res.ok("R-SKIP", {"site": f"{calc.where}", "why": "no skip test; the sweep starts exactly at the first candle without an entry (R-RESUME is exact), so nothing swept holds a reading"}, nontrivial="calculate:skip")
                else:
                    res.fail("R-SKIP", finding(prop, "R-SKIP", calc, loop, "the sweep recalculates candles that already hold a reading (the skip test `indicators.get(name) is not None` is missing or altered)", construct="calculate: skip-if-present"))
    if n_calc == 0:
        res.fail("R-SKIP", finding(prop, "R-SKIP", calc, loop, "no path of the sweep calls _calculate_reading", construct="calculate: sweep body"))
    if "R-SUBS" in want:
        seq = []
        for st in fn.body:
            for c in calls_in(st) if not isinstance(st, ast.For) else []:
                if call_name(c) == "_calculate_sub_indicators":
                    callee = repo.method("hexital.core.indicator", "Indicator", "_calculate_sub_indicators")
                    a0 = arg_of(c, callee, 0)
                    seq.append(ast.unparse(a0) if a0 is not None else "?")
            if isinstance(st, ast.For):
                seq.append("LOOP")
        if seq == ["True", "LOOP", "False"]:
            res.ok("R-SUBS", {"site": calc.where, "order": "prior sub-indicators -> own sweep -> post sub-indicators"}, nontrivial="calculate:subs")
        else:
            res.fail("R-SUBS", finding(prop, "R-SUBS", calc, fn, "calculate() must run prior sub-indicators before and post sub-indicators after its own sweep", construct="calculate: " + ",".join(seq)))


def _present_polarity(test: ast.AST, lv: str, aliases=None) -> Optional[bool]:
    """True if `test` holds exactly when candle <lv> already has a (non-None) top-level reading of this indicator, False if it holds
    exactly when it has none, None if it is some other test.  Forms: `self.candles[lv].indicators.get(self.name) is [not] None`, also through a
    local alias of the candle."""
    aliases = aliases or {}
    flipped = False
    while isinstance(test, ast.UnaryOp) and isinstance(test.op, ast.Not):
        test, flipped = test.operand, not flipped
    if isinstance(test, ast.Compare) and len(test.ops) == 1 and isinstance(test.ops[0], (ast.IsNot, ast.Is)) and isinstance(test.comparators[0], ast.Constant) and test.comparators[0].value is None:
        l = test.left
        if isinstance(l, ast.Call) and call_name(l) == "get" and [ast.unparse(a) for a in l.args] == ["self.name"] and isinstance(l.func, ast.Attribute) and isinstance(l.func.value, ast.Attribute) and l.func.value.attr == "indicators":
            owner = l.func.value.value
            txt = ast.unparse(owner)
            txt = aliases.get(txt, txt)
            if txt == f"self.candles[{lv}]":
                pol = isinstance(test.ops[0], ast.IsNot)
                return pol != flipped
    return None


def _is_present_test(test: ast.AST, lv: str) -> bool:
    return _present_polarity(test, lv) is True


def check_append_order(prop: str, res: Result, repo: Repo, parts=("indicator", "hexital", "manager")):
    rule = "R-ORDER"
    if "indicator" in parts:
        _append_indicator(prop, res, repo)
    if "hexital" in parts:
        _append_hexital(prop, res, repo)
    if "manager" in parts:
        _append_manager(prop, res, repo)


def _append_indicator(prop, res, repo):
    rule = "R-ORDER"
    ap = repo.method("hexital.core.indicator", "Indicator", "append")
    for p in stmt_paths(ap.node.body):
        if not normal_exit(p):
            continue
        names = [call_target(c) for c in path_calls(p)]
        if is_subsequence(["self._candles.append", "self.calculate"], names):
            res.ok(rule, {"site": ap.where, "order": "self._candles.append -> self.calculate"}, nontrivial="Indicator.append")
        else:
            res.fail(rule, finding(prop, rule, ap, ap.node, "Indicator.append must hand the candles to its manager and then calculate", construct="append: " + " -> ".join(names)))


def _append_hexital(prop, res, repo):
    """Hexital.append, evaluated (convsem) on a strategy with two managers and two indicators for each input form (a list of three
    candles, one candle, a dict row): every manager is handed all of the given candles exactly once, then every indicator resumes
    through calculate() exactly once -- and through nothing else (only calculate() resumes from the first candle without a reading)"""
    from . import convsem as cs

    rule = "R-ORDER"
    hp = repo.method("hexital.core.hexital", "Hexital", "append")
    n_ok = 0
    for label, mk in (("a list of three candles", lambda: [cs.ObjV(f"candle {i}", {}, "Candle") for i in range(3)]), ("one candle", lambda: cs.ObjV("candle", {}, "Candle")), ("a dict row", lambda: {"open": cs.Sym("o", "float"), "close": cs.Sym("c", "float")}), ("a list of two dict rows", lambda: [{"open": cs.Sym("o1", "float")}, {"open": cs.Sym("o2", "float")}])):
        it = cs.Interp(repo, "hexital.core.hexital", "Hexital")
        try:
            default = it.module_const("DEFAULT_CANDLES")
        except cs.Undecided:
            default = cs._MISSING
        if default is cs._MISSING:
            res.errors.append(f"{hp.where} {rule}: DEFAULT_CANDLES cannot be resolved")
            return
        events = []
        arg = mk()
        elems = list(arg) if isinstance(arg, list) else [arg]
        mgrs = {}
        for key in (default, "T5", "H1"):  # (no indicator runs on H1 any more: its candles are still part of what get_candles() / candles('H1') answer)
            o = cs.ObjV(f"manager {key}", {"candles": [], "timeframe": None if key == default else key, "name": key, "timeframe_fill": False, "candles_lifespan": None, "candlestick_type": None}, "CandleManager")
            o.attrs["append"] = (lambda a, k, kk=key: events.append(("append", kk, list(a[0]) if a and isinstance(a[0], (list, tuple)) else [a[0]] if a else [k.get("candles")])))
            mgrs[key] = o
        inds = {}
        for n_ in ("A", "B"):
            o = cs.ObjV(f"indicator {n_}", {"name": n_, "timeframe": None if n_ == "A" else "T5", "candles": [], "_candles": mgrs[default if n_ == "A" else "T5"], "sub_indicators": {}, "managed_indicators": {}, "_initialised": True, "candle_manager": mgrs[default if n_ == "A" else "T5"], "_active_index": 0}, "Indicator")
            for meth in ("calculate", "calculate_index", "recalculate", "purge", "_calculate_reading", "_set_reading"):
                o.attrs[meth] = (lambda a, k, nn=n_, mm=meth: events.append((mm, nn)))
            inds[n_] = o
        selfo = cs.ObjV("self", {"_candles": mgrs, "_indicators": inds}, "Hexital")
        try:
            it.call_function(it.method("append"), [arg], {}, bound_first=selfo)
        except cs.Undecided as ex:
            res.errors.append(f"{hp.where} {rule} Hexital.append: cannot evaluate the fan-out for {label} ({ex}); the rule cannot decide it")
            continue
        except cs.Raised as ex:
            res.fail(rule, finding(prop, rule, hp, hp.node, f"Hexital.append raises {ex.what} when given {label}", construct=f"Hexital.append: {label}"))
            continue
        appends = [e for e in events if e[0] == "append"]
        others = [e for e in events if e[0] not in ("append", "calculate")]
        calcs = [e for e in events if e[0] == "calculate"]
        last_append = max((i for i, e in enumerate(events) if e[0] == "append"), default=-1)
        first_calc = min((i for i, e in enumerate(events) if e[0] != "append"), default=len(events))
        bad = None
        if sorted(e[1] for e in appends) != sorted(mgrs):
            bad = f"given {label}, the managers appended to are {[e[1] for e in appends]} (registered: {sorted(mgrs)}): a manager that is skipped (or fed twice) no longer sees the stream a standalone indicator sees"
        elif any(len(e[2]) != len(elems) or any(x is not y for x, y in zip(e[2], elems)) for e in appends):
            e = next(e for e in appends if len(e[2]) != len(elems) or any(x is not y for x, y in zip(e[2], elems)))
            bad = f"given {label}, manager {e[1]} is handed {e[2]!r} instead of all of the given candles, in order"
        elif others:
            bad = f"after the append an indicator is driven with {others[0][0]}() instead of calculate(): only calculate() resumes from the first candle without a reading, so candles that lost theirs (purge, a late helper) are never filled in again"
        elif sorted(e[1] for e in calcs) != sorted(inds):
            bad = f"given {label}, calculate() runs on {[e[1] for e in calcs]} (registered: {sorted(inds)})"
        elif last_append > first_calc:
            bad = f"given {label}, an indicator is calculated before every manager has the new candles ({[e[:2] for e in events]})"
        if bad:
            res.fail(rule, finding(prop, rule, hp, hp.node, bad, construct=f"Hexital.append: {label}"))
        else:
            n_ok += 1
    # ---- with the managers' own append evaluated too: a manager that collapses (has a timeframe) never adopts the caller's objects,
    # whatever key it is registered under (a strategy with its own timeframe keeps its primary manager under the default key)
    try:
        it = cs.Interp(repo, "hexital.core.hexital", "Hexital")
        default = it.module_const("DEFAULT_CANDLES")
        mi = cs.Interp(repo, "hexital.core.candle_manager", "CandleManager")
        mgrs = {}
        for key, tf in ((default, "T5"), ("T15", "T15")):
            o = cs.ObjV(f"manager registered as {key!r} with timeframe {tf}", {"_tasks": lambda a, k: None}, "CandleManager")
            mi.call_function(mi.method("__init__"), [], {"timeframe": tf}, bound_first=o)
            o.attrs["_tasks"] = lambda a, k: None
            mgrs[key] = o
        given = []
        for i in range(2):
            c_ = cs.ObjV(f"given candle {i}", {}, "Candle")
            c_.attrs["raw_copy"] = (lambda c__: (lambda a, k: cs.ObjV("raw copy", {"of": c__}, "Candle")))(c_)
            given.append(c_)
        selfo = cs.ObjV("self", {"_candles": mgrs, "_indicators": {}, "timeframe": "T5"}, "Hexital")
        it.call_function(it.method("append"), [list(given)], {}, bound_first=selfo)
        adopted = [k for k, m_ in mgrs.items() if any(x is g for x in m_.attrs.get("candles", []) for g in given)]
        if adopted:
            res.fail(rule, finding(prop, rule, hp, hp.node, f"a strategy with its own timeframe: the manager registered under {adopted[0]!r} has a timeframe (it collapses, i.e. rewrites and merges candles in place) but adopts the caller's Candle objects instead of raw copies; the other timeframe managers then copy already merged candles", construct="Hexital.append: collapsing manager adopts the given objects"))
        elif all(len(m_.attrs.get("candles", [])) == 2 for m_ in mgrs.values()):
            res.ok(rule, {"site": hp.where, "why": "managers with a timeframe hold raw copies of the given candles, whatever key they are registered under"}, nontrivial="Hexital.append:copies")
    except (cs.Undecided, cs.Raised, StopIteration, AttributeError) as ex:
        res.note(f"Hexital.append with evaluated managers not decided ({ex})")
    if n_ok:
        res.ok(rule, {"site": hp.where, "order": f"{n_ok} input forms: every manager.append(all given candles) once -> every indicator.calculate() once"}, nontrivial="Hexital.append")
        res.ok(rule, {"site": hp.where, "feeds": "the given candles, complete"}, nontrivial="Hexital.append:feed")


def _append_manager(prop, res, repo):
    """CandleManager.append: every normal path that does anything goes through self._tasks() last, and the manager tasks
    (collapse / convert / trim) are run through _tasks() only -- no fast path, no extra task call that changes their order"""
    rule = "R-ORDER"
    mp = repo.method("hexital.core.candle_manager", "CandleManager", "append")
    ok_all = True
    n = 0
    for p in stmt_paths(mp.node.body):
        if not normal_exit(p):
            continue
        calls = [call_target(c) for c in path_calls(p)]
        selfcalls = [c for c in calls if c.startswith("self.") and c not in ("self.name",)]
        if not selfcalls:
            continue  # e.g. an empty list: nothing appended
        n += 1
        others = [c for c in selfcalls if c not in ("self.candles.extend", "self._tasks")]
        if selfcalls[-1] == "self._tasks" and selfcalls.count("self._tasks") == 1 and "self.candles.extend" in selfcalls and not others:
            continue
        ok_all = False
        res.fail(rule, finding(prop, rule, mp, mp.node, "a path through CandleManager.append does not simply extend the list and then run self._tasks(): a fast path or an extra task call bypasses / re-orders collapse -> convert -> trim for some append sizes", construct="CandleManager.append path: " + " -> ".join(selfcalls)))
    if ok_all and n:
        res.ok(rule, {"site": mp.where, "paths": n, "order": "extend -> self._tasks() on every path that appends"}, nontrivial="CandleManager.append")
    elif n == 0:
        res.fail(rule, finding(prop, rule, mp, mp.node, "CandleManager.append no longer extends the list and runs the tasks", construct="CandleManager.append: no appending path"))
    # the accepted encodings are Candle, dict and list: materialising any other iterable here (list(candles) / tuple(candles)) accepts
    # one-shot iterators, which Hexital.append hands to several managers in turn (the first one drains them)
    p0 = next((p for p in mp.params if p != "self"), "candles")
    for c in calls_in(mp.node):
        if isinstance(c.func, ast.Name) and c.func.id in ("list", "tuple", "iter", "deque") and len(c.args) == 1 and isinstance(c.args[0], ast.Name) and c.args[0].id == p0:
            neg = [n for n in ast.walk(mp.node) if isinstance(n, ast.If) and any(c is x for b in n.body for x in ast.walk(b)) and ast.unparse(n.test).replace(" ", "") in (f"notisinstance({p0},list)",)]
            any_list_test = any(isinstance(n, ast.Call) and call_name(n) == "isinstance" and len(n.args) == 2 and ast.unparse(n.args[0]) == p0 and "list" in ast.unparse(n.args[1]) for n in ast.walk(mp.node))
            rebinds = any(isinstance(n, ast.Assign) and n.value is c and any(isinstance(t, ast.Name) and t.id == p0 for t in n.targets) for n in ast.walk(mp.node))
            if neg or not any_list_test or (rebinds and any("Iterable" in ast.unparse(n.test) or "not isinstance" in ast.unparse(n.test) for n in ast.walk(mp.node) if isinstance(n, ast.If) and any(c is x for b in n.body for x in ast.walk(b)))):
                res.fail(rule, finding(prop, rule, mp, c, "CandleManager.append materialises an arbitrary iterable: a generator / iterator given to Hexital.append is drained by the first manager and every other manager gets nothing, so members on other timeframes silently stop receiving candles"))
    # everything that was given is stored: no filtering between the parsed input and self.candles.extend(...)
    defs_ = {}
    for n in ast.walk(mp.node):
        if isinstance(n, ast.Assign):
            for t in n.targets:
                if isinstance(t, ast.Name):
                    defs_.setdefault(t.id, []).append(n.value)
    for c in calls_in(mp.node):
        if call_target(c) == "self.candles.extend" and c.args:
            seen_, todo_ = set(), [c.args[0]]
            while todo_:
                e = todo_.pop()
                for n in ast.walk(e):
                    if isinstance(n, (ast.ListComp, ast.GeneratorExp, ast.SetComp)) and any(g.ifs for g in n.generators) or (isinstance(n, ast.Call) and call_name(n) in ("filter", "takewhile", "dropwhile", "islice")) or (isinstance(n, ast.Subscript) and isinstance(n.slice, ast.Slice)):
                        res.fail(rule, finding(prop, rule, mp, n, "CandleManager.append stores only part of the given candles (a filter between the parsed input and self.candles.extend): candles leave a manager only through trim_candles, after collapsing and conversion have seen them"))
                        todo_ = []
                        break
                    if isinstance(n, ast.Name) and n.id in defs_ and n.id not in seen_:
                        seen_.add(n.id)
                        todo_.extend(defs_[n.id])
    # append rejects malformed input (TypeError) only: a check that depends on what the manager already holds makes the outcome depend
    # on how the stream was chunked (the constructor path does not run it)
    residual = getattr(repo, "residual", {}) or {}
    scope = [mp] + [f for f in repo.all_functions() if f.name in residual and any((isinstance(n, ast.Name) and n.id == f.name) or (isinstance(n, ast.Attribute) and n.attr == f.name) for n in ast.walk(mp.node))]
    for f in scope:
        for n in ast.walk(f.node):
            if isinstance(n, ast.Raise) and n.exc is not None:
                exc = n.exc.func if isinstance(n.exc, ast.Call) else n.exc
                nm = ast.unparse(exc).split(".")[-1]
                if nm != "TypeError":
                    res.fail(rule, finding(prop, rule, f, n, f"CandleManager.append{'' if f is mp else ' (through ' + f.qualname + ')'} raises {nm}: input is rejected depending on the candles already held / on its position in the chunk, so the same stream gives different results (or fails) for different append schedules; append only rejects malformed rows (TypeError)"))
    init = repo.method("hexital.core.candle_manager", "CandleManager", "__init__")
    ic = [call_target(c) for c in calls_in(init.node) if call_target(c).startswith("self.")]
    if ic == ["self._tasks"]:
        res.ok(rule, {"site": init.where, "why": "construction runs exactly the same tasks as append"})
    else:
        res.fail(rule, finding(prop, rule, init, init.node, "CandleManager.__init__ must run the manager tasks through self._tasks() only", construct="CandleManager.__init__: " + " -> ".join(ic)))


def check_tasks_order(prop: str, res: Result, repo: Repo, need=(("collapse", "convert"), ("convert", "trim"), ("collapse", "trim"))):
    """the precedence pairs among the manager tasks that the property actually depends on"""
    rule = "R-ORDER"
    t = repo.method("hexital.core.candle_manager", "CandleManager", "_tasks")
    full = {"collapse": "self.collapse_candles", "convert": "self.convert_candles", "trim": "self.trim_candles"}
    for p in stmt_paths(t.node.body):
        names = [call_target(c) for c in path_calls(p)]
        # a path that leaves at once because there are no candles has nothing to order (each task is a no-op on an empty list)
        conds = [(item[1].test, item[2]) for item in p if isinstance(item, tuple) and item and item[0] == "if"]
        if not names and any((ast.unparse(tst).replace(" ", "") in ("notself.candles", "len(self.candles)==0") and truth) or (ast.unparse(tst).replace(" ", "") == "self.candles" and not truth) for tst, truth in conds):
            res.ok(rule, {"site": t.where, "path": "no candles: nothing to do"})
            continue
        for a, b in need:
            fa, fb = full[a], full[b]
            if fa in names and fb in names and names.index(fa) < names.index(fb) and names.count(fa) == 1 and names.count(fb) == 1:
                res.ok(rule, {"site": t.where, "order": f"{a} before {b}"}, nontrivial=f"_tasks:{a}<{b}")
            else:
                res.fail(rule, finding(prop, rule, t, t.node, f"manager tasks: {a} must run (once) before {b}", construct="_tasks: " + " -> ".join(names)))
    tparams = [p for p in t.params if p != "self"]
    if tparams:
        res.fail(rule, finding(prop, rule, t, t.node, f"_tasks takes parameters {tparams}: the work it does must not depend on how it is called (batch and incremental runs must do the same)", construct=f"_tasks({', '.join(tparams)})"))


def check_merge(prop: str, res: Result, repo: Repo):
    """Candle.merge: recover_clean_values first, aggregation, then clean_values = {} and reset_candle last"""
    rule = "R-MERGE"
    m = repo.method("hexital.core.candle", "Candle", "merge")
    for p in stmt_paths(m.node.body):
        if not normal_exit(p):
            continue
        names = [call_target(c) for c in path_calls(p)]
        stores = [ast.unparse(t) for st in p if isinstance(st, ast.AST) for _, t in attr_stores(st)]
        first_store = next((i for i, st in enumerate(p) if isinstance(st, ast.AST) and any(t.attr in ("high", "low", "close", "open", "volume") for _, t in attr_stores(st))), None)
        rec_at = next((i for i, st in enumerate(p) if isinstance(st, ast.AST) and any(call_target(c) == "self.recover_clean_values" for c in calls_in(st))), None)
        if rec_at is not None and (first_store is None or rec_at < first_store):
            res.ok(rule, {"site": m.where, "why": "raw values restored before aggregating"}, nontrivial="merge:recover")
        else:
            res.fail(rule, finding(prop, rule, m, m.node, "merge must restore the raw (pre-conversion) values before aggregating", construct="merge: " + " -> ".join(names)))
        conditional_reset = any(isinstance(item, tuple) and item[0] == "if" for item in p)
        # the wipe (clean_values = {} and reset_candle()) may come before or after the aggregation (they touch disjoint attributes) but
        # after the raw values were restored, and nothing may save / convert / write readings afterwards
        reset_at = next((i for i, st in enumerate(p) if isinstance(st, ast.AST) and any(call_target(c) == "self.reset_candle" for c in calls_in(st))), None)
        clean_at = next((i for i, st in enumerate(p) if isinstance(st, ast.AST) and any(ast.unparse(t) == "self.clean_values" and isinstance(getattr(st, "value", None), ast.Dict) and not st.value.keys for _, t in attr_stores(st))), None)
        undone = any(call_target(c) in ("self.save_clean_values",) for c in path_calls(p)[(names.index("self.reset_candle") + 1 if "self.reset_candle" in names else 0):]) or any(isinstance(st, ast.AST) and any(t.attr in ("indicators", "sub_indicators", "_tag") for _, t in attr_stores(st)) for st in p[(reset_at or 0) + 1:])
        if reset_at is not None and clean_at is not None and rec_at is not None and rec_at < reset_at and rec_at < clean_at and not undone:
            res.ok(rule, {"site": m.where, "why": "merged bucket loses its readings, tag and saved values, so it is converted and calculated again"}, nontrivial="merge:reset")
        else:
            res.fail(rule, finding(prop, rule, m, m.node, "a path through merge does not end with clean_values = {} and reset_candle(): stale readings survive a merge", construct="merge: " + " -> ".join(names) + (" (conditional)" if conditional_reset else "")))
    rc = repo.method("hexital.core.candle", "Candle", "reset_candle")
    stores = {ast.unparse(t): ast.unparse(st.value) for st in rc.node.body if isinstance(st, ast.Assign) for t in st.targets}
    for k, v in (("self.indicators", "{}"), ("self.sub_indicators", "{}"), ("self._tag", "None")):
        if stores.get(k) == v:
            res.ok(rule, {"site": rc.where, "store": f"{k} = {v}"})
        else:
            res.fail(rule, finding(prop, rule, rc, rc.node, f"reset_candle must set {k} = {v}", construct=f"reset_candle: {k}"))


def check_state(prop: str, res: Result, repo: Repo, funcs: List[FuncInfo]):
    """R-STATE: no calc-scope method keeps state on the object (allow-list: _active_index, _initialised)"""
    rule = "R-STATE"
    allow = {"_active_index": "framework cursor", "_initialised": "one-shot helper construction flag (calculate)"}
    for fi in funcs:
        bad = False
        for st, t in attr_stores(fi.node):
            if isinstance(t.value, ast.Name) and t.value.id == "self":
                if t.attr in allow:
                    res.ok(rule, {"site": f"{fi.where} {norm_construct(st)}", "why": allow[t.attr]})
                else:
                    bad = True
                    res.fail(rule, finding(prop, rule, fi, st, f"calculation code stores state on the indicator (self.{t.attr}): readings then depend on the call history, not only on the candles"))
        for n in ast.walk(fi.node):
            if isinstance(n, (ast.Global, ast.Nonlocal)):
                bad = True
                res.fail(rule, finding(prop, rule, fi, n, "calculation code writes module/global state"))
        if not bad:
            res.ok(rule, {"site": f"{fi.where} {fi.qualname}", "why": "no attribute store on self, no global"})


def _own_range(fi, bounds) -> bool:
    """the two expressions are the bounds of the function's own recompute loop `for i in range(a, b)`"""
    want = [ast.unparse(b) for b in bounds]
    for n in fi.node.body:
        if isinstance(n, ast.For) and isinstance(n.iter, ast.Call) and call_name(n.iter) == "range" and [ast.unparse(a) for a in n.iter.args] == want:
            return True
    return False


def check_span(prop: str, res: Result, repo: Repo):
    """R-SPAN: every calculate_index / _calculate_sub_indicators range reachable from a calculation has length 1 or passes its caller's range through"""
    rule = "R-SPAN"
    for fi in repo.all_functions():
        if not fi.module.name.startswith("hexital.") or fi.module.name.startswith("hexital.analysis"):
            continue
        params = set(fi.params)
        for c in calls_in(fi.node):
            nm = call_name(c)
            if nm == "calculate_index":
                args = [ast.unparse(a) for a in c.args] + [f"{k.arg}={ast.unparse(k.value)}" for k in c.keywords]
                if len(c.args) + len(c.keywords) <= 1:
                    res.ok(rule, {"site": f"{fi.where} {norm_construct(c)}", "span": 1})
                elif len(c.args) == 2 and _span_one(c.args[0], c.args[1]):
                    res.ok(rule, {"site": f"{fi.where} {norm_construct(c)}", "span": 1})
                elif len(c.args) == 2 and all(isinstance(a, ast.Name) and a.id in params for a in c.args) and fi.name in ("_calculate_sub_indicators",):
                    res.ok(rule, {"site": f"{fi.where} {norm_construct(c)}", "span": "pass-through of the caller's range"}, nontrivial=f"{fi.qualname}:pass")
                else:
                    res.fail(rule, finding(prop, rule, fi, c, "a helper is recomputed over a range that is not a single index (work grows with the range / history)"))
            elif nm == "_calculate_sub_indicators":
                # the range is the callee's last two parameters, however they are passed (and whatever precedes them)
                callee = repo.method("hexital.core.indicator", "Indicator", "_calculate_sub_indicators")
                npar = len([p_ for p_ in callee.params if p_ not in ("self", "cls")])
                given = lambda k: k < len(c.args) or any(kw.arg == [p_ for p_ in callee.params if p_ not in ("self", "cls")][k] for kw in c.keywords)
                bounds = [arg_of(c, callee, npar - 2), arg_of(c, callee, npar - 1)] if npar >= 3 and given(npar - 2) and given(npar - 1) else None
                if bounds is not None and not (fi.name == "calculate_index" and _own_range(fi, bounds)) and not _span_one(bounds[0], bounds[1]):
                    bounds = _local_defs(fi, bounds)
                if bounds is None and not (npar >= 3 and (given(npar - 2) or given(npar - 1))):
                    res.ok(rule, {"site": f"{fi.where} {norm_construct(c)}", "span": "resume (calculate())"})
                elif bounds is not None and (_span_one(bounds[0], bounds[1]) or (fi.name == "calculate_index" and (all(isinstance(a, ast.Name) and a.id in params for a in bounds) or _own_range(fi, bounds)))):
                    res.ok(rule, {"site": f"{fi.where} {norm_construct(c)}", "span": "1 or caller's own range"}, nontrivial=f"{fi.qualname}:sub")
                elif fi.qualname == "Managed.set_reading" and _managed_span_one(repo):
                    res.ok(rule, {"site": f"{fi.where} {norm_construct(c)}", "span": "1 (Managed.set_reading evaluated on model inputs: helpers are recomputed over [target, target + 1) only)"}, nontrivial=f"{fi.qualname}:sub")
                else:
                    res.fail(rule, finding(prop, rule, fi, c, "sub-indicators are recomputed over a range that is not a single index"))
            elif nm in ("recalculate", "purge") and fi.name in ("calculate", "calculate_index", "_calculate_sub_indicators", "set_reading", "_calculate_reading", "_set_reading", "append") and fi.cls is not None and fi.cls.name != "Hexital":
                res.fail("R-HISTORY", finding(prop, "R-HISTORY", fi, c, f"{nm}() called from the calculation path: whole history is redone on every append"))
    # inside _calculate_sub_indicators the two arms: calculate_index(start,end) or calculate()
    sub = repo.method("hexital.core.indicator", "Indicator", "_calculate_sub_indicators")
    names = {call_name(c) for c in calls_in(sub.node)}
    if names & {"calculate", "calculate_index"} and not names & {"recalculate", "purge"}:
        res.ok(rule, {"site": sub.where, "why": "sub-indicators resume (calculate) or recompute the caller's range"})
    else:
        res.fail(rule, finding(prop, rule, sub, sub.node, "_calculate_sub_indicators must drive helpers with calculate() / calculate_index(range)", construct="_calculate_sub_indicators: " + ",".join(sorted(names))))


def _managed_span_one(repo) -> bool:
    from .helpersem import verdict

    return verdict(repo, "Managed.set_reading")[0] == "ok"


def _local_defs(fi, bounds):
    """bounds given as names that are each bound once, at the top level of the function, to an expression over names that are not
    re-bound afterwards: the defining expressions (so `a = i ; b = i + 1 ; f(a, b)` is the span `(i, i + 1)`)"""
    body = fi.node.body
    out = []
    for b in bounds:
        if not isinstance(b, ast.Name):
            out.append(b)
            continue
        stores = [n for n in ast.walk(fi.node) if isinstance(n, ast.Name) and n.id == b.id and isinstance(n.ctx, ast.Store)]
        defs = [(i, st) for i, st in enumerate(body) if isinstance(st, ast.Assign) and len(st.targets) == 1 and isinstance(st.targets[0], ast.Name) and st.targets[0].id == b.id]
        if len(stores) != 1 or len(defs) != 1 or b.id in fi.params:
            out.append(b)
            continue
        i, st = defs[0]
        free = {n.id for n in ast.walk(st.value) if isinstance(n, ast.Name)}
        later = any(isinstance(n, ast.Name) and n.id in free and isinstance(n.ctx, ast.Store) for later_st in body[i + 1 :] for n in ast.walk(later_st))
        out.append(b if later or any(isinstance(n, ast.Call) for n in ast.walk(st.value)) else st.value)
    return out


def _span_one(a: ast.AST, b: ast.AST) -> bool:
    return isinstance(b, ast.BinOp) and isinstance(b.op, ast.Add) and ast.unparse(b.left) == ast.unparse(a) and _const(b.right) == 1


def check_merge_callers(prop: str, res: Result, repo: Repo):
    """who-may-call: Candle.merge is reached only from CandleManager.collapse_candles"""
    rule = "R-CALLERS"
    bad = 0
    for fi in repo.all_functions():
        for c in calls_in(fi.node):
            if call_name(c) == "merge" and isinstance(c.func, ast.Attribute):
                if fi.cls is not None and fi.cls.name == "CandleManager" and fi.name == "collapse_candles":
                    res.ok(rule, {"site": f"{fi.where} {norm_construct(c)}", "caller": "collapse_candles"})
                else:
                    bad += 1
                    res.fail(rule, finding(prop, rule, fi, c, "Candle.merge is called outside collapse_candles: candles are aggregated on a path that does not go through the bucket walk"))


def check_round_by(prop: str, res: Result, repo: Repo):
    """both drivers round every reading to the indicator's own round_value"""
    rule = "R-ROUND"
    for drv in ("calculate", "calculate_index"):
        m = repo.method("hexital.core.indicator", "Indicator", drv)
        rv = [c for c in calls_in(m.node) if call_name(c) == "round_values"]
        good = rv and all(any(k.arg == "round_by" and ast.unparse(k.value) == "self.round_value" for k in c.keywords) or (len(c.args) == 2 and ast.unparse(c.args[1]) == "self.round_value") for c in rv)
        stores = [c for c in calls_in(m.node) if call_name(c) == "_set_reading"]
        defs = {}
        for n in ast.walk(m.node):
            if isinstance(n, ast.Assign) and len(n.targets) == 1 and isinstance(n.targets[0], ast.Name):
                defs.setdefault(n.targets[0].id, []).append(n.value)

        def rounded(e, depth=0) -> bool:
            """the stored value is a round_values(...) result on every arm (a conditional with an unrounded arm is not)"""
            if isinstance(e, ast.Call) and call_name(e) == "round_values":
                return True
            if isinstance(e, ast.IfExp):
                return rounded(e.body, depth) and rounded(e.orelse, depth)
            if isinstance(e, ast.Name) and depth < 4 and e.id in defs:
                return all(rounded(v, depth + 1) for v in defs[e.id])
            return False

        st0 = repo.method("hexital.core.indicator", "Indicator", "_set_reading")
        wrapped = all(arg_of(st, st0, 0) is not None and rounded(arg_of(st, st0, 0)) for st in stores) if stores else False
        if good and wrapped:
            res.ok(rule, {"site": m.where, "round_by": "self.round_value"}, nontrivial=f"{drv}:round_by")
        else:
            res.fail(rule, finding(prop, rule, m, m.node, f"{drv} must round every reading with round_values(..., round_by=self.round_value) before storing it", construct=f"{drv}: round_by=self.round_value"))
