"""Write-effect analysis: which parameters (incl. self) may have their reachable state mutated by a function.

Flow-sensitive over straight-line code (strong update of rebinding a name), union at branches/loops,
alias kinds SAME (may be the object / part of its object graph) and INNER (a fresh shallow container whose
*elements* alias the root).  Call effects are propagated to a fixed point over the resolved call graph.
"""
from __future__ import annotations

import ast
from typing import Dict, List, Optional, Set, Tuple

from .model import ClassInfo, FuncInfo, Repo
from .structure import BUILTIN_LIKE, CallGraph, call_name

MUTATORS = {"append", "extend", "insert", "pop", "remove", "clear", "update", "setdefault", "sort", "reverse", "popitem", "add", "discard", "__setattr__", "__setitem__", "__delitem__", "__delattr__"}
FRESH_DEEP = {"deepcopy"}
FRESH_SHALLOW = {"copy", "dict", "list", "set", "tuple", "sorted", "reversed", "frozenset"}
PURE_VALUE = {"str", "int", "float", "bool", "len", "isinstance", "round", "abs", "min", "max", "sum", "any", "all", "repr", "type", "callable", "range", "enumerate", "zip", "getattr", "hasattr", "id", "print", "super", "format", "timedelta", "datetime"}
SAME, INNER = "same", "inner"

Alias = Dict[str, Set[Tuple[str, str]]]  # local name -> {(root param, kind)}


class Effects:
    def __init__(self, repo: Repo, cg: Optional[CallGraph] = None):
        self.repo = repo
        self.cg = cg or CallGraph(repo)
        self.summary: Dict[str, Set[str]] = {k: set() for k in self.cg.funcs}
        self.sites: Dict[str, List[Tuple[str, ast.AST, str]]] = {k: [] for k in self.cg.funcs}
        self._fix()

    # ------------------------------------------------------------------
    def _fix(self):
        changed = True
        rounds = 0
        while changed and rounds < 12:
            changed = False
            rounds += 1
            for k, fi in self.cg.funcs.items():
                eff, sites = self._analyse(fi)
                if eff != self.summary[k]:
                    self.summary[k] = eff
                    changed = True
                self.sites[k] = sites

    def effect(self, fi: FuncInfo) -> Set[str]:
        return self.summary.get(self.cg.key(fi), set())

    def effect_sites(self, fi: FuncInfo):
        return self.sites.get(self.cg.key(fi), [])

    # ------------------------------------------------------------------
    def _analyse(self, fi: FuncInfo):
        params = fi.params
        env: Alias = {p: {(p, SAME)} for p in params}
        out: Set[str] = set()
        sites: List[Tuple[str, ast.AST, str]] = []

        def roots_of(expr, env) -> Set[Tuple[str, str]]:
            """aliases of the value of expr"""
            if isinstance(expr, ast.Name):
                return set(env.get(expr.id, set()))
            if isinstance(expr, ast.Attribute):
                base = roots_of(expr.value, env)
                return {(r, SAME) for r, _ in base}
            if isinstance(expr, ast.Subscript):
                base = roots_of(expr.value, env)
                return {(r, SAME) for r, _ in base}
            if isinstance(expr, ast.Starred):
                return roots_of(expr.value, env)
            if isinstance(expr, ast.IfExp):
                return roots_of(expr.body, env) | roots_of(expr.orelse, env)
            if isinstance(expr, ast.BoolOp):
                s = set()
                for v in expr.values:
                    s |= roots_of(v, env)
                return s
            if isinstance(expr, (ast.List, ast.Tuple, ast.Set)):
                s = set()
                for e in expr.elts:
                    s |= {(r, INNER) for r, _ in roots_of(e, env)}
                return s
            if isinstance(expr, ast.Dict):
                s = set()
                for e in expr.values:
                    s |= {(r, INNER) for r, _ in roots_of(e, env)}
                return s
            if isinstance(expr, (ast.ListComp, ast.SetComp, ast.GeneratorExp, ast.DictComp)):
                env2 = dict(env)
                for g in expr.generators:
                    bind(g.target, {(r, SAME) for r, _ in roots_of(g.iter, env2)}, env2, strong=True)
                elt = expr.value if isinstance(expr, ast.DictComp) else expr.elt
                return {(r, INNER) for r, _ in roots_of(elt, env2)}
            if isinstance(expr, ast.Call):
                nm = call_name(expr)
                args = list(expr.args) + [k.value for k in expr.keywords]
                if nm in FRESH_DEEP or nm in PURE_VALUE:
                    return set()
                if nm == "vars" and expr.args:
                    return {(r, SAME) for r, _ in roots_of(expr.args[0], env)}
                if nm in FRESH_SHALLOW and isinstance(expr.func, ast.Name):
                    s = set()
                    for a in args:
                        s |= {(r, INNER) for r, _ in roots_of(a, env)}
                    return s
                if isinstance(expr.func, ast.Attribute):
                    recv = roots_of(expr.func.value, env)
                    if nm in ("items", "values", "keys", "get", "pop", "popitem", "setdefault", "__getitem__"):
                        return {(r, SAME) for r, _ in recv}
                    if nm == "copy":
                        return {(r, INNER) for r, _ in recv}
                    s = {(r, SAME) for r, _ in recv}
                    for a in args:
                        s |= {(r, SAME) for r, _ in roots_of(a, env)}
                    # constructor-like / classmethod on a class name returns something fresh built from args
                    return s
                tgt = self.repo.resolve(fi.module, ast.unparse(expr.func)) if isinstance(expr.func, ast.Name) else None
                if isinstance(tgt, ClassInfo):
                    return set()
                s = set()
                for a in args:
                    s |= {(r, SAME) for r, _ in roots_of(a, env)}
                return s
            return set()

        def bind(target, aliases, env, strong):
            if isinstance(target, ast.Name):
                if strong:
                    env[target.id] = set(aliases)
                else:
                    env[target.id] = env.get(target.id, set()) | set(aliases)
            elif isinstance(target, (ast.Tuple, ast.List)):
                for e in target.elts:
                    bind(e, {(r, SAME) for r, _ in aliases}, env, strong)
            elif isinstance(target, ast.Starred):
                bind(target.value, aliases, env, strong)

        def mutate(expr_base, node, why, env, through_element=False):
            """a mutation of the object denoted by expr_base"""
            for r, kind in roots_of(expr_base, env):
                if kind == INNER and not through_element:
                    continue  # top-level mutation of a fresh shallow container
                if r not in out:
                    out.add(r)
                sites.append((r, node, why))

        def call_effects(c: ast.Call, env):
            nm = call_name(c)
            if isinstance(c.func, ast.Attribute):
                if nm in MUTATORS:
                    mutate(c.func.value, c, f".{nm}()", env)
                    return
            if nm in ("setattr", "delattr") and c.args:
                mutate(c.args[0], c, f"{nm}()", env)
                return
            targets = self.cg.resolve_call(fi, c)
            for tgt in targets:
                teff = self.summary.get(self.cg.key(tgt), set())
                if not teff:
                    continue
                tparams = tgt.params
                # map callee params to argument expressions
                bound: Dict[str, ast.AST] = {}
                pos = list(c.args)
                cal_params = list(tparams)
                if tgt.cls is not None and tgt.kind not in ("staticmethod",) and cal_params and cal_params[0] in ("self", "cls"):
                    if isinstance(c.func, ast.Attribute):
                        bound[cal_params[0]] = c.func.value
                    cal_params = cal_params[1:]
                for p, a in zip(cal_params, pos):
                    bound[p] = a
                for kw in c.keywords:
                    if kw.arg:
                        bound[kw.arg] = kw.value
                for p in teff:
                    if p in bound:
                        mutate(bound[p], c, f"call {tgt.qualname} mutates its parameter {p!r}", env, through_element=True)

        def visit_expr(e, env):
            for n in ast.walk(e):
                if isinstance(n, ast.Call):
                    call_effects(n, env)
                elif isinstance(n, ast.NamedExpr):
                    bind(n.target, roots_of(n.value, env), env, strong=False)

        def run(stmts, env, strong):
            for st in stmts:
                if isinstance(st, (ast.Assign, ast.AnnAssign, ast.AugAssign)):
                    value = st.value
                    if value is not None:
                        visit_expr(value, env)
                    targets = st.targets if isinstance(st, ast.Assign) else [st.target]
                    for t in targets:
                        if isinstance(t, (ast.Attribute, ast.Subscript)):
                            mutate(t.value, st, "store " + ast.unparse(t)[:60], env)
                            visit_expr(t, env)
                        elif value is not None and not isinstance(st, ast.AugAssign):
                            bind(t, roots_of(value, env), env, strong)
                elif isinstance(st, ast.Delete):
                    for t in st.targets:
                        if isinstance(t, (ast.Attribute, ast.Subscript)):
                            mutate(t.value, st, "del " + ast.unparse(t)[:60], env)
                elif isinstance(st, ast.Expr):
                    visit_expr(st.value, env)
                elif isinstance(st, ast.Return):
                    if st.value is not None:
                        visit_expr(st.value, env)
                elif isinstance(st, ast.If):
                    visit_expr(st.test, env)
                    e1, e2 = {k: set(v) for k, v in env.items()}, {k: set(v) for k, v in env.items()}
                    run(st.body, e1, False)
                    run(st.orelse, e2, False)
                    for k in set(e1) | set(e2):
                        env[k] = e1.get(k, set()) | e2.get(k, set())
                elif isinstance(st, (ast.For, ast.While)):
                    if isinstance(st, ast.For):
                        visit_expr(st.iter, env)
                        bind(st.target, {(r, SAME) for r, _ in roots_of(st.iter, env)}, env, strong=False)
                    else:
                        visit_expr(st.test, env)
                    for _ in range(2):
                        run(st.body, env, False)
                    run(st.orelse, env, False)
                elif isinstance(st, ast.With):
                    for it in st.items:
                        visit_expr(it.context_expr, env)
                    run(st.body, env, strong)
                elif isinstance(st, ast.Try):
                    run(st.body, env, False)
                    for h in st.handlers:
                        run(h.body, env, False)
                    run(st.orelse, env, False)
                    run(st.finalbody, env, False)
                elif isinstance(st, ast.Raise):
                    if st.exc is not None:
                        visit_expr(st.exc, env)
                elif isinstance(st, ast.FunctionDef):
                    pass
                elif isinstance(st, ast.Assert):
                    visit_expr(st.test, env)

        run(fi.node.body, env, True)
        return out, sites
