"""From path facts to linear constraints, and proof of `expr >= 0` obligations.

Entailment is decided in the polyhedra domain (linear.entails = Fourier-Motzkin), after
expanding the piecewise atoms the repository uses for clamping:
  * ite(c, a, b)  in the goal  -> case split on c
  * max/min(...)  in the goal  -> positive max: some argument suffices; negative max: all
  * max/min(...)  in a fact    -> weaken to the arguments that are implied
"""
from __future__ import annotations

from fractions import Fraction
from typing import Iterable, List, Optional, Tuple

from . import poly
from .absint import N, T, c_not
from .linear import Lin, entails, lin_of
from .poly import A, C, Frac, ONE, ZERO, subst

POSITION_TAGS = ("t", "n", "cfg", "bv", "sym", "idx")


def _is_positional(f: Frac) -> bool:
    """only integer-valued position/length symbols (no readings) occur"""
    for a in poly.all_atoms(f):
        if a[0] in ("rd", "red", "sum", "pow"):
            return False
        if a[0] == "fn" and a[1] not in ("max", "min", "int", "floordiv"):
            return False
    return True


def _fn_atoms(f: Frac, names=("max", "min")):
    v = poly.linear_view(f)
    out = []
    if v is None:
        return out
    for a, c in v[0].items():
        if a[0] == "fn" and a[1] in names:
            out.append((a, c))
    return out


def _ite_atoms(f: Frac):
    v = poly.linear_view(f)
    if v is None:
        return []
    return [(a, c) for a, c in v[0].items() if a[0] == "ite"]


def expand_fact_ge0(f: Frac) -> List[Frac]:
    """f >= 0 holds; return a list of *implied* facts g >= 0 without max/min atoms where possible"""
    fns = _fn_atoms(f)
    if not fns:
        return [f]
    a, c = fns[0]
    args = a[2:]
    out = []
    # max with negative coef: -c*max(args) + r >= 0  =>  for every arg: -c*arg + r >= 0
    # min with positive coef:  c*min(args) + r >= 0  =>  for every arg:  c*arg + r >= 0
    if (a[1] == "max" and c < 0) or (a[1] == "min" and c > 0):
        for arg in args:
            out.extend(expand_fact_ge0(subst(f, {a: arg})))
        return out
    return [f]  # cannot weaken soundly: keep the atom as an opaque symbol


def cond_to_ge0(c) -> List[Frac]:
    """linear consequences (each >= 0) of a condition known to be true"""
    out: List[Frac] = []
    if c is True or c is False or not isinstance(c, tuple):
        return out
    tag = c[0]
    if tag == "period":
        _, name, p, at = c
        out.append(at - p + ONE)
    elif tag == "present":
        out.append(c[2])
    elif tag == "bound":
        _, var, count = c
        v = Frac.atom(var)
        out.append(v)
        out.append(count - ONE - v)
    elif tag == "cmp":
        _, op, d = c
        if _is_positional(d):
            if op == "<":
                out.append(-d - ONE)
            elif op == "<=":
                out.append(-d)
            elif op == "==":
                out.append(d)
                out.append(-d)
    elif tag == "and":
        for x in c[1:]:
            out.extend(cond_to_ge0(x))
    elif tag == "ge0":
        out.append(c[1])
    res = []
    for f in out:
        res.extend(expand_fact_ge0(f))
    return res


def facts_to_lin(facts: Iterable, extra: Iterable[Frac] = ()) -> List[Lin]:
    lins: List[Lin] = []
    for c in facts:
        for f in cond_to_ge0(c):
            l = lin_of(f)
            if l is not None:
                lins.append(l)
    for f in extra:
        for g in expand_fact_ge0(f):
            l = lin_of(g)
            if l is not None:
                lins.append(l)
    return lins


def prove_ge0(goal: Frac, facts: tuple, extra: Iterable[Frac] = (), depth: int = 0) -> bool:
    """facts |= goal >= 0 ?"""
    extra = list(extra)
    if goal.is_const():
        return goal.const_value() >= 0
    if depth > 6:
        return False
    ites = _ite_atoms(goal)
    if not ites:
        for c in facts:
            for f in cond_to_ge0(c):
                ites = _ite_atoms(f)
                if ites:
                    break
            if ites:
                break
    if not ites:
        for f in extra:
            ites = _ite_atoms(f)
            if ites:
                break
    if ites:
        a, _ = ites[0]
        cond = a[1]
        ok = True
        for branch_val, branch_cond in ((a[2], cond), (a[3], c_not(cond))):
            mp = {a: branch_val}
            g = subst(goal, mp)
            fs = tuple(subst(c, mp) if isinstance(c, tuple) else c for c in facts) + (branch_cond,)
            ex = [subst(f, mp) for f in extra]
            # a branch whose condition contradicts the facts is vacuous
            if _contradictory(fs, ex):
                continue
            if not prove_ge0(g, fs, ex, depth + 1):
                ok = False
                break
        return ok
    fns = _fn_atoms(goal)
    if fns:
        a, c = fns[0]
        args = a[2:]
        need_all = (a[1] == "max" and c < 0) or (a[1] == "min" and c > 0)
        results = (prove_ge0(subst(goal, {a: arg}), facts, extra, depth + 1) for arg in args)
        return all(results) if need_all else any(results)
    gl = lin_of(goal)
    if gl is None:
        return False
    lins = facts_to_lin(facts, extra)
    return entails(lins, gl)


def _contradictory(facts: tuple, extra) -> bool:
    from .linear import feasible

    try:
        return not feasible(facts_to_lin(facts, extra))
    except Exception:
        return False


def describe_facts(facts: tuple) -> str:
    from .absint import show_cond

    parts = []
    for c in facts:
        if isinstance(c, tuple) and c and c[0] == "bound":
            parts.append(f"0<={poly.show_atom(c[1])}<{c[2]!r}")
        else:
            parts.append(show_cond(c))
    return "; ".join(parts) if parts else "none"
