"""Semantic check of an in-place gap-fill scan (one generic iteration, symbolically).

The fill step walks the rebuilt list with an integer cursor, looks at a pair of neighbours (list[p-1], list[p]) and, when they are more
than one timeframe apart, inserts a flat candle at p.  How the loop is spelled (`while True ... break` / `while i < len`, increment first
or last, the expected timestamp hoisted into a local that may be None, helpers for the constructor, guard clauses ...) is free.  The
analysis runs ONE iteration of the loop body from a generic loop-head state (every integer local is a symbol, the list is symbolic)
with the heap interpreter, which forks on every test, and reads the answers off the paths:

  insert paths   exactly one `list.insert(p, Candle(..))`; p is affine in the cursor; the candle is flat at the RAW close of list[p-1],
                 zero volume, one timeframe after list[p-1]; the path condition contains  list[p].timestamp != list[p-1].timestamp + tf
                 (or `<`) and the truthiness of list[p-1].timestamp
  other paths    no store, no insert
  every path     the examined position advances by exactly one:  p(cursor') = p(cursor) + 1   (so an inserted candle becomes the next
                 'previous' and the candle after a closed gap is looked at again)
  first / last   p(initial cursor) = 1;  the loop goes on exactly while p(cursor) < len(list), with the length taken afresh

Anything the interpreter cannot follow raises Unknown: the caller reports 'cannot decide', never a violation."""
from __future__ import annotations

import ast
from typing import List, Optional

from . import poly
from .absint import BoolV, NoneV, Num, Obj, Opaque, State, Str, Unmodelled, c_not
from .heap import HeapInterp
from .poly import A, C, Frac, ONE, ZERO


class Unknown(Exception):
    pass


TF = A("sym", "TF")
LEN = A("len", "L")


class _FI(HeapInterp):
    def attr(self, st, base, name, node):
        if isinstance(base, Obj) and base.kind == "list" and name in ("append", "extend", "insert", "pop", "clear", "remove"):
            return Obj("bound", (base, name))
        return super().attr(st, base, name, node)

    def truth(self, v, st, node):
        if isinstance(v, Num):
            a = poly._single_atom(v.f)
            if a is not None and a[0] == "attr" and a[2] == "timestamp":
                return ("present-ts", a[1])
        return super().truth(v, st, node)

    def call(self, st, node):
        fn = node.func
        # <candle>.clean_values.get("close", <candle>.close): the raw close
        if isinstance(fn, ast.Attribute) and fn.attr == "get" and isinstance(fn.value, ast.Attribute) and fn.value.attr == "clean_values" and len(node.args) == 2:
            owner = self.expr(fn.value.value, st)
            key = self.expr(node.args[0], st)
            dflt = self.expr(node.args[1], st)
            if isinstance(owner, Obj) and owner.kind == "obj" and isinstance(key, Str) and isinstance(dflt, Num) and dflt.f == A("attr", owner.data, key.s):
                return Num(A("raw", owner.data, key.s))
        return super().call(st, node)


def _affine(f: Frac, syms) -> Optional[dict]:
    """f as c0 + sum(ci * sym_i) with constant ci: {None: c0, sym: ci}; None if not of that shape"""
    out = {None: None}
    rest = f
    coeffs = {}
    for s in syms:
        a = Frac.atom(s)
        # coefficient by finite difference: f(s=1) - f(s=0) with the others fixed must be constant
        f0 = poly.subst(rest, {s: ZERO})
        f1 = poly.subst(rest, {s: ONE})
        d = f1 - f0
        if not d.is_const():
            return None
        coeffs[s] = d
        rest = f0
    if not rest.is_const():
        return None
    coeffs[None] = rest
    return coeffs


def analyse_inplace(repo, fm):
    """-> dict(paths=[...], first=Frac, cont=cond, pos=Frac expr of the examined position, notes=[...]) or raises Unknown"""
    fn = fm.node
    params = [p for p in fm.params if p not in ("self", "cls")]
    if len(params) < 2:
        raise Unknown("fill_missing_candles no longer takes (list, timeframe)")
    lst, tfp = params[0], params[1]
    loops = [n for n in fn.body if isinstance(n, ast.While)]
    if len(loops) != 1 or any(isinstance(n, ast.For) for n in fn.body):
        raise Unknown("not a single top-level while loop")
    loop = loops[0]
    if loop.orelse:
        raise Unknown("while/else")
    pre = fn.body[: fn.body.index(loop)]
    it = _FI(repo, fm.module)
    st0 = State()
    st0.env.update({"self": Obj("obj", "self"), lst: Obj("list", "L"), tfp: Num(TF)})
    try:
        outs = it.block(pre, st0)
    except Unmodelled as e:
        raise Unknown(f"statements before the loop: {e}")
    live = [s for s, o in outs if o is None]
    if len(live) != 1:
        raise Unknown(f"{len(live)} ways to reach the loop")
    s_init = live[0]
    ints = {k: v for k, v in s_init.env.items() if isinstance(v, Num) and v.f.is_const() and k not in (tfp,)}
    if not ints:
        raise Unknown("no integer cursor initialised before the loop")
    syms = {k: ("sym", "c:" + k) for k in ints}
    head = s_init.fork()
    for k, a in syms.items():
        head.env[k] = Num(Frac.atom(a))
    head.facts = [f for f in head.facts if not any(True for _ in ())]  # pre-loop facts (e.g. len >= 2) stay
    # ---- loop test at the head
    try:
        tests = it.cond_paths(loop.test, head.fork())
    except Unmodelled as e:
        raise Unknown(f"loop test: {e}")
    entered = [s for t, s in tests if t]
    if len(entered) != 1:
        raise Unknown("loop test with several ways to hold")
    ent = entered[0]
    n_head_facts = len(head.facts)
    test_facts = list(ent.facts[n_head_facts:])
    # ---- one iteration
    ent.effects = []
    try:
        body_outs = it.block(loop.body, ent)
    except Unmodelled as e:
        raise Unknown(f"loop body: {e}")
    if it.unmodelled:
        raise Unknown(f"loop body: {it.unmodelled[0][1]}")
    paths = []
    for s, out in body_outs:
        kind = "next"
        if out is not None:
            v = out[1]
            if isinstance(v, Obj) and v.kind in ("continue", "break"):
                kind = "next" if v.kind == "continue" else "break"
            elif isinstance(out[0], ast.Return):
                kind = "return"
            else:
                raise Unknown("a path leaves the loop body by raise")
        inserts, others, news = [], [], {}
        for e in s.effects:
            if e[0] == "call" and isinstance(e[1], Obj) and e[1].kind == "list" and e[2] == "insert":
                inserts.append(e)
            elif e[0] == "call" and isinstance(e[1], Obj) and e[1].kind == "list" and e[2] in ("append", "extend", "pop", "clear", "remove"):
                others.append(e)
            elif e[0] == "new":
                news[id(e[-1])] = e
        cursor_after = {k: s.env.get(k) for k in syms}
        paths.append(dict(state=s, kind=kind, facts=list(s.facts[n_head_facts + len(test_facts):]), inserts=inserts, others=others, cursor=cursor_after, heap=dict(s.heap)))
    return dict(paths=paths, syms=syms, init={k: v.f for k, v in ints.items()}, test_facts=test_facts, loop=loop, lst=lst, tfp=tfp, it=it, head=head)


def examined_position(an) -> Frac:
    """p such that the iteration looks at (list[p-1], list[p]): from the reads of the list in the path conditions / inserts"""
    pos = set()
    for p in an["paths"]:
        for e in p["inserts"]:
            a = e[3][0]
            if isinstance(a, Num):
                pos.add(repr(a.f))
                an.setdefault("_pos", a.f)
    if len(pos) != 1:
        raise Unknown(f"{len(pos)} different insert positions")
    return an["_pos"]
