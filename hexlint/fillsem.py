"""Semantic check of an in-place gap-fill scan (one generic iteration, symbolically).

The fill step walks the rebuilt list with an integer cursor, looks at a pair of neighbours (list[p-1], list[p]) and, when they are more
than one timeframe apart, inserts a flat candle at p.  How the loop is spelled (`while True ... break` / `while i < len`, increment first
or last, the expected timestamp hoisted into a local that may be None, helpers for the constructor, guard clauses ...) is free.  The
analysis runs ONE iteration of the loop body from a generic loop-head state (every integer local is a symbol, the list is symbolic)
with the heap interpreter, which forks on every test, and reads the answers off the paths:

  insert paths   exactly one `list.insert(p, Candle(..))`; p is affine in the cursor; the candle is flat at the RAW close of list[p-1],
                 zero volume, one timeframe after list[p-1]; the path condition contains  list[p].timestamp != list[p-1].timestamp + tf
                 (or `<`) and the truthiness of list[p-1].timestamp
  other paths    no store, no insert
  every path     the examined position advances by exactly one:  p(cursor') = p(cursor) + 1   (so an inserted candle becomes the next
                 'previous' and the candle after a closed gap is looked at again)
  first / last   p(initial cursor) = 1;  the loop goes on exactly while p(cursor) < len(list), with the length taken afresh

Anything the interpreter cannot follow raises Unknown: the caller reports 'cannot decide', never a violation."""
from __future__ import annotations

import ast
from typing import List, Optional

from . import poly
from .absint import BoolV, NoneV, Num, Obj, Opaque, State, Str, Unmodelled, c_not
from .heap import HeapInterp
from .poly import A, C, Frac, ONE, ZERO


class Unknown(Exception):
    pass


TF = A("sym", "TF")
LEN = A("len", "L")


class _FI(HeapInterp):
    def attr(self, st, base, name, node):
        if isinstance(base, Obj) and base.kind == "list" and name in ("append", "extend", "insert", "pop", "clear", "remove"):
            return Obj("bound", (base, name))
        return super().attr(st, base, name, node)

    def truth(self, v, st, node):
        if isinstance(v, Num):
            a = poly._single_atom(v.f)
            if a is not None and a[0] == "attr" and a[2] == "timestamp":
                return ("present-ts", a[1])
        return super().truth(v, st, node)

    def call(self, st, node):
        fn = node.func
        # <candle>.clean_values.get("close", <candle>.close): the raw close
        if isinstance(fn, ast.Attribute) and fn.attr == "get" and isinstance(fn.value, ast.Attribute) and fn.value.attr == "clean_values" and len(node.args) == 2:
            owner = self.expr(fn.value.value, st)
            key = self.expr(node.args[0], st)
            dflt = self.expr(node.args[1], st)
            if isinstance(owner, Obj) and owner.kind == "obj" and isinstance(key, Str) and isinstance(dflt, Num) and dflt.f == A("attr", owner.data, key.s):
                return Num(A("raw", owner.data, key.s))
        return super().call(st, node)


def _affine(f: Frac, syms) -> Optional[dict]:
    """f as c0 + sum(ci * sym_i) with constant ci: {None: c0, sym: ci}; None if not of that shape"""
    out = {None: None}
    rest = f
    coeffs = {}
    for s in syms:
        a = Frac.atom(s)
        # coefficient by finite difference: f(s=1) - f(s=0) with the others fixed must be constant
        f0 = poly.subst(rest, {s: ZERO})
        f1 = poly.subst(rest, {s: ONE})
        d = f1 - f0
        if not d.is_const():
            return None
        coeffs[s] = d
        rest = f0
    if not rest.is_const():
        return None
    coeffs[None] = rest
    return coeffs


def analyse_inplace(repo, fm):
    """-> dict(paths=[...], first=Frac, cont=cond, pos=Frac expr of the examined position, notes=[...]) or raises Unknown"""
    fn = fm.node
    params = [p for p in fm.params if p not in ("self", "cls")]
    if len(params) < 2:
        raise Unknown("fill_missing_candles no longer takes (list, timeframe)")
    lst, tfp = params[0], params[1]
    loops = [n for n in fn.body if isinstance(n, ast.While)]
    if len(loops) != 1 or any(isinstance(n, ast.For) for n in fn.body):
        raise Unknown("not a single top-level while loop")
    loop = loops[0]
    if loop.orelse:
        raise Unknown("while/else")
    pre = fn.body[: fn.body.index(loop)]
    it = _FI(repo, fm.module)
    st0 = State()
    st0.env.update({"self": Obj("obj", "self"), lst: Obj("list", "L"), tfp: Num(TF)})
    try:
        outs = it.block(pre, st0)
    except Unmodelled as e:
        raise Unknown(f"statements before the loop: {e}")
    live = [s for s, o in outs if o is None]
    if not live or len(live) > 8:
        raise Unknown(f"{len(live)} ways to reach the loop")
    stored_in_loop_ = {n.id for b in loop.body for n in ast.walk(b) if isinstance(n, ast.Name) and isinstance(n.ctx, ast.Store)}

    def one(s_init):
        stored_in_loop = {n.id for b in loop.body for n in ast.walk(b) if isinstance(n, ast.Name) and isinstance(n.ctx, ast.Store)}
        ints = {k: v for k, v in s_init.env.items() if isinstance(v, Num) and k not in (tfp,) and (v.f.is_const() or k in stored_in_loop)}
        if not ints:
            raise Unknown("no integer cursor initialised before the loop")
        syms = {k: ("sym", "c:" + k) for k in ints}
        head = s_init.fork()
        for k, a in syms.items():
            head.env[k] = Num(Frac.atom(a))
        head.facts = [f for f in head.facts if not any(True for _ in ())]  # pre-loop facts (e.g. len >= 2) stay
        # ---- loop test at the head
        try:
            tests = it.cond_paths(loop.test, head.fork())
        except Unmodelled as e:
            raise Unknown(f"loop test: {e}")
        entered = [s for t, s in tests if t]
        if len(entered) != 1:
            raise Unknown("loop test with several ways to hold")
        ent = entered[0]
        n_head_facts = len(head.facts)
        test_facts = list(ent.facts[n_head_facts:])
        # ---- one iteration
        ent.effects = []
        try:
            body_outs = it.block(loop.body, ent)
        except Unmodelled as e:
            raise Unknown(f"loop body: {e}")
        if it.unmodelled:
            raise Unknown(f"loop body: {it.unmodelled[0][1]}")
        paths = []
        for s, out in body_outs:
            kind = "next"
            if out is not None:
                v = out[1]
                if isinstance(v, Obj) and v.kind in ("continue", "break"):
                    kind = "next" if v.kind == "continue" else "break"
                elif isinstance(out[0], ast.Return):
                    kind = "return"
                else:
                    raise Unknown("a path leaves the loop body by raise")
            inserts, others, news = [], [], {}
            for e in s.effects:
                if e[0] == "call" and isinstance(e[1], Obj) and e[1].kind == "list" and e[2] == "insert":
                    inserts.append(e)
                elif e[0] == "call" and isinstance(e[1], Obj) and e[1].kind == "list" and e[2] in ("append", "extend", "pop", "clear", "remove"):
                    others.append(e)
                elif e[0] == "new":
                    news[id(e[-1])] = e
            cursor_after = {k: s.env.get(k) for k in syms}
            paths.append(dict(state=s, kind=kind, facts=list(s.facts[n_head_facts + len(test_facts):]), inserts=inserts, others=others, cursor=cursor_after, heap=dict(s.heap)))
        return dict(paths=paths, syms=syms, init={k: v.f for k, v in ints.items()}, test_facts=test_facts, loop=loop, lst=lst, tfp=tfp, it=it, head=head)

    results = [one(s_) for s_ in live]
    first = results[0]
    for r in results[1:]:
        if sorted(r["syms"]) != sorted(first["syms"]) or {k: repr(v) for k, v in r["init"].items()} != {k: repr(v) for k, v in first["init"].items()} or [repr(c) for c in r["test_facts"]] != [repr(c) for c in first["test_facts"]]:
            raise Unknown("the ways to reach the loop differ in the cursor / the loop test")
        first["paths"].extend(r["paths"])
    return first


def examined_position(an) -> Frac:
    """p such that the iteration looks at (list[p-1], list[p]): from the reads of the list in the path conditions / inserts"""
    pos = set()
    for p in an["paths"]:
        for e in p["inserts"]:
            a = e[3][0]
            if isinstance(a, Num):
                pos.add(repr(a.f))
                an.setdefault("_pos", a.f)
    if len(pos) != 1:
        raise Unknown(f"{len(pos)} different insert positions")
    return an["_pos"]


# ---------------------------------------------------------------------------------------------------------------------------------
# forward builder:  out = [L[0]] ; for cur in L[1:]: <append flat candles until cur follows> ; out.append(cur) ; [L[:] = out]


class _BI(_FI):
    """heap interpreter with fresh candles as objects with fields (so that a fill built from a fill can be evaluated)"""

    def __init__(self, repo, mod, out_name):
        super().__init__(repo, mod)
        self.out_name = out_name
        self.fresh = {}

    def subscript(self, st, base, idx, node):
        if isinstance(base, Obj) and base.kind == "list" and base.data == "OUT" and isinstance(idx, Num) and idx.f == -ONE:
            return st.env.get("@tail", Obj("obj", "TAIL"))
        return super().subscript(st, base, idx, node)

    def attr(self, st, base, name, node):
        if isinstance(base, Obj) and base.kind == "new" and base.data[0] == "Candle":
            fields = dict(zip(["open", "high", "low", "close", "volume", "timestamp"], base.data[1]))
            fields.update(dict(base.data[2]))
            if name in fields:
                return fields[name]
            if name == "clean_values":
                return Obj("emptydict")
            return Opaque(f"field {name} of a fresh candle")
        return super().attr(st, base, name, node)

    def truth(self, v, st, node):
        if isinstance(v, Obj) and v.kind == "list":
            return ("nonempty", v.data)
        return super().truth(v, st, node)

    def call(self, st, node):
        fn = node.func
        if isinstance(fn, ast.Attribute) and fn.attr == "get" and isinstance(fn.value, ast.Attribute) and fn.value.attr == "clean_values" and len(node.args) == 2:
            owner = self.expr(fn.value.value, st)
            if isinstance(owner, Obj) and owner.kind == "new":
                return self.expr(node.args[1], st)  # a fresh candle has no saved values: the default
        return super().call(st, node)


def analyse_builder(repo, fm):
    """-> dict(kind='builder', ...) for the forward-pass form, or raises Unknown"""
    fn = fm.node
    params = [p for p in fm.params if p not in ("self", "cls")]
    if len(params) < 2:
        raise Unknown("signature")
    lst, tfp = params[0], params[1]
    fors = [n for n in fn.body if isinstance(n, ast.For)]
    if len(fors) != 1 or any(isinstance(n, ast.While) for n in fn.body) or fors[0].orelse:
        raise Unknown("not a single top-level for loop")
    loop = fors[0]
    pre = fn.body[: fn.body.index(loop)]
    post = fn.body[fn.body.index(loop) + 1 :]
    if not isinstance(loop.target, ast.Name):
        raise Unknown("loop target")
    cur = loop.target.id
    # the output list and how it starts
    out, start = None, None
    for st in pre:
        tgt = st.targets[0] if isinstance(st, ast.Assign) and len(st.targets) == 1 else st.target if isinstance(st, ast.AnnAssign) else None
        val = getattr(st, "value", None)
        if isinstance(tgt, ast.Name) and isinstance(val, ast.List):
            if len(val.elts) == 1 and ast.unparse(val.elts[0]) == f"{lst}[0]":
                out, start = tgt.id, "first"
            elif not val.elts:
                out, start = tgt.id, "empty"
    if out is None:
        raise Unknown("no output list built before the loop")
    it_txt = ast.unparse(loop.iter).replace(" ", "")
    if not ((start == "first" and it_txt == f"{lst}[1:]") or (start == "empty" and it_txt == lst)):
        raise Unknown(f"output starts {start} but the loop runs over {it_txt}")
    body = list(loop.body)
    if not body or not (isinstance(body[-1], ast.Expr) and isinstance(body[-1].value, ast.Call) and ast.unparse(body[-1].value).replace(" ", "") == f"{out}.append({cur})"):
        raise Unknown("the loop body does not end with out.append(current)")
    inner = [n for n in body[:-1] if isinstance(n, ast.While)]
    if len(inner) != 1 or any(isinstance(n, (ast.For, ast.While)) for st in body[:-1] for n in ast.walk(st) if n is not inner[0]):
        raise Unknown("not exactly one inner while loop producing the fill candles")
    w = inner[0]
    before_w = body[: body.index(w)]
    after_w = body[body.index(w) + 1 : -1]
    it = _BI(repo, fm.module, out)
    st0 = State()
    TAIL = Obj("obj", "TAIL")
    st0.env.update({"self": Obj("obj", "self"), lst: Obj("list", "L"), out: Obj("list", "OUT"), tfp: Num(TF), cur: Obj("obj", "cur"), "@tail": TAIL})
    try:
        outs = it.block(before_w, st0)
    except Unmodelled as e:
        raise Unknown(f"statements before the inner loop: {e}")
    live = [s for s, o in outs if o is None]
    if len(live) != 1:
        raise Unknown("several ways to reach the inner loop")
    s1 = live[0]
    # locals that hold the tail / a fresh gap list
    tailvars = [k for k, v in s1.env.items() if v == TAIL and k != "@tail"]
    gaps = [k for k, v in s1.env.items() if isinstance(v, (Obj,)) and getattr(v, "kind", None) == "listlit"]
    n0 = len(s1.facts)
    try:
        tests = it.cond_paths(w.test, s1.fork())
    except Unmodelled as e:
        raise Unknown(f"inner loop test: {e}")
    res_paths = []
    for truth, s2 in tests:
        if not truth:
            res_paths.append(dict(kind="exit", facts=list(s2.facts[n0:]), appended=[], env=s2.env))
            continue
        s2.effects = []
        try:
            bouts = it.block(w.body, s2)
        except Unmodelled as e:
            raise Unknown(f"inner loop body: {e}")
        for s3, o in bouts:
            kind = "next"
            if o is not None:
                v = o[1]
                if isinstance(v, Obj) and v.kind == "break":
                    kind = "exit"
                elif isinstance(v, Obj) and v.kind == "continue":
                    kind = "next"
                else:
                    raise Unknown("the inner loop is left by return / raise")
            apps = [e for e in s3.effects if e[0] == "call" and e[2] in ("append", "insert", "extend")]
            res_paths.append(dict(kind=kind, facts=list(s3.facts[n0:]), appended=apps, env=s3.env, heap=dict(s3.heap)))
    if it.unmodelled:
        raise Unknown(f"inner loop: {it.unmodelled[0][1]}")
    return dict(kind="builder", paths=res_paths, tailvars=tailvars, out=out, cur=cur, lst=lst, start=start, loop=loop, inner=w, before=before_w, after=after_w, post=post, tail=TAIL)
