"""Structural rules about the framework code around the formulas (helper registration, cursor, names, registries, owners)."""
from __future__ import annotations

import ast
import copy

from .core import Result, finding, norm_construct
from .model import Repo
from .structure import attr_stores, call_name, call_target, calls_in, path_calls, stmt_paths


def check_helper_config(prop: str, res: Result, repo: Repo):
    """R-WIRE: registering a helper binds it (flags, manager) but never overrides its configuration: the helper computes what the
    formula's _initialise configured (period, input, rounding ...), which is what the definitions are compared under"""
    rule = "R-WIRE"
    ind = repo.cls("hexital.core.indicator", "Indicator")
    allowed = {"_sub_indicator", "_sub_calc_prior", "candle_manager"}
    for nm in ("add_sub_indicator", "add_managed_indicator"):
        m = ind.methods.get(nm)
        if m is None:
            res.errors.append(f"anchor vanished: Indicator.{nm}")
            continue
        helper = next((p for p in m.params if p == "indicator"), None) or (m.params[-1] if nm == "add_managed_indicator" else (m.params[1] if len(m.params) > 1 else None))
        bad = []
        for st in ast.walk(m.node):
            targets = st.targets if isinstance(st, ast.Assign) else [st.target] if isinstance(st, (ast.AugAssign, ast.AnnAssign)) else []
            for t in targets:
                if isinstance(t, ast.Attribute) and isinstance(t.value, ast.Name) and t.value.id == helper and t.attr not in allowed:
                    bad.append((st, t.attr))
            if isinstance(st, ast.Call) and call_name(st) == "setattr" and st.args and ast.unparse(st.args[0]) == helper:
                bad.append((st, "setattr"))
        if bad:
            for st, attr in bad:
                res.fail(rule, finding(prop, rule, m, st, f"Indicator.{nm} overrides the helper's own configuration ({attr}): helper series are then not the ones the definition is built from (e.g. a coarser rounding feeds back into recursive helpers)"))
        else:
            res.ok(rule, {"site": m.where, "why": f"binds the helper only ({', '.join(sorted(allowed))}); its configuration stays what _initialise passed"}, nontrivial=nm)


def check_config_passthrough(prop: str, res: Result, repo: Repo):
    """R-CONFIG: a dict definition of an indicator reaches the class with every setting it carries: _build_indicator passes a plain
    copy of the given dict (minus the popped 'indicator' / 'analysis' key); a filtered rebuild drops legitimate falsy settings"""
    rule = "R-CONFIG"
    bi = repo.method("hexital.core.hexital", "Hexital", "_build_indicator")
    param = next((p for p in bi.params if p != "self"), "raw_indicator")
    defs = {}
    for n in ast.walk(bi.node):
        if isinstance(n, ast.Assign):
            for t in n.targets:
                if isinstance(t, ast.Name):
                    defs.setdefault(t.id, []).append(n.value)
    stars = [k.value for c in calls_in(bi.node) for k in c.keywords if k.arg is None]
    if not stars:
        res.errors.append(f"{bi.where}: _build_indicator passes no **settings to a class: cannot decide that every setting arrives")
        return
    bad, unknown = None, None
    for sv in stars:
        seen, todo = set(), [sv]
        while todo:
            e = todo.pop()
            for n in ast.walk(e):
                if isinstance(n, (ast.DictComp, ast.ListComp, ast.GeneratorExp, ast.SetComp)) and any(g.ifs for g in n.generators):
                    bad = bad or n
                elif isinstance(n, ast.Call) and call_name(n) in ("filter",):
                    bad = bad or n
                elif isinstance(n, ast.Name) and n.id in defs and n.id not in seen:
                    seen.add(n.id)
                    todo.extend(defs[n.id])
    if bad is not None:
        res.fail(rule, finding(prop, rule, bi, bad, "the settings of a dict-defined indicator are rebuilt through a filter before they reach the class: legitimate falsy settings (count_value=False, round_value=0, timeframe_fill=False ...) are dropped, so the dict form no longer builds the indicator the object form builds"))
    else:
        res.ok(rule, {"site": bi.where, "why": "the given dict (a copy, minus the popped selector key) is passed on as it is"}, nontrivial="config")


def check_settings_kept(prop: str, res: Result, repo: Repo, settings=("timeframe_fill", "candles_lifespan")):
    """R-CONFIG: the constructors of Hexital and CandleManager keep the gap-filling / lifespan setting they are given on every path
    (a store placed under an unrelated condition, e.g. `if timeframe:`, silently drops it for the other configurations: the managers
    built later for the members' own timeframes then run without it)"""
    from .structure import normal_exit, stmt_paths

    rule = "R-CONFIG"
    for mod, cls in (("hexital.core.hexital", "Hexital"), ("hexital.core.candle_manager", "CandleManager")):
        m = repo.method(mod, cls, "__init__")
        for s_ in settings:
            if s_ not in m.params:
                res.errors.append(f"{m.where}: {cls}.__init__ no longer takes `{s_}`")
                continue
            n_paths = missing = 0
            for p_ in stmt_paths(m.node.body):
                if not normal_exit(p_):
                    continue
                n_paths += 1
                stored = False
                for item in p_:
                    if isinstance(item, ast.Assign) and any(isinstance(t, ast.Attribute) and isinstance(t.value, ast.Name) and t.value.id == "self" and t.attr == s_ for t in item.targets):
                        stored = stored or any(isinstance(n, ast.Name) and n.id == s_ for n in ast.walk(item.value))
                    elif isinstance(item, ast.AnnAssign) and isinstance(item.target, ast.Attribute) and item.target.attr == s_ and item.value is not None:
                        stored = stored or any(isinstance(n, ast.Name) and n.id == s_ for n in ast.walk(item.value))
                if not stored:
                    missing += 1
            if n_paths == 0:
                res.errors.append(f"{m.where}: no path through {cls}.__init__ could be enumerated")
            elif missing:
                res.fail(rule, finding(prop, rule, m, m.node, f"{cls}.__init__ keeps the given `{s_}` only on {n_paths - missing} of its {n_paths} paths: for the other configurations the setting is dropped (class default), and every manager built from it later runs without it", construct=f"{cls}.__init__: self.{s_} not stored on every path"))
            else:
                res.ok(rule, {"site": m.where, "setting": s_, "stored on": f"all {n_paths} paths"}, nontrivial=f"{cls}.{s_}")


# (class, settings) pairs whose exchange leaves the indicator the same: MACD is "shorter EMA minus longer EMA" whichever way round they are given
SYMMETRIC_SETTINGS = {("MACD", frozenset({"fast_period", "slow_period"}))}


def check_config_stable(prop: str, res: Result, repo: Repo):
    """R-CONFIG: a validation hook (`_validate_fields`) may default a setting that was left None, swap two settings or coerce a type; it
    never replaces a value that was given (a clamp changes the indicator another indicator's `_initialise` asked for by value)"""
    rule = "R-CONFIG"
    n = 0
    for ci in repo.shipped() + [repo.indicator_base()]:
        m = ci.methods.get("_validate_fields")
        if m is None:
            continue
        fields = set(repo.all_fields(ci))
        known_none: dict = {}

        def is_none_test(t):
            """(field, polarity): `self.f is None` / `not self.f` -> (f, True); `self.f is not None` / `self.f` -> (f, False)"""
            if isinstance(t, ast.UnaryOp) and isinstance(t.op, ast.Not):
                r = is_none_test(t.operand)
                return (r[0], not r[1]) if r else None
            if isinstance(t, ast.Compare) and len(t.ops) == 1 and isinstance(t.comparators[0], ast.Constant) and t.comparators[0].value is None and isinstance(t.left, ast.Attribute) and isinstance(t.left.value, ast.Name) and t.left.value.id == "self":
                return (t.left.attr, isinstance(t.ops[0], (ast.Is, ast.Eq)))
            if isinstance(t, ast.Attribute) and isinstance(t.value, ast.Name) and t.value.id == "self":
                return (t.attr, False)
            return None

        def walk(body, none_now):
            none_now = set(none_now)
            for s in body:
                if isinstance(s, ast.Assign):
                    known_none[id(s)] = set(none_now)
                if isinstance(s, ast.If):
                    r = is_none_test(s.test)
                    walk(s.body, none_now | ({r[0]} if r and r[1] else set()))
                    walk(s.orelse, none_now | ({r[0]} if r and not r[1] else set()))
                    ends = bool(s.body) and isinstance(s.body[-1], (ast.Return, ast.Raise)) and not s.orelse
                    if r and not r[1] and ends:
                        none_now.add(r[0])
                elif isinstance(s, (ast.For, ast.While, ast.With, ast.Try)):
                    for fld in ("body", "orelse", "finalbody"):
                        walk(getattr(s, fld, []) or [], none_now)
                for t in ast.walk(s) if isinstance(s, (ast.Assign, ast.AugAssign)) else ():
                    if isinstance(t, ast.Attribute) and isinstance(t.ctx, ast.Store):
                        none_now.discard(t.attr)

        walk(m.node.body, set())
        for st in [x for x in ast.walk(m.node) if isinstance(x, ast.Assign)]:
            tgts = [t for t in st.targets for t in (t.elts if isinstance(t, ast.Tuple) else [t]) if isinstance(t, ast.Attribute) and isinstance(t.value, ast.Name) and t.value.id == "self" and t.attr in fields]
            if not tgts:
                continue
            n += 1
            vals = st.value.elts if isinstance(st.value, ast.Tuple) else [st.value]
            swap = len(tgts) >= 2 and all(isinstance(v, ast.Attribute) and ast.unparse(v) in {ast.unparse(t) for t in tgts} for v in vals)
            # `a, b = sorted((a, b))` is the conditional exchange spelled with sorted()
            sv = st.value
            if not swap and len(tgts) == 2 and isinstance(sv, ast.Call) and isinstance(sv.func, ast.Name) and sv.func.id == "sorted" and len(sv.args) == 1 and not sv.keywords and isinstance(sv.args[0], (ast.Tuple, ast.List)) and sorted(ast.unparse(e) for e in sv.args[0].elts) == sorted(ast.unparse(t) for t in tgts):
                swap = True
            # exchanging two settings is only harmless where the definition is symmetric in them (confirmed by reading, frozen here)
            if swap and (ci.name, frozenset(t.attr for t in tgts)) not in SYMMETRIC_SETTINGS:
                res.fail(rule, finding(prop, rule, m, st, f"{ci.name}._validate_fields exchanges the settings {sorted(t.attr for t in tgts)}: the definition of {ci.name} is not symmetric in them (each smoothing stage is seeded over its own length), so the instance computes another indicator than the one configured"))
                continue
            ok = swap
            for t in tgts:
                if ok:
                    break
                # defaulting: somewhere above, `if self.<field> is None:`
                guarded = t.attr in known_none.get(id(st), set())
                v = st.value
                coercion = isinstance(v, ast.Call) and isinstance(v.func, ast.Name) and v.func.id in ("int", "float", "str", "bool") and len(v.args) == 1 and ast.unparse(v.args[0]) == f"self.{t.attr}"
                validator = isinstance(v, ast.Call) and call_name(v).startswith("validate_")
                ok = guarded or coercion or validator
            if ok:
                res.ok(rule, {"site": f"{m.where} {norm_construct(st)[:70]}", "why": "defaulting / swap / coercion"})
            else:
                res.fail(rule, finding(prop, rule, m, st, f"{ci.name}._validate_fields replaces a setting that was given (`{norm_construct(st)[:80]}`): the instance is no longer the indicator its configuration (or the composite that builds it as a helper) describes"))
    if n == 0:
        res.ok(rule, {"why": "no validation hook rewrites a setting"})


def check_cursor_kept(prop: str, res: Result, repo: Repo):
    """R-CURSOR: calculate_index leaves the cursor on the last index it computed: helpers are read back through it (reading() without
    an index) right after they were recomputed"""
    rule = "R-CURSOR"
    m = repo.method("hexital.core.indicator", "Indicator", "calculate_index")
    loops = [n for n in m.node.body if isinstance(n, ast.For)]
    lv = ast.unparse(loops[0].target) if loops else None
    bad = None
    for n in ast.walk(m.node):
        if isinstance(n, ast.Call) and call_name(n) in ("_set_active_index", "set_active_index") and not (n.args and ast.unparse(n.args[0]) == lv):
            bad = bad or n
        if isinstance(n, (ast.Assign, ast.AugAssign)):
            for t in (n.targets if isinstance(n, ast.Assign) else [n.target]):
                if isinstance(t, ast.Attribute) and t.attr == "_active_index":
                    bad = bad or n
    if bad is not None:
        res.fail(rule, finding(prop, rule, m, bad, "calculate_index moves the active index to something other than the index it is computing (e.g. restores the previous position afterwards): a composite that recomputes a helper and reads it back without an index (MACD's signal line) then reads another candle's value, and the stored reading is never repaired"))
    elif loops:
        res.ok(rule, {"site": m.where, "why": "the only cursor movement in calculate_index is _set_active_index(<loop index>)"}, nontrivial="cursor:index")


def check_converter_stateless(prop: str, res: Result, repo: Repo):
    """R-STATE: a candlestick type keeps no state between conversion passes: one instance serves every manager of a Hexital"""
    rule = "R-STATE"
    ct = repo.cls("hexital.core.candlestick_type", "CandlestickType")
    n = 0
    for fi in repo.all_functions():
        if fi.cls is None or not repo.is_subclass(fi.cls, ct) or fi.name in ("__init__", "__post_init__"):
            continue
        for st, t in attr_stores(fi.node):
            if isinstance(t.value, ast.Name) and t.value.id == "self":
                n += 1
                res.fail(rule, finding(prop, rule, fi, st, f"the candlestick type stores state on itself (self.{t.attr}) while converting: the same instance converts the candle lists of every manager of a Hexital, so what it remembers about one list is applied to another"))
    if n == 0:
        res.ok(rule, {"class": "CandlestickType and subclasses", "why": "no attribute store on self outside construction"}, nontrivial="converter-state")


def check_active_cursor(prop: str, res: Result, repo: Repo):
    """R-CURSOR: the sweep moves the active index onto every candle it visits (also the ones it skips), before calculating: after
    calculate() the default position of reading()/prev_reading()/has_reading is the newest candle"""
    rule = "R-CURSOR"
    m = repo.method("hexital.core.indicator", "Indicator", "calculate")
    loops = [n for n in m.node.body if isinstance(n, ast.For)]
    if len(loops) != 1 or not isinstance(loops[0].target, ast.Name):
        res.errors.append(f"{m.where}: calculate no longer has one sweep loop over an index")
        return
    lv = loops[0].target.id
    ok_all, n = True, 0
    for p in stmt_paths(loops[0].body):
        calls = path_calls(p)
        names = [call_name(c) for c in calls]
        n += 1
        sets = [i for i, c in enumerate(calls) if call_name(c) == "_set_active_index" and c.args and ast.unparse(c.args[0]) == lv]
        calc = [i for i, c in enumerate(calls) if call_name(c) == "_calculate_reading"]
        if not sets or (calc and sets[0] > calc[0]):
            ok_all = False
            res.fail(rule, finding(prop, rule, m, loops[0], "a path through the sweep does not move the active index onto the visited candle (before calculating it): after calculate() the default position of reading()/has_reading can lag behind the newest candle", construct="calculate sweep path: " + " -> ".join(names)[:150]))
    if ok_all:
        res.ok(rule, {"site": m.where, "paths": n, "why": f"_set_active_index({lv}) on every path, before _calculate_reading"}, nontrivial="cursor")


def check_name_sanitised(prop: str, res: Result, repo: Repo):
    """R-NAME: every part of an indicator's name passes the '.' -> ',' sanitiser (accessors split names on '.')"""
    rule = "R-NAME"
    ind = repo.cls("hexital.core.indicator", "Indicator")
    san = ind.methods.get("_sanitise_name")
    gen = ind.methods.get("_internal_generate_name")
    if gen is None:
        res.errors.append("anchor vanished: Indicator._internal_generate_name")
        return
    if san is not None:
        rets = [n.value for n in ast.walk(san.node) if isinstance(n, ast.Return) and n.value is not None]
        good = len(rets) == 1 and isinstance(rets[0], ast.Call) and call_name(rets[0]) == "replace" and [getattr(a, "value", None) for a in rets[0].args] == [".", ","]
        if good:
            res.ok(rule, {"site": san.where, "sanitiser": "name.replace('.', ',')"})
        else:
            res.fail(rule, finding(prop, rule, san, san.node, "_sanitise_name must replace every '.' of the name by ','", construct="_sanitise_name"))
    # without the method the sanitiser has to appear on the paths below as `.replace('.', ',')` itself (a helper outside the pinned
    # decomposition is inlined at load time)

    def clean_expr(e, env) -> bool:
        if isinstance(e, ast.Call) and call_name(e) in ("_sanitise_name",):
            return True
        if isinstance(e, ast.Call) and call_name(e) == "replace" and [getattr(a, "value", None) for a in e.args] == [".", ","]:
            return True
        if isinstance(e, ast.Constant) and isinstance(e.value, str):
            return "." not in e.value
        if isinstance(e, ast.Name):
            return env.get(e.id, False)
        if isinstance(e, ast.JoinedStr):
            return all(clean_expr(v, env) for v in e.values)
        if isinstance(e, ast.FormattedValue):
            return clean_expr(e.value, env)
        if isinstance(e, ast.BinOp) and isinstance(e.op, ast.Add):
            return clean_expr(e.left, env) and clean_expr(e.right, env)
        if isinstance(e, ast.Attribute) and e.attr == "timeframe":
            return True  # validated timeframe strings: prefix letter + integer
        return False

    n = 0
    for p in stmt_paths(gen.node.body):
        env = {}
        stored = None
        for st in p:
            if isinstance(st, ast.Assign) and len(st.targets) == 1:
                t = st.targets[0]
                if isinstance(t, ast.Name):
                    env[t.id] = clean_expr(st.value, env)
                elif ast.unparse(t) == "self._output_name":
                    stored = (st, clean_expr(st.value, env))
            elif isinstance(st, ast.AugAssign) and isinstance(st.target, ast.Name):
                env[st.target.id] = env.get(st.target.id, False) and clean_expr(st.value, env)
        if stored is None:
            continue
        n += 1
        if stored[1]:
            res.ok(rule, {"site": gen.where, "path": n, "why": "the stored name is sanitised as a whole (or part by part)"}, nontrivial=f"name:path{n}")
        else:
            res.fail(rule, finding(prop, rule, gen, stored[0], "a part of the indicator name (override, generated name or suffix) reaches the stored name without passing the '.' -> ',' sanitiser: readings stored under a dotted key cannot be addressed by any accessor"))
    if n == 0:
        res.errors.append(f"{gen.where}: no path stores self._output_name")


def check_registry_writers(prop: str, res: Result, repo: Repo):
    """R-REGISTRY: the Hexital's manager registry is written only while it is built / indicators are bound; nothing removes a manager"""
    rule = "R-REGISTRY"
    hx = repo.cls("hexital.core.hexital", "Hexital")
    allowed = {"__init__", "_validate_indicators"}
    MUT = {"pop", "popitem", "clear", "update", "setdefault", "__setitem__", "__delitem__"}
    n_bad = 0
    for nm, m in hx.methods.items():
        for st in ast.walk(m.node):
            hit = None
            if isinstance(st, (ast.Assign, ast.AugAssign, ast.AnnAssign)):
                for t in (st.targets if isinstance(st, ast.Assign) else [st.target]):
                    if ast.unparse(t) == "self._candles" or (isinstance(t, ast.Subscript) and ast.unparse(t.value) == "self._candles"):
                        hit = st
            elif isinstance(st, ast.Delete):
                if any("self._candles" in ast.unparse(t) for t in st.targets):
                    hit = st
            elif isinstance(st, ast.Call) and isinstance(st.func, ast.Attribute) and ast.unparse(st.func.value) == "self._candles" and st.func.attr in MUT:
                hit = st
            if hit is None:
                continue
            if nm in allowed:
                res.ok(rule, {"site": f"{m.where} {norm_construct(hit)}", "writer": nm})
            else:
                n_bad += 1
                res.fail(rule, finding(prop, rule, m, hit, f"Hexital.{nm} changes the manager registry: managers must only be added while indicators are bound (a removed or replaced manager leaves other indicators of that timeframe without candles)"))
    if not n_bad:
        res.ok(rule, {"class": "Hexital", "why": "self._candles is written only in __init__ and _validate_indicators"}, nontrivial="registry")


def check_ctor_effects(prop: str, res: Result, repo: Repo):
    """R-EFFECT: constructing / initialising an indicator does not mutate caller-supplied containers (two indicators configured from
    one dict must not see each other)"""
    from .effects import Effects

    rule = "R-EFFECT"
    eff = Effects(repo)
    classes = [repo.cls("hexital.core.indicator", "Indicator"), repo.cls("hexital.core.indicator", "Managed")] + list(repo.shipped())
    seen = set()
    for ci in classes:
        for nm in ("__init__", "__post_init__", "_validate_fields", "_initialise"):
            m = ci.methods.get(nm)
            if m is None or (ci.name, nm) in seen:
                continue
            seen.add((ci.name, nm))
            e = {r for r in eff.effect(m) if r not in ("self", "cls")}
            # **kwargs is a fresh dict owned by the callee
            kw = m.node.args.kwarg.arg if m.node.args.kwarg else None
            e.discard(kw)
            if e:
                for root, node, why in eff.effect_sites(m)[:3]:
                    if root in e:
                        res.fail(rule, finding(prop, rule, m, node, f"{ci.name}.{nm} mutates its argument {root!r} ({why}): indicators configured from the same object interfere"))
            else:
                res.ok(rule, {"entry": f"{ci.name}.{nm}", "mutated arguments": []}, nontrivial=f"{ci.name}.{nm}")


def check_tag_owners(prop: str, res: Result, repo: Repo):
    """R-CALLERS: the conversion tag is cleared only where a candle is (re)built: conversion (tagging right after), raw_copy (fresh
    candle), merge (raw values restored, converted again). Any other clearing re-opens conversion of already converted candles."""
    rule = "R-CALLERS"
    allowed_reset = {("CandlestickType", "conversion"), ("Candle", "raw_copy"), ("Candle", "merge")}
    allowed_tag = {("Candle", "tag"), ("Candle", "reset_candle")}
    bad = 0
    for fi in repo.all_functions():
        who = (fi.cls.name if fi.cls is not None else None, fi.name)
        for c in calls_in(fi.node):
            if call_name(c) == "reset_candle":
                if who in allowed_reset:
                    res.ok(rule, {"site": f"{fi.where} {norm_construct(c)}", "caller": ".".join(x for x in who if x)})
                else:
                    bad += 1
                    res.fail(rule, finding(prop, rule, fi, c, "reset_candle() (clears readings and the conversion tag) is called outside conversion / raw_copy / merge: already converted candles would be converted again on the next append"))
        for st in ast.walk(fi.node):
            if isinstance(st, (ast.Assign, ast.AugAssign, ast.AnnAssign)):
                for t in (st.targets if isinstance(st, ast.Assign) else [st.target]):
                    if isinstance(t, ast.Attribute) and t.attr == "_tag":
                        if who in allowed_tag:
                            res.ok(rule, {"site": f"{fi.where} {norm_construct(st)}", "writer": ".".join(x for x in who if x)})
                        else:
                            bad += 1
                            res.fail(rule, finding(prop, rule, fi, st, "the conversion tag is written outside Candle.tag / Candle.reset_candle"))


def check_candle_geometry_pure(prop: str, res: Result, repo: Repo):
    """R-STATE: a candle's derived geometry is recomputed from its OHLC on every read; nothing is cached on the candle that a
    later merge into the bucket (or a conversion) could leave stale"""
    from .effects import Effects

    rule = "R-STATE"
    eff = Effects(repo)
    ci = repo.cls("hexital.core.candle", "Candle")
    for nm in ("positive", "negative", "realbody", "shadow_upper", "shadow_lower", "high_low"):
        m = ci.methods.get(nm)
        if m is None:
            res.errors.append(f"anchor vanished: Candle.{nm}")
            continue
        decos = [ast.unparse(d) for d in m.node.decorator_list]
        memo = [d for d in decos if any(k in d for k in ("cached_property", "lru_cache", "cache"))]
        if memo:
            res.fail(rule, finding(prop, rule, m, m.node, f"Candle.{nm} is memoised (@{memo[0]}): the value computed from the bucket's first prices is kept while Candle.merge / a conversion rewrites the prices, so live and batch results differ", construct=f"Candle.{nm}: @{memo[0]}"))
            continue
        if not eff.effect(m):
            res.ok(rule, {"entry": f"Candle.{nm}", "effect_set": []}, nontrivial=f"Candle.{nm}")
        else:
            for root, node, why in eff.effect_sites(m)[:2]:
                res.fail(rule, finding(prop, rule, m, node, f"Candle.{nm} stores state on the candle ({why}): a bucket that is merged into after a pattern looked at it keeps its pre-merge geometry, so live and batch results differ"))


def check_regkey(prop: str, res: Result, repo: Repo):
    """R-REGKEY: a timeframe is spelled the same way by the indicator (key used to look its manager up) and by the manager (key it is
    registered under): both apply the same canonicalisation (upper-case / enum value) and nothing else"""
    rule = "R-REGKEY"
    vt = repo.func("hexital.utils.timeframe", "validate_timeframe")
    cm = repo.method("hexital.core.candle_manager", "CandleManager", "__init__")

    class _Sub(ast.NodeTransformer):
        def __init__(self, name, val):
            self.name, self.val = name, val

        def visit_Name(self, node):
            return copy.deepcopy(self.val) if node.id == self.name and isinstance(node.ctx, ast.Load) and self.val is not None else node

    def forms(fn, param, sink):
        """spellings of the key, path by path: the value that reaches `sink` ('return' or an attribute target) with earlier
        re-assignments of the parameter substituted; the unchanged parameter itself is not a spelling"""
        out = set()
        for path in stmt_paths(fn.node.body):
            if path and isinstance(path[-1], ast.Raise):
                continue
            env, got = {}, None  # local name -> its value in terms of the original parameter

            def sub(e):
                e = copy.deepcopy(e)
                for k_, v_ in env.items():
                    e = _Sub(k_, v_).visit(e)
                return e

            for item in path:
                if isinstance(item, ast.Assign):
                    v = sub(item.value)
                    for t in item.targets:
                        if isinstance(t, ast.Name):
                            env[t.id] = v
                    if sink != "return" and any(ast.unparse(t) == sink for t in item.targets):
                        got = v
                elif isinstance(item, ast.Return) and sink == "return" and item.value is not None:
                    got = sub(item.value)
            if got is not None and ast.unparse(got) != param:
                out.add(ast.unparse(got).replace(param, "<tf>"))
        return out

    vparam = next((a.arg for a in vt.node.args.args), "timeframe")
    vforms = forms(vt, vparam, "return")
    mparam = "timeframe"
    mforms = forms(cm, mparam, "self.timeframe")
    # an explicit `self.timeframe = None` is the class default spelled out (no timeframe): not a spelling of a key
    cmc = repo.cls("hexital.core.candle_manager", "CandleManager")
    dflt = [st.value for st in cmc.node.body if isinstance(st, (ast.Assign, ast.AnnAssign)) and st.value is not None and ast.unparse(st.targets[0] if isinstance(st, ast.Assign) else st.target) == "timeframe"]
    if dflt and all(isinstance(d, ast.Constant) and d.value is None for d in dflt):
        mforms.discard("None")
    if mforms == {"validate_timeframe(<tf>)"} or (mforms and mforms == vforms):
        res.ok(rule, {"indicator side": sorted(vforms), "manager side": sorted(mforms), "why": "same spelling on both sides of the registry"}, nontrivial="regkey")
    else:
        res.fail(rule, finding(prop, rule, cm, cm.node, f"CandleManager spells its timeframe by {sorted(mforms)} while indicators are looked up by {sorted(vforms)}: a manager registered under one spelling is not found under the other, so a second manager is created and the first one is no longer fed", construct="CandleManager.__init__: timeframe spelling " + ", ".join(sorted(mforms))))
    nm = repo.cls("hexital.core.candle_manager", "CandleManager").methods.get("name")
    if nm is not None:
        good, seen = True, 0
        for p in stmt_paths(nm.node.body):
            ret = next((x for x in reversed(p) if isinstance(x, ast.Return)), None)
            if ret is None or ret.value is None:
                continue
            seen += 1
            conds = [(ast.unparse(item[1].test), item[2]) for item in p if isinstance(item, tuple) and item[0] == "if"]
            has_tf = ("self.timeframe", True) in conds
            no_tf = ("self.timeframe", False) in conds or not conds
            v = ast.unparse(ret.value)
            if not ((v == "self.timeframe" and has_tf) or (v == "DEFAULT_CANDLES" and no_tf and not has_tf) or v == "self.timeframe if self.timeframe else DEFAULT_CANDLES" or v == "self.timeframe or DEFAULT_CANDLES"):
                good = False
        if good and seen:
            res.ok(rule, {"site": nm.where, "name": "self.timeframe if set, else DEFAULT_CANDLES"})
        else:
            res.fail(rule, finding(prop, rule, nm, nm.node, "CandleManager.name must be its timeframe (DEFAULT_CANDLES without one)", construct="CandleManager.name"))


def check_registry_order(prop: str, res: Result, repo: Repo):
    """R-REGORDER: indicators are registered (and therefore calculated) in the order they were given, whatever form each has: an
    indicator whose input is another indicator's output is calculated after it"""
    rule = "R-REGORDER"
    vi = repo.method("hexital.core.hexital", "Hexital", "_validate_indicators")
    param = next((a.arg for a in vi.node.args.args if a.arg != "self"), "indicators")
    ret = [n.value for n in ast.walk(vi.node) if isinstance(n, ast.Return) and isinstance(n.value, ast.Name)]
    if not ret:
        res.errors.append(f"{vi.where}: _validate_indicators does not return a named registry")
        return
    reg = ret[-1].id
    regs = {reg}  # the returned registry and the names it is a plain copy of
    grew = True
    while grew:
        grew = False
        for n in ast.walk(vi.node):
            if isinstance(n, ast.Assign) and isinstance(n.value, ast.Name) and n.value.id not in regs and any(isinstance(t, ast.Name) and t.id in regs for t in n.targets):
                regs.add(n.value.id)
                grew = True
    writers = []
    for n in ast.walk(vi.node):
        if isinstance(n, ast.For):
            if any(isinstance(st, ast.Assign) and any(isinstance(t, ast.Subscript) and ast.unparse(t.value) in regs for t in st.targets) for st in ast.walk(n)):
                writers.append(n)
        if isinstance(n, ast.Assign) and any(isinstance(t, ast.Name) and t.id in regs for t in n.targets) and isinstance(n.value, (ast.DictComp, ast.Call)) and not (isinstance(n.value, ast.Call) and not n.value.args and not n.value.keywords):
            writers.append(n)
    loops = [w for w in writers if isinstance(w, ast.For)]
    it = loops[0].iter if loops else None
    if isinstance(it, ast.BoolOp) and isinstance(it.op, ast.Or) and len(it.values) == 2 and isinstance(it.values[1], (ast.List, ast.Tuple)) and not it.values[1].elts:
        it = it.values[0]  # `given or []`
    if isinstance(it, ast.IfExp) and isinstance(it.orelse, (ast.List, ast.Tuple)) and not it.orelse.elts and ast.unparse(it.test) == ast.unparse(it.body):
        it = it.body  # the same default, spelled as a conditional
    def _in_given_order(e) -> bool:
        """the given sequence itself, or an order-preserving element-wise view of it (map(f, given), a generator / list over it)"""
        if ast.unparse(e) == param:
            return True
        if isinstance(e, ast.Call) and isinstance(e.func, ast.Name) and e.func.id == "map" and len(e.args) == 2 and not e.keywords:
            return _in_given_order(e.args[1])
        if isinstance(e, ast.Call) and isinstance(e.func, ast.Name) and e.func.id in ("list", "tuple", "iter") and len(e.args) == 1 and not e.keywords:
            return _in_given_order(e.args[0])
        if isinstance(e, (ast.GeneratorExp, ast.ListComp)) and len(e.generators) == 1 and not e.generators[0].ifs:
            return _in_given_order(e.generators[0].iter)
        return False

    comp = writers[0].value if len(writers) == 1 and isinstance(writers[0], ast.Assign) and isinstance(writers[0].value, ast.DictComp) else None
    if len(writers) == 1 and len(loops) == 1 and ast.unparse(it) == param:
        res.ok(rule, {"site": vi.where, "why": f"one loop over `{param}` fills the registry: insertion order = given order"}, nontrivial="regorder")
    elif comp is not None and len(comp.generators) == 1 and _in_given_order(comp.generators[0].iter):
        res.ok(rule, {"site": vi.where, "why": f"one dict comprehension over `{param}` (element-wise, order-preserving) fills the registry: insertion order = given order"}, nontrivial="regorder")
    else:
        res.fail(rule, finding(prop, rule, vi, writers[1] if len(writers) > 1 else vi.node, "the registry is filled by more than one pass over the given indicators (e.g. objects first, dicts later): the calculation order no longer follows the given order, so a chained indicator can be calculated before its input", construct=f"_validate_indicators: {len(writers)} registry writers"))


def check_name_matching(prop: str, res: Result, repo: Repo):
    """R-SELECT: Hexital resolves indicators by exact name only: no prefix / suffix / substring matching on names anywhere in the class"""
    rule = "R-SELECT"
    hx = repo.cls("hexital.core.hexital", "Hexital")
    bad = 0
    for nm, m in hx.methods.items():
        for n in ast.walk(m.node):
            if isinstance(n, ast.Call) and isinstance(n.func, ast.Attribute) and n.func.attr in ("startswith", "endswith", "find", "rfind", "match", "search", "fullmatch"):
                bad += 1
                res.fail(rule, finding(prop, rule, m, n, f"Hexital.{nm} matches indicator names by {n.func.attr}(): 'SMA_3' then also answers for 'SMA_3_T5' or 'SMA_30' (the wrong series / manager)"))
            if isinstance(n, ast.Compare) and len(n.ops) == 1 and isinstance(n.ops[0], (ast.In, ast.NotIn)):
                rhs = ast.unparse(n.comparators[0])
                if "_indicators" in rhs or "_candles" in rhs or isinstance(n.comparators[0], (ast.Tuple, ast.List, ast.Set, ast.Dict)):
                    continue
                if isinstance(n.comparators[0], ast.Name) and "name" in rhs:
                    bad += 1
                    res.fail(rule, finding(prop, rule, m, n, f"Hexital.{nm} tests a name by substring containment"))
    if not bad:
        res.ok(rule, {"class": "Hexital", "why": "names are compared with == / looked up as dictionary keys only"}, nontrivial="exact-names")


def check_selection(prop: str, res: Result, repo: Repo):
    """R-SELECT: an operation given a name touches that indicator only; 'all indicators' is reachable only when no name was given"""
    rule = "R-SELECT"
    hx = repo.cls("hexital.core.hexital", "Hexital")
    todo = [hx.methods[n] for n in ("purge", "calculate", "calculate_index") if n in hx.methods]
    seen = set()

    def enumerates_all(node) -> bool:
        t = ast.unparse(node)
        return "self._indicators.items()" in t or "self._indicators.values()" in t or t == "self._indicators"

    while todo:
        m = todo.pop()
        if m.name in seen:
            continue
        seen.add(m.name)
        params = [a.arg for a in m.node.args.args]
        np = "name" if "name" in params else None
        for c in calls_in(m.node):
            if isinstance(c.func, ast.Attribute) and ast.unparse(c.func.value) == "self" and c.func.attr in hx.methods and c.func.attr.startswith("_") and any("name" in ast.unparse(a) for a in list(c.args) + [k.value for k in c.keywords]):
                todo.append(hx.methods[c.func.attr])
        if np is None:
            continue
        n_sites = 0
        for p in stmt_paths(m.node.body):
            conds = []
            for item in p:
                if isinstance(item, tuple) and item and item[0] == "if":
                    conds.append((item[1].test, item[2]))
                    continue
                st = item
                if isinstance(item, tuple) and item and item[0] == "loop-enter":
                    st = item[1]
                if not isinstance(st, ast.AST):
                    continue
                expr = st.iter if isinstance(st, ast.For) else st
                if not enumerates_all(expr):
                    continue
                n_sites += 1
                dominated = any((ast.unparse(t) == f"{np} is None" and truth) or (ast.unparse(t) == f"{np} is not None" and not truth) for t, truth in conds)
                if not dominated and isinstance(expr, ast.IfExp):
                    # `A if C else B`: the arm that enumerates everything must be the one taken when no name is given
                    t = ast.unparse(expr.test)
                    all_in_body, all_in_else = enumerates_all(expr.body), enumerates_all(expr.orelse)
                    if (all_in_body and not all_in_else and t == f"{np} is None") or (all_in_else and not all_in_body and t == f"{np} is not None"):
                        dominated = True
                filtered = False
                if isinstance(st, ast.For):
                    filtered = all(isinstance(b, ast.If) and any(isinstance(x, ast.Compare) and isinstance(x.ops[0], ast.Eq) and np in {ast.unparse(x.left), ast.unparse(x.comparators[0])} for x in ast.walk(b.test)) for b in st.body)
                if dominated or filtered:
                    res.ok(rule, {"site": f"{m.where} {norm_construct(expr)[:80]}", "why": "all indicators only when no name is given / filtered by name equality"}, nontrivial=f"select:{m.name}")
                else:
                    res.fail(rule, finding(prop, rule, m, st, f"Hexital.{m.name} can run over every indicator although a name was given (e.g. a name that is not registered): an operation aimed at one indicator then purges / recalculates the others"))
    return


def check_lifespan_flow(prop: str, res: Result, repo: Repo):
    """R-TRIM: the lifespan the trim predicate subtracts is the very timedelta the user configured (stored as given, compared as a timedelta)"""
    rule = "R-TRIM"
    cm = repo.method("hexital.core.candle_manager", "CandleManager", "__init__")
    st = [n for n in ast.walk(cm.node) if isinstance(n, ast.Assign) and any(ast.unparse(t) == "self.candles_lifespan" for t in n.targets)]
    if len(st) == 1 and isinstance(st[0].value, ast.Name) and st[0].value.id in [a.arg for a in cm.node.args.args]:
        res.ok(rule, {"site": cm.where, "store": ast.unparse(st[0])}, nontrivial="lifespan:store")
    else:
        res.fail(rule, finding(prop, rule, cm, st[0] if st else cm.node, "CandleManager must keep the configured lifespan unchanged (self.candles_lifespan = <parameter>): a converted / reduced value changes which candles are retained", construct="CandleManager.__init__: candles_lifespan"))
    # timedelta components are never a substitute for the whole span
    for mod in ["hexital.core.candle_manager", "hexital.utils.timeframe", "hexital.core.hexital"] + sorted(m for m in repo.modules if m.startswith("hexital.utils.") and m != "hexital.utils.timeframe"):
        mi = repo.module(mod)
        for n in ast.walk(mi.tree):
            if isinstance(n, ast.Attribute) and n.attr in ("seconds", "microseconds") and isinstance(n.ctx, ast.Load) and not (isinstance(n.value, ast.Name) and n.value.id in ("self",)):
                par_call = False
                res.fail("R-UNITS", finding(prop, "R-UNITS", mi, n, f"`.{n.attr}` is only the sub-day component of a timedelta (use total_seconds()): spans of a day or more are silently reduced"))
    res.ok("R-UNITS", {"modules": 3, "why": "no timedelta component (.seconds/.microseconds) stands in for a span"})
