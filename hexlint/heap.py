"""Heap-style abstract interpreter for the candle / manager / candlestick code: objects are symbolic,
attribute loads give atoms ('attr', object, field) unless stored earlier on the path (flow-sensitive)."""
from __future__ import annotations

import ast
from typing import Dict, List, Optional

from . import poly
from .absint import BoolV, DictV, Interp, ListV, NoneV, Num, Obj, Opaque, State, Str, Val, c_not
from .model import ClassInfo, FuncInfo, ModuleInfo, Repo
from .poly import A, C, Frac, ONE, ZERO, mk_fn


class HeapInterp(Interp):
    """values: Obj('obj', name) symbolic objects; Obj('list', name) symbolic lists"""

    def __init__(self, repo: Repo, mod: ModuleInfo):
        super().__init__()
        self.repo, self.mod = repo, mod
        self.effects_log: List[tuple] = []

    def name(self, st, ident, node):
        if ident in ("True", "False"):
            return BoolV(ident == "True")
        r = self.repo.resolve(self.mod, ident)
        if isinstance(r, FuncInfo):
            return Obj("func", r)
        if isinstance(r, ClassInfo):
            return Obj("class", r)
        if isinstance(r, ModuleInfo):
            return Obj("module", r)
        imp = self.mod.imports.get(ident)
        if imp:
            return Obj("ext", ".".join(imp[1:]))
        return Opaque(f"name {ident}")

    def attr(self, st, base, name, node):
        if isinstance(base, Obj) and base.kind == "obj":
            return Num(A("attr", base.data, name))
        if isinstance(base, Obj) and base.kind == "list" and name in ("append", "extend", "insert", "pop"):
            return Obj("bound", (base, name))
        if isinstance(base, Num):
            # attribute of a computed value (e.g. timedelta.seconds): opaque function of it
            return Num(mk_fn("." + name, base.f))
        return Opaque(f"attr .{name} of {base!r}")

    def subscript(self, st, base, idx, node):
        if isinstance(base, Obj) and base.kind == "list" and isinstance(idx, Num):
            return Obj("obj", f"{base.data}[{idx.f!r}]")
        return Opaque("subscript")

    def length(self, st, v, node):
        if isinstance(v, Obj) and v.kind == "list":
            return Num(A("len", v.data))
        return super().length(st, v, node)

    def truth(self, v, st, node):
        if isinstance(v, Obj) and v.kind == "list":
            return ("nonempty", v.data)
        if isinstance(v, Obj) and v.kind == "obj":
            return True
        return super().truth(v, st, node)

    def is_none(self, v, st, node):
        if isinstance(v, Num):
            a = poly._single_atom(v.f)
            if a is not None and a[0] == "attr":
                return ("isnone", v.f)
            if a is not None:
                return ("isnone", v.f)
            return False
        if isinstance(v, Obj):
            return False
        return super().is_none(v, st, node)

    def call(self, st, node):
        fn = node.func
        args = [self.expr(a, st) for a in node.args]
        kws = {k.arg: self.expr(k.value, st) for k in node.keywords if k.arg}
        if isinstance(fn, ast.Attribute):
            base = self.expr(fn.value, st)
            st.effects.append(("call", base, fn.attr, args, kws, node))
            if isinstance(base, Obj) and base.kind == "list" and fn.attr == "pop" and args and isinstance(args[0], Num):
                return Obj("obj", f"{base.data}.pop({args[0].f!r})")
            if isinstance(base, Obj) and base.kind == "ext":
                return self.ext_call(st, f"{base.data}.{fn.attr}", args, kws, node)
            if isinstance(base, Num):
                return Num(mk_fn("." + fn.attr + "()", base.f, *[a.f for a in args if isinstance(a, Num)]))
            return Opaque(f"call {ast.unparse(fn)}")
        if isinstance(fn, ast.Name):
            tgt = self.expr(fn, st)
            if isinstance(tgt, Obj) and tgt.kind == "func":
                st.effects.append(("call", None, tgt.data.name, args, kws, node))
                return self.repo_call(st, tgt.data, args, kws, node)
            if isinstance(tgt, Obj) and tgt.kind == "class":
                st.effects.append(("new", tgt.data.name, args, kws, node))
                return Obj("new", (tgt.data.name, tuple(args), tuple(sorted(kws.items())), id(node)))
            if isinstance(tgt, Obj) and tgt.kind == "ext":
                return self.ext_call(st, tgt.data, args, kws, node)
        return Opaque(f"call {ast.unparse(fn)}")

    def ext_call(self, st, name, args, kws, node) -> Val:
        nums = [a.f for a in args if isinstance(a, Num)]
        if name.endswith("timedelta") and not args and not kws:
            return Num(ZERO)
        if name.endswith("timedelta") and args and isinstance(args[0], Num) and args[0].f.is_zero():
            return Num(ZERO)
        if name.endswith("datetime.datetime") or name.endswith(".datetime") or name == "datetime.datetime":
            key = ",".join(repr(a) for a in args) + ";" + ",".join(f"{k}={v!r}" for k, v in sorted(kws.items()))
            return Num(A("sym", f"datetime({key})"))
        return Num(mk_fn(name, *nums)) if len(nums) == len(args) and not kws else Opaque(f"call {name}")

    def repo_call(self, st, fi: FuncInfo, args, kws, node) -> Val:
        nums = [a.f for a in args if isinstance(a, Num)]
        if len(nums) == len(args):
            return Num(mk_fn(fi.name, *nums))
        return Opaque(f"call {fi.qualname}")

    def binop(self, op, l, r, st, node):
        # datetime arithmetic: floor division and modulo of durations stay symbolic functions
        return super().binop(op, l, r, st, node)


def final_attr(st: State, obj: str, field: str) -> Val:
    """value of obj.field at the end of a path (stored value or the initial symbolic one)"""
    v = st.heap.get((Obj("obj", obj), field))
    if v is not None:
        return v
    return Num(A("attr", obj, field))
