"""Contracts of the small look-up helpers, decided by evaluating them (convsem) on model candle lists.

The formulas' abstract interpretation (indic.py / absint.py) does not re-analyse `reading_by_candle`, `reading_by_index`,
`reading_count`, `reading_period`, `candles_sum`, the Indicator wrappers around them or `Managed.set_reading` at every use: it relies
on their contracts.  Those contracts were first checked by recognising the helpers' shape; every refactoring round found a new
spelling.  Here each helper is evaluated on a few dozen small model inputs (lists of model candles whose readings are distinct
powers of two, so a sum names exactly the candles it covers; names that are attributes / top-level / helper readings / dotted; stored
None, 0.0, dicts; every kind of index) and the result is compared with the contract written out below.  Evaluation is by the
interpreter over the loaded syntax trees: nothing of /repo is imported or run.  A construct outside the interpreter's subset gives
`undecided`, never a violation."""
from __future__ import annotations

from typing import Any, Dict, List, Optional, Tuple

from . import convsem as cs

_CACHE: Dict[int, Dict[str, Tuple[str, str]]] = {}


def _candle(i: int, ind=None, sub=None):
    return cs.ObjV(f"candle {i}", {"open": 100.0 + i, "high": 110.0 + i, "low": 90.0 + i, "close": 105.0 + i, "volume": 1000 + i, "timestamp": None,
                                   "indicators": dict(ind or {}), "sub_indicators": dict(sub or {}), "clean_values": {}, "_tag": None}, "Candle")


def _series(pattern, name="X", sub=False, value=lambda i: float(2 ** i)):
    """candles whose reading `name` is present where pattern[i] is truthy (pattern element 'N' stores None explicitly)"""
    out = []
    for i, p in enumerate(pattern):
        store = {}
        if p == "N":
            store[name] = None
        elif p == "Z":
            store[name] = 0.0
        elif p:
            store[name] = value(i)
        out.append(_candle(i, ind=None if sub else store, sub=store if sub else None))
    return out


class _Raise(Exception):
    def __init__(self, what):
        self.what = what


_PROPS = {
    "realbody": lambda c: abs(c.attrs["open"] - c.attrs["close"]),
    "high_low": lambda c: abs(c.attrs["high"] - c.attrs["low"]),
    "positive": lambda c: c.attrs["open"] < c.attrs["close"],
}


# ---- the contracts ----------------------------------------------------------------------------------------------------------------


def spec_rbc(c, name):
    if "." in name:
        parts = name.split(".")
        if len(parts) != 2:
            raise _Raise("ValueError")
        main, nested = parts
        for store in (c.attrs["indicators"], c.attrs["sub_indicators"]):
            if main in store:
                r = store[main]
                return r.get(nested) if isinstance(r, dict) else r
        return None
    a = c.attrs.get(name)
    if a is not None:
        return a
    if name in _PROPS:
        return _PROPS[name](c)  # a property of the candle (geometry) is an attribute like any other
    for store in (c.attrs["indicators"], c.attrs["sub_indicators"]):
        if name in store:
            return store[name]
    return None


def _valid(i, n):
    return i is not None and -n <= i < n


def spec_rbi(cl, name, index=-1):
    if not _valid(index, len(cl)):
        return None
    return spec_rbc(cl[index], name)


def spec_count(cl, name):
    n = 0
    for c in reversed(cl):
        if spec_rbc(c, name) is None:
            return n
        n += 1
    return n


def spec_period(cl, period, name, index=None):
    period -= 1
    if index is None:
        index = len(cl) - 1
    elif not _valid(index, len(cl)):
        return False
    if index - period < 0:
        return False
    return all(spec_rbi(cl, name, index - int(p)) is not None for p in (period, period / 2, 0))


def spec_sum(cl, name, length, index=-1):
    n = len(cl)
    if not _valid(index, n):
        return None
    i = index if index >= 0 else n + index
    if not i:
        return None
    i += 1
    length = min(length, n)
    lo = i - length
    window = cl[lo:i] if lo >= 0 else cl[lo:i]  # (a negative start is Python's slice from the end: the existing behaviour)
    return sum(v for v in (spec_rbc(c, name) for c in window) if v is not None)


# ---- evaluation -------------------------------------------------------------------------------------------------------------------


def _same(a, b) -> bool:
    if a is None or b is None:
        return a is None and b is None
    if isinstance(a, bool) or isinstance(b, bool):
        return a is b
    if isinstance(a, (int, float)) and isinstance(b, (int, float)):
        return a == b
    return a == b


def _run(it, fn, args, kwargs=None, bound=cs._MISSING):
    try:
        return ("value", it.call_function(fn, list(args), dict(kwargs or {}), bound_first=bound))
    except cs.Raised as ex:
        return ("raise", str(ex.what).split(":")[0].strip())
    except cs.Undecided as ex:
        return ("undecided", str(ex))
    except RecursionError:
        return ("undecided", "recursion")


def _expect(spec, *a, **k):
    try:
        return ("value", spec(*a, **k))
    except _Raise as ex:
        return ("raise", ex.what)
    except IndexError:
        return ("raise", "IndexError")
    except (TypeError, AttributeError) as ex:
        return ("raise", type(ex).__name__)


def _compare(label, got, want):
    if got[0] == "undecided":
        return ("undecided", f"{label}: {got[1]}")
    if got[0] != want[0]:
        return ("mismatch", f"{label}: the helper {'raises ' + got[1] if got[0] == 'raise' else 'returns ' + repr(got[1])}, the contract is {'to raise ' + want[1] if want[0] == 'raise' else repr(want[1])}")
    if got[0] == "raise":
        return ("ok", "") if got[1] == want[1] or want[1] in got[1] else ("mismatch", f"{label}: raises {got[1]}, the contract is {want[1]}")
    return ("ok", "") if _same(got[1], want[1]) else ("mismatch", f"{label}: returns {got[1]!r}, the contract is {want[1]!r}")


def _fold(results):
    und = next((r for r in results if r[0] == "undecided"), None)
    bad = next((r for r in results if r[0] == "mismatch"), None)
    if bad:
        return bad
    if und:
        return und
    return ("ok", f"{len(results)} model inputs evaluated")


def _rich_candle():
    return _candle(3, ind={"X": 1.0, "D": {"a": 2.0, "b": None}, "N": None, "Z": 0.0, "F": False}, sub={"X": 9.0, "S": 3.0, "N": 5.0, "D2": {"a": 4.0}})


def eval_helpers(repo) -> Dict[str, Tuple[str, str]]:
    key = id(repo)
    if key in _CACHE:
        return _CACHE[key]
    out: Dict[str, Tuple[str, str]] = {}
    MOD = "hexital.utils.candles"

    def module_fn(name):
        f = repo.func(MOD, name)
        mod = f.module.name
        it = cs.Interp(repo, mod, None)
        return it, it.module_func(name)

    # reading_by_candle
    res = []
    for nm in ("X", "S", "N", "Z", "F", "close", "volume", "D", "D.a", "D.b", "D.zz", "X.a", "N.a", "D2.a", "missing", "missing.a", "a.b.c", "realbody", "high_low", "positive"):
        it, fn = module_fn("reading_by_candle")
        if fn is None:
            res.append(("undecided", "reading_by_candle not found"))
            break
        c = _rich_candle()
        res.append(_compare(f"reading_by_candle(candle, {nm!r})", _run(it, fn, [c, nm]), _expect(spec_rbc, c, nm)))
    out["reading_by_candle"] = _fold(res)
    # reading_by_index
    res = []
    for n, idxs in ((4, (-1, 0, 3, -4, 4, -5, 1)), (0, (-1, 0)), (1, (0, -1, 1))):
        for ix in idxs:
            it, fn = module_fn("reading_by_index")
            cl = _series([1] * n)
            res.append(_compare(f"reading_by_index({n} candles, 'X', {ix})", _run(it, fn, [cl, "X", ix]), _expect(spec_rbi, cl, "X", ix)))
    it, fn = module_fn("reading_by_index")
    cl = _series([1, 1, 1])
    res.append(_compare("reading_by_index(3 candles, 'X') [default index]", _run(it, fn, [cl, "X"]), _expect(spec_rbi, cl, "X")))
    out["reading_by_index"] = _fold(res)
    # reading_count
    res = []
    for pat in ([1, 1, 1, 1, 1], [1, 1, 0, 1, 1], [1, 1, 1, 1, 0], [], [0, 0], [1], [1, 1, "Z", 1], [1, "N", 1, 1], [0, 1, 1, 1]):
        it, fn = module_fn("reading_count")
        cl = _series(pat)
        res.append(_compare(f"reading_count(readings {pat})", _run(it, fn, [cl, "X"]), _expect(spec_count, cl, "X")))
    it, fn = module_fn("reading_count")
    cl = _series([0, 1, 1], sub=True)
    res.append(_compare("reading_count(helper readings [0, 1, 1])", _run(it, fn, [cl, "X"]), _expect(spec_count, cl, "X")))
    # dotted names into a dict-valued reading: the field, not the parent dict, decides what counts (a field that is still warming up)
    for pat in ([1, 1, 0, 1, 1], [1, 1, 1, 1, 0], [0, 0, 1, 1]):
        it, fn = module_fn("reading_count")
        cl = _series([1] * len(pat), value=lambda i, pat=pat: {"a": float(2 ** i), "b": float(3 ** i) if pat[i] else None})
        res.append(_compare(f"reading_count(dict readings, 'X.b' present {pat})", _run(it, fn, [cl, "X.b"]), _expect(spec_count, cl, "X.b")))
        res.append(_compare(f"reading_count(dict readings, 'X.a', 'b' present {pat})", _run(it, fn, [cl, "X.a"]), _expect(spec_count, cl, "X.a")))
    out["reading_count"] = _fold(res)
    # reading_period
    res = []
    pats = ([1] * 8, [0, 0, 0, 1, 1, 1, 1, 1], [1, 1, 1, 1, 0, 1, 1, 1], [1, 1, 1, 1, 1, 1, 1, 0], [1, 0, 1, 0, 1, 0, 1, 1], [1, 1, 1, "Z", 1, 1, 1, 1])
    for pat in pats:
        for period in (1, 2, 3, 4, 5, 8, 9):
            for ix in (None, 7, 4, -1, 0, 8, -9):
                it, fn = module_fn("reading_period")
                cl = _series(pat)
                kw = {} if ix is None else {"index": ix}
                res.append(_compare(f"reading_period(readings {pat}, period={period}, index={ix})", _run(it, fn, [cl, period, "X"], kw), _expect(spec_period, cl, period, "X", ix)))
    out["reading_period"] = _fold(res)
    # candles_sum
    res = []
    for pat in ([1, 1, 1, 1, 1, 1], [1, 1, 0, 1, "N", 1], [0, 0, 0, 1, 1, 1]):
        for length in (1, 2, 3, 6, 10):
            for ix in (-1, 5, 3, 1, 0, -6, 6, -7, 2):
                it, fn = module_fn("candles_sum")
                cl = _series(pat)
                res.append(_compare(f"candles_sum(readings {pat}, length={length}, index={ix})", _run(it, fn, [cl, "X", length, ix]), _expect(spec_sum, cl, "X", length, ix)))
    it, fn = module_fn("candles_sum")
    cl = _series([1, 1, 1, 1])
    res.append(_compare("candles_sum(4 readings, length=2) [default index]", _run(it, fn, [cl, "X", 2]), _expect(spec_sum, cl, "X", 2)))
    out["candles_sum"] = _fold(res)

    # ---- index helpers
    IXMOD = "hexital.utils.indexing"

    def ix_fn(name):
        f = repo.func(IXMOD, name)
        it_ = cs.Interp(repo, f.module.name, None)
        return it_, it_.module_func(name)

    def s_valid(i, n):
        return _valid(i, n)

    def s_abs(i, n):
        if i is None:
            return n - 1
        if not _valid(i, n):
            return None
        return n + i if i < 0 else i

    def s_validate(i, n, default=-1):
        if i is None:
            i = default
        return i if _valid(i, n) else None

    for hname, spec, extra in (("valid_index", s_valid, [()]), ("absindex", s_abs, [()]), ("validate_index", s_validate, [(), (0,), (-2,)])):
        res = []
        for n in (0, 1, 3):
            for i in (None, 0, 1, 2, 3, -1, -2, -3, -4):
                for ex in extra:
                    it_, fn_ = ix_fn(hname)
                    if fn_ is None:
                        res.append(("undecided", f"{hname} not found"))
                        continue
                    res.append(_compare(f"{hname}({i}, {n}{''.join(', ' + str(x) for x in ex)})", _run(it_, fn_, [i, n, *ex]), _expect(spec, i, n, *ex)))
        out[hname] = _fold(res)

    # ---- Indicator wrappers: defaults (own name, active index; index 0 is a position, not "no index")
    IMOD, ICLS = "hexital.core.indicator", "Indicator"

    def indicator(active, pat=(1, 1, 1, 1, 1, 1), own="X"):
        cl = _series(list(pat), name="X")
        for i, c in enumerate(cl):
            c.attrs["indicators"]["Y"] = float(3 ** (i + 1))
        return cs.ObjV("self", {"candles": cl, "name": own, "_active_index": active, "sub_indicators": {}, "managed_indicators": {}}, ICLS), cl

    def wrap(meth, cases, spec):
        res = []
        for active, args, kwargs in cases:
            it = cs.Interp(repo, IMOD, ICLS)
            fn = it.method(meth)
            if fn is None:
                res.append(("undecided", f"Indicator.{meth} not found"))
                break
            selfo, cl = indicator(active)
            res.append(_compare(f"Indicator.{meth}({', '.join(map(repr, args))}{', ' if args and kwargs else ''}{', '.join(f'{k}={v!r}' for k, v in kwargs.items())}) with active index {active}", _run(it, fn, args, kwargs, bound=selfo), _expect(spec, cl, active, *args, **kwargs)))
        out[f"Indicator.{meth}"] = _fold(res)

    def s_reading(cl, active, name=None, index=None):
        i = index if index is not None else active
        return spec_rbc(cl[i], name if name else "X")

    wrap("reading", [(3, [], {}), (3, ["Y"], {}), (3, [], {"index": 0}), (0, [], {}), (3, [""], {"index": 1}), (3, [], {"index": -1}), (3, ["Y"], {"index": 5}), (2, [None, None], {}), (3, [], {"index": 6})], s_reading)

    def s_prev(cl, active, name=None):
        if len(cl) == 0 or active == 0:
            return None
        return spec_rbc(cl[active - 1], name if name else "X")

    wrap("prev_reading", [(3, [], {}), (0, [], {}), (1, [], {}), (3, ["Y"], {}), (3, [""], {}), (5, [], {})], s_prev)
    wrap("prev_exists", [(3, [], {}), (0, [], {}), (1, ["Y"], {}), (3, ["missing"], {})], lambda cl, a, name=None: s_prev(cl, a, name) is not None)
    wrap("reading_count", [(3, [], {}), (3, ["Y"], {}), (3, ["missing"], {})], lambda cl, a, name=None: spec_count(cl, name if name else "X"))
    wrap("reading_period", [(3, [2], {}), (3, [4], {}), (3, [5], {}), (0, [1], {}), (3, [2, "Y"], {}), (3, [2], {"index": 0}), (3, [1], {"index": 0}), (5, [6], {}), (3, [3], {"index": 5})],
         lambda cl, a, period, name=None, index=None: spec_period(cl, period, name if name else "X", index if index is not None else a))
    wrap("candles_sum", [(3, [], {}), (3, [2], {}), (3, [3, "Y"], {}), (3, [2], {"index": 0}), (0, [2], {}), (5, [10], {}), (3, [2], {"index": 5})],
         lambda cl, a, length=1, name=None, index=None: spec_sum(cl, name if name else "X", length, index if index is not None else a))
    # read_candle
    res = []
    for nm in (None, "Y", "", "missing"):
        it = cs.Interp(repo, IMOD, ICLS)
        fn = it.method("read_candle")
        if fn is None:
            break
        selfo, cl = indicator(2)
        res.append(_compare(f"Indicator.read_candle(candle 4, {nm!r})", _run(it, fn, [cl[4]] + ([nm] if nm is not None else []), {}, bound=selfo), _expect(spec_rbc, cl[4], nm if nm else "X")))
    if res:
        out["Indicator.read_candle"] = _fold(res)

    # ---- Managed.set_reading: the reading lands on the candle of the given index (or the active one), helper series, cursor moved
    res = []
    for active, idx in ((1, None), (1, 3), (2, 0), (0, None), (3, -1)):
        it = cs.Interp(repo, IMOD, "Managed")
        fn = it.method("set_reading")
        if fn is None:
            res.append(("undecided", "Managed.set_reading not found"))
            break
        cl = _series([0] * 5)
        events = []
        target = idx if idx is not None else active
        helpers = {}
        for hn, prior in (("P", True), ("Q", False)):
            h = cs.ObjV(f"helper {hn}", {"name": hn, "prior_calc": prior, "_sub_calc_prior": prior, "_sub_indicator": True}, "Indicator")
            h.attrs["calculate_index"] = (lambda a, k, ev=events, c=cl, t=target, n_=hn: ev.append((n_, "calculate_index", tuple(a) + tuple(k.values()), "M" in c[t].attrs["sub_indicators"])))
            h.attrs["calculate"] = (lambda a, k, ev=events, c=cl, t=target, n_=hn: ev.append((n_, "calculate", (), "M" in c[t].attrs["sub_indicators"])))
            helpers[hn] = h
        selfo = cs.ObjV("managed", {"candles": cl, "name": "M", "_active_index": active, "_sub_indicator": True, "sub_indicators": helpers, "managed_indicators": {}}, "Managed")
        R = cs.Sym("the reading", "float")
        got = _run(it, fn, [R] + ([idx] if idx is not None else []), {}, bound=selfo)
        label = f"Managed.set_reading(r{'' if idx is None else ', ' + str(idx)}) with active index {active}"
        if got[0] == "undecided":
            res.append(("undecided", f"{label}: {got[1]}"))
            continue
        if got[0] == "raise":
            res.append(("mismatch", f"{label}: raises {got[1]}"))
            continue
        where = [i for i, c in enumerate(cl) if c.attrs["sub_indicators"].get("M") is R]
        top = [i for i, c in enumerate(cl) if "M" in c.attrs["indicators"]]
        t_abs = target if target >= 0 else len(cl) + target
        if where != [t_abs] or top:
            res.append(("mismatch", f"{label}: the reading is stored on candles {where} (helper series) / {top} (top-level series); the contract is candle {t_abs}, helper series"))
        elif selfo.attrs.get("_active_index") != target:
            res.append(("mismatch", f"{label}: leaves the cursor at {selfo.attrs.get('_active_index')!r}, the contract is {target}"))
        elif events != [(hn, "calculate_index", (target, target + 1), stored) if (target and target + 1) else (hn, "calculate", (), stored) for hn, stored in (("P", False), ("Q", True))]:
            res.append(("mismatch", f"{label}: helper recomputation {events!r}; the contract is the prior helper over [{target}, {target + 1}) before the store, the other one after it (resuming with calculate() when the range starts or ends at 0)"))
        else:
            res.append(("ok", ""))
    out["Managed.set_reading"] = _fold(res)
    _CACHE[key] = out
    return out


def verdict(repo, helper: str) -> Tuple[str, str]:
    try:
        return eval_helpers(repo).get(helper, ("undecided", f"no model for {helper}"))
    except Exception as ex:  # an internal error of the evaluator must never look like a verdict
        return ("undecided", f"evaluator error: {type(ex).__name__}: {ex}")
