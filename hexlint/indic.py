"""Indicator vocabulary on top of absint: composition graph (`_initialise`) and the
canonical accessor IR for `_calculate_reading` bodies."""
from __future__ import annotations

import ast
from dataclasses import dataclass, field
from typing import Dict, List, Optional

from . import poly
from .absint import (BoolV, DictV, Interp, ListV, N, NoneV, Num, Obj, Opaque, Path, SeqV, State, Str, T, Unmodelled, Val,
                     c_not)
from .model import AnalysisError, ClassInfo, FuncInfo, Repo
from .poly import A, C, Frac, ONE, ZERO, mk_fn, mk_rd, mk_red, mk_sum

CANDLE_FIELDS = ("open", "high", "low", "close", "volume")

# movement helpers used from indicators: contract (reduction kind, count as function of length, positions)
MOVEMENT_CONTRACT = {
    "highest": ("max", 1),  # window offsets [0, length]  -> count = length + 1
    "lowest": ("min", 1),
    "highestbar": ("argmax", 0),  # offsets [0, length)
    "lowestbar": ("argmin", 0),
}


@dataclass
class Helper:
    role: str  # sub-prior | sub-post | managed
    key: Optional[str]  # managed key
    cls: ClassInfo
    kwargs: Dict[str, Val]
    name: str  # name template in the root owner's vocabulary, e.g. "<name>_atr"
    parent: Optional["Helper"]
    node: ast.AST
    children: List["Helper"] = field(default_factory=list)
    depth: int = 1

    def walk(self):
        yield self
        for c in self.children:
            yield from c.walk()

    def describe(self) -> str:
        kw = ", ".join(f"{k}={_short(v)}" for k, v in sorted(self.kwargs.items()) if k != "fullname_override")
        return f"{self.role}:{self.cls.name}({kw}) as {self.name!r}"


def _short(v: Val) -> str:
    if isinstance(v, Num):
        return repr(v.f)
    if isinstance(v, Str):
        return repr(v.s)
    return repr(v)


@dataclass
class CompTree:
    owner: ClassInfo
    roots: List[Helper] = field(default_factory=list)
    problems: List[tuple] = field(default_factory=list)

    def all(self) -> List[Helper]:
        out = []
        for r in self.roots:
            out.extend(r.walk())
        return out

    def by_name(self) -> Dict[str, Helper]:
        return {h.name: h for h in self.all()}

    def managed(self, key: str) -> Optional[Helper]:
        for r in self.roots:
            if r.role == "managed" and r.key == key:
                return r
        return None

    def max_depth(self) -> int:
        return max((h.depth for h in self.all()), default=0)


class IndicatorInterp(Interp):
    def __init__(self, repo: Repo, ci: ClassInfo, tree: Optional[CompTree] = None, self_name: str = "<name>"):
        super().__init__()
        self.repo, self.ci, self.tree = repo, ci, tree
        self.fields = repo.all_fields(ci)
        self.self_name = self_name
        self.inline_depth = 0
        self.field_overrides: Dict[str, Val] = {}

    # ---------- vocabulary
    def name(self, st, ident, node):
        if ident == "self":
            return Obj("self")
        if ident in ("True", "False"):
            return BoolV(ident == "True")
        r = self.repo.resolve(self.ci.module, ident)
        if isinstance(r, ClassInfo):
            return Obj("class", r)
        if isinstance(r, FuncInfo):
            return Obj("func", r)
        if r is not None and not isinstance(r, tuple):
            return Obj("module", r)
        imp = self.ci.module.imports.get(ident)
        if imp:
            return Obj("extmod", ".".join(imp[1:]))
        return Opaque(f"name {ident}")

    def cfg_value(self, fname: str) -> Val:
        if fname in self.field_overrides:
            return self.field_overrides[fname]
        fi = self.fields[fname]
        if not fi.init and fi.has_default and isinstance(fi.default, ast.Constant) and not self._assigned_elsewhere(fname):
            v = fi.default.value
            if isinstance(v, str):
                return Str(v)
            if isinstance(v, bool):
                return BoolV(v)
            if isinstance(v, (int, float)):
                from fractions import Fraction

                return Num(C(Fraction(str(v))))
        if fname == "input_value":
            return Str("<input>")
        ann = ast.unparse(fi.annotation) if fi.annotation is not None else ""
        if "str" in ann and "int" not in ann:
            return Str(f"<{fname}>")
        return Num(A("cfg", fname))

    def _assigned_elsewhere(self, fname: str) -> bool:
        """is self.<fname> stored by any method of the class (then its declared default is not its value)"""
        cache = self.__dict__.setdefault("_assigned", {})
        if fname not in cache:
            hit = False
            for c in self.repo.mro(self.ci):
                for m in list(c.methods.values()) + list(c.setters.values()):
                    for n in ast.walk(m.node):
                        if isinstance(n, ast.Attribute) and isinstance(n.ctx, (ast.Store, ast.Del)) and n.attr == fname and isinstance(n.value, ast.Name) and n.value.id == "self":
                            hit = True
            cache[fname] = hit
        return cache[fname]

    def attr(self, st, base, name, node):
        if isinstance(base, Obj) and base.kind == "self":
            if name == "name":
                return Str(self.self_name)
            if name == "candles":
                return Obj("candles")
            if name in ("managed_indicators", "sub_indicators"):
                return Obj(name)
            if name == "_active_index":
                st.site("active-index-read", node)
                return Num(T)
            if name in self.fields:
                return self.cfg_value(name)
            m = self.repo.find_method(self.ci, name)
            if m is not None and m.kind == "property":
                st.site("self-property", node, name=name)
                return Opaque(f"property self.{name}")
            st.site("self-attr-unknown", node, name=name)
            return Opaque(f"self.{name}")
        if isinstance(base, Obj) and base.kind == "candle":
            pos = base.data
            if name in CANDLE_FIELDS:
                return Num(mk_rd(name, pos))
            if name in ("indicators", "sub_indicators"):
                return Obj("cand-" + name, pos)
            if name == "timestamp":
                return Opaque("timestamp")
            return Opaque(f"candle.{name}")
        if isinstance(base, Obj) and base.kind in ("module", "extmod"):
            if base.kind == "module":
                r = self.repo.resolve(base.data, name)
                if isinstance(r, FuncInfo):
                    return Obj("func", r)
                if isinstance(r, ClassInfo):
                    return Obj("class", r)
                if r is not None and not isinstance(r, tuple):
                    return Obj("module", r)
            return Obj("extfunc", f"{base.data if base.kind == 'extmod' else base.data.name}.{name}")
        if isinstance(base, Obj) and base.kind in ("managed", "sub"):
            return Obj("helper-attr", (base, name))
        return Opaque(f"attr .{name} of {base!r}")

    def subscript(self, st, base, idx, node):
        if isinstance(base, Obj) and base.kind == "candles":
            if isinstance(idx, Num):
                st.site("read", node, name=None, pos=idx.f, how="candle-subscript", guarded=False)
                return Obj("candle", idx.f)
            return Opaque("candles[non-number]")
        if isinstance(base, Obj) and base.kind == "managed_indicators" and isinstance(idx, Str):
            st.site("managed-key", node, key=idx.s)
            return Obj("managed", idx.s)
        if isinstance(base, Obj) and base.kind == "sub_indicators" and isinstance(idx, Str):
            return Obj("sub", idx.s)
        if isinstance(base, Obj) and base.kind in ("cand-indicators", "cand-sub_indicators") and isinstance(idx, Str):
            st.site("read", node, name=idx.s, pos=base.data, how="direct-dict", guarded=False)
            return Num(mk_rd(idx.s, base.data))
        # a dict-valued reading held in a local:  data = self.reading("x_data") ; data["field"]
        if isinstance(base, Num) and isinstance(idx, Str):
            a = poly._single_atom(base.f)
            if a is not None and a[0] == "rd" and isinstance(a[1], str) and "." not in a[1]:
                st.site("read", node, name=f"{a[1]}.{idx.s}", pos=a[2], how="dict-field", guarded=True)
                return Num(mk_rd(f"{a[1]}.{idx.s}", a[2]))
        return Opaque("subscript")

    def slice(self, st, base, lo, hi, node):
        if isinstance(base, Obj) and base.kind == "candles":
            if isinstance(lo, Num) and isinstance(hi, Num) and getattr(node.slice, "step", None) is None:
                # self.candles[lo:hi] as the window of candles at positions lo .. hi-1 (the rules demand lo >= 0, hi - 1 <= t and a
                # length bounded by the configuration; a window they reject is reported there)
                var = poly.fresh_bv()
                st.site("candles-window", node, lo=lo.f, hi=hi.f)
                return SeqV(var, hi.f - lo.f, Obj("candle", lo.f + Frac.atom(var)), None)
            st.site("candles-slice", node, lo=lo, hi=hi)
        return Opaque("slice")

    def store_subscript(self, st, base, idx, value, node):
        if isinstance(base, Obj) and base.kind in ("cand-indicators", "cand-sub_indicators") and isinstance(idx, Str):
            st.effects.append(("direct-wr", idx.s, base.data, value, node, base.kind))
            st.site("write", node, name=idx.s, pos=base.data, value=value, how="direct")
            st.written[idx.s] = (value, base.data)
            return
        super().store_subscript(st, base, idx, value, node)

    def store_attr(self, st, base, name, value, node):
        if isinstance(base, Obj) and base.kind == "self":
            st.site("self-store", node, attr=name, value=value)
            return
        if isinstance(base, Obj) and base.kind == "candle":
            st.site("candle-store", node, attr=name, pos=base.data, value=value)
            return
        super().store_attr(st, base, name, value, node)

    def length(self, st, v, node):
        if isinstance(v, Obj) and v.kind == "candles":
            st.site("len-candles", node)
            return Num(N)
        return super().length(st, v, node)

    def isinstance_(self, st, v, typ, node):
        if isinstance(v, DictV):
            return "dict" in ast.unparse(typ)
        if isinstance(v, Num):
            a = poly._single_atom(v.f)
            if a is not None and a[0] == "rd":
                return ("isinstance", a[1], a[2], ast.unparse(typ))
        return ("opaque", ast.unparse(node))

    def reduction_other(self, name, comp, it, st, node):
        st.site("iter-other", node, iter=it)
        return Opaque(f"{name} over {it!r}")

    def listcomp_other(self, node, it, st):
        st.site("iter-other", node, iter=it)
        return Opaque(f"comprehension over {it!r}")

    # ---------- argument binding
    def bind(self, fn: ast.FunctionDef, call: ast.Call, st: State, skip_self=True) -> Dict[str, Optional[Val]]:
        params = [a.arg for a in fn.args.args]
        if skip_self and params and params[0] in ("self", "cls"):
            params = params[1:]
        out: Dict[str, Optional[Val]] = {p: None for p in params + [a.arg for a in fn.args.kwonlyargs]}
        for p, a in zip(params, call.args):
            out[p] = self.expr(a, st)
        for kw in call.keywords:
            if kw.arg is not None:
                out[kw.arg] = self.expr(kw.value, st)
        return out

    def _name_arg(self, v: Optional[Val]) -> str:
        if v is None or isinstance(v, NoneV):
            return self.self_name
        if isinstance(v, Str):
            return v.s if v.s else self.self_name
        return f"<?{v!r}>"

    def _pos_arg(self, v: Optional[Val]) -> Frac:
        if v is None or isinstance(v, NoneV):
            return T
        if isinstance(v, Num):
            return v.f
        return A("sym", f"?pos:{v!r}")

    # ---------- reads
    def read(self, st: State, name: str, pos: Frac, node, how: str, guarded: bool) -> Val:
        st.site("read", node, name=name, pos=pos, how=how, guarded=guarded)
        base, _, fld = name.partition(".")
        if base in st.written and st.written[base][1] == pos:
            v = st.written[base][0]
            if not fld:
                return v
            if isinstance(v, DictV):
                return v.items.get(fld, NoneV())
            if isinstance(v, NoneV):
                return NoneV()
            return Opaque(f"field {fld} of {v!r}")
        return Num(mk_rd(name, pos))

    # ---------- calls
    def call(self, st: State, node: ast.Call) -> Val:
        fn = node.func
        if isinstance(fn, ast.Attribute):
            base = self.expr(fn.value, st)
            if isinstance(base, Obj) and base.kind == "self":
                return self.self_call(st, node, fn.attr)
            if isinstance(base, Obj) and base.kind == "managed":
                return self.managed_call(st, node, base.data, fn.attr)
            if isinstance(base, Obj) and base.kind == "sub":
                st.site("sub-call", node, sub=base.data, method=fn.attr)
                return Opaque(f"call on sub indicator {base.data}.{fn.attr}")
            if isinstance(base, Obj) and base.kind in ("module", "extmod"):
                tgt = self.attr(st, base, fn.attr, node)
                return self.callee(st, node, tgt)
            if isinstance(base, DictV) and fn.attr == "get" and node.args:
                k = self.expr(node.args[0], st)
                if isinstance(k, Str):
                    return base.items.get(k.s, NoneV())
            if isinstance(base, Str):
                st.site("str-method", node, method=fn.attr)
                return Str(f"<{fn.attr}:{base.s}>")
            st.site("unknown-call", node, target=ast.unparse(fn))
            for a in node.args:
                self.expr(a, st)
            return Opaque(f"call {ast.unparse(fn)}")
        if isinstance(fn, ast.Name):
            tgt = self.expr(fn, st)
            return self.callee(st, node, tgt)
        return Opaque("call of expression")

    def callee(self, st: State, node: ast.Call, tgt: Val) -> Val:
        if isinstance(tgt, Obj) and tgt.kind == "func":
            fi: FuncInfo = tgt.data
            if fi.module.name == "hexital.analysis.movement" and fi.name in MOVEMENT_CONTRACT:
                return self.movement_call(st, node, fi)
            st.site("repo-call", node, func=fi)
            for a in node.args:
                self.expr(a, st)
            return Opaque(f"call {fi.qualname}")
        if isinstance(tgt, Obj) and tgt.kind == "extfunc":
            if tgt.data in ("math.sqrt",):
                return self.sqrt(st, node)
            st.site("ext-call", node, func=tgt.data)
            return Opaque(f"call {tgt.data}")
        if isinstance(tgt, Obj) and tgt.kind == "extmod":
            if tgt.data in ("math.sqrt",):
                return self.sqrt(st, node)
            st.site("ext-call", node, func=tgt.data)
            return Opaque(f"call {tgt.data}")
        if isinstance(tgt, Obj) and tgt.kind == "class":
            return Obj("new", (tgt.data, {kw.arg: self.expr(kw.value, st) for kw in node.keywords if kw.arg}, node))
        if isinstance(tgt, Obj) and tgt.kind == "closure":
            return self.inline(st, tgt.data, node, None)
        st.site("unknown-call", node, target=ast.unparse(node.func))
        return Opaque(f"call {ast.unparse(node.func)}")

    def sqrt(self, st, node):
        v = self.expr(node.args[0], st)
        if isinstance(v, Num):
            st.site("sqrt", node, arg=v.f, arg_sign=self.sg(st, v.f))
            return Num(mk_fn("sqrt", v.f))
        return Opaque("sqrt of non-number")

    def movement_call(self, st, node, fi: FuncInfo) -> Val:
        b = self.bind(fi.node, node, st, skip_self=False)
        kind, extra = MOVEMENT_CONTRACT[fi.name]
        name = self._name_arg(b.get("indicator"))
        ln = b.get("length")
        if ln is None:
            dflt = _param_default(fi.node, "length")
            ln = Num(C(dflt)) if dflt is not None else Opaque("length")
        at = self._pos_arg(b.get("index")) if b.get("index") is not None else A("n") - ONE
        if b.get("index") is None:
            st.site("default-index", node, func=fi.name)
        if not isinstance(b.get("candles"), Obj) or b["candles"].kind != "candles":
            st.site("foreign-candles", node, func=fi.name)
        if not isinstance(ln, Num):
            return Opaque("movement length")
        count = ln.f + C(extra)
        var = poly.fresh_bv()
        st.site("read", node, name=name, pos=at - (count - ONE), how=f"movement.{fi.name}", guarded=False, window=(at, count), movement=fi.name)
        st.site("read", node, name=name, pos=at, how=f"movement.{fi.name}", guarded=False, movement=fi.name, top=True)
        st.site("loop", node, count=count, what=f"movement.{fi.name}")
        body = mk_rd(name, at - Frac.atom(var))
        return Num(mk_red(kind, var, count, body, True))

    def self_call(self, st: State, node: ast.Call, meth: str) -> Val:
        base_ind = self.repo.indicator_base()
        m = self.repo.find_method(self.ci, meth)
        if m is None:
            st.site("unknown-call", node, target=f"self.{meth}")
            return Opaque(f"self.{meth}")
        from_base = m.cls is base_ind or m.cls is self.repo.managed()
        if from_base and meth in ("reading", "prev_reading", "prev_exists", "reading_period", "candles_sum"):
            b = self.bind(m.node, node, st)
            if meth == "reading":
                return self.read(st, self._name_arg(b.get("name")), self._pos_arg(b.get("index")), node, "reading", False)
            if meth == "prev_reading":
                return self.read(st, self._name_arg(b.get("name")), T - ONE, node, "prev_reading", True)
            if meth == "prev_exists":
                nm = self._name_arg(b.get("name"))
                st.site("read", node, name=nm, pos=T - ONE, how="prev_exists", guarded=True)
                return BoolV(("present", nm, T - ONE))
            if meth == "reading_period":
                nm = self._name_arg(b.get("name"))
                p = b.get("period")
                at = self._pos_arg(b.get("index"))
                if not isinstance(p, Num):
                    return Opaque("reading_period(period=?)")
                st.site("period-test", node, name=nm, period=p.f, at=at)
                return BoolV(("period", nm, p.f, at))
            if meth == "candles_sum":
                nm = self._name_arg(b.get("name"))
                ln = b.get("length") or Num(ONE)
                at = self._pos_arg(b.get("index"))
                if not isinstance(ln, Num):
                    return Opaque("candles_sum(length=?)")
                var = poly.fresh_bv()
                st.site("read", node, name=nm, pos=at - (ln.f - ONE), how="candles_sum", guarded=False, window=(at, ln.f))
                st.site("read", node, name=nm, pos=at, how="candles_sum", guarded=False, top=True)
                st.site("loop", node, count=ln.f, what="candles_sum")
                st.site("candles-sum-at", node, at=at, name=nm)  # the helper returns None at absolute index 0 (`if not index_: return`)
                return Num(mk_sum(var, ln.f, mk_rd(nm, at - Frac.atom(var))))
        if from_base and meth == "read_candle":
            b = self.bind(m.node, node, st)
            c = b.get("candle")
            if isinstance(c, Obj) and c.kind == "candle" and isinstance(c.data, Frac):
                return self.read(st, self._name_arg(b.get("name")), c.data, node, "read_candle", False)
        if from_base:
            st.site("base-call", node, method=meth, func=m)
            for a in node.args:
                self.expr(a, st)
            return Opaque(f"self.{meth}()")
        # a method of the shipped class itself: inline it (helper extraction is a legal refactor)
        return self.inline(st, m.node, node, m)

    def inline(self, st: State, fn: ast.FunctionDef, call: ast.Call, fi) -> Val:
        if self.inline_depth >= 3:
            st.site("unmodelled", call, why="inline depth")
            return Opaque("inline depth")
        b = self.bind(fn, call, st, skip_self=fi is not None)
        saved = st.env
        st.env = {}
        for p, v in b.items():
            if v is None:
                d = _param_default_node(fn, p)
                v = self.expr(d, st) if d is not None else Opaque(f"missing arg {p}")
            st.env[p] = v
        self.inline_depth += 1
        try:
            outs = self.block(fn.body, st)
        finally:
            self.inline_depth -= 1
        st.env = saved
        rets = [o for o in outs]
        if len(rets) != 1:
            st.site("unmodelled", call, why="inlined callee forks")
            self.unmodelled.append((call, "inlined callee with several paths"))
            return Opaque("inlined callee forks")
        s2, out = rets[0]
        # single path: state was mutated in place (same object)
        return out[1] if out is not None else NoneV()

    def managed_call(self, st: State, node: ast.Call, key: str, meth: str) -> Val:
        h = self.tree.managed(key) if self.tree else None
        hname = h.name if h else f"<managed:{key}>"
        if h is None:
            st.site("dangling-managed", node, key=key)
        if meth == "set_reading":
            v = self.expr(node.args[0], st) if node.args else Opaque("no value")
            pos = T
            idx = None
            if len(node.args) > 1:
                idx = self.expr(node.args[1], st)
            for kw in node.keywords:
                if kw.arg == "index":
                    idx = self.expr(kw.value, st)
                elif kw.arg == "reading":
                    v = self.expr(kw.value, st)
            if idx is not None and not isinstance(idx, NoneV):
                pos = self._pos_arg(idx)
            st.effects.append(("wr", hname, pos, v, node, key))
            st.site("write", node, name=hname, pos=pos, value=v, how="set_reading", key=key)
            st.written[hname] = (v, pos)
            return NoneV()
        if meth == "calculate_index":
            args = [self.expr(a, st) for a in node.args]
            kws = {kw.arg: self.expr(kw.value, st) for kw in node.keywords}
            start = args[0] if args else kws.get("start_index")
            end = args[1] if len(args) > 1 else kws.get("end_index")
            st.effects.append(("drive", hname, start, end, node, key))
            st.site("drive", node, name=hname, start=start, end=end, key=key)
            return NoneV()
        if meth == "reading":
            b = {}
            m = self.repo.find_method(self.repo.indicator_base(), "reading")
            if m:
                b = self.bind(m.node, node, st)
            nm = b.get("name")
            return self.read(st, hname if nm is None else self._name_arg(nm), self._pos_arg(b.get("index")), node, "helper.reading", False)
        if meth in ("calculate", "recalculate", "purge", "as_list", "reading_count"):
            st.site("base-call", node, method=meth, on=hname)
            return Opaque(f"{hname}.{meth}()")
        st.site("helper-call", node, method=meth, on=hname)
        return Opaque(f"{hname}.{meth}()")


def _param_default(fn: ast.FunctionDef, name: str):
    d = _param_default_node(fn, name)
    if isinstance(d, ast.Constant):
        return d.value
    return None


def _param_default_node(fn: ast.FunctionDef, name: str):
    args = fn.args.args
    defaults = fn.args.defaults
    off = len(args) - len(defaults)
    for i, a in enumerate(args):
        if a.arg == name and i >= off:
            return defaults[i - off]
    for a, d in zip(fn.args.kwonlyargs, fn.args.kw_defaults):
        if a.arg == name and d is not None:
            return d
    return None


# ---------------------------------------------------------------------------
# composition graph


def generated_name(repo: Repo, cls: ClassInfo, kwargs: Dict[str, Val]) -> str:
    """evaluate cls._generate_name with fields bound to kwargs / defaults"""
    m = repo.find_method(cls, "_generate_name")
    if m is None:
        return "<?noname>"
    it = IndicatorInterp(repo, cls, None)
    for k, v in kwargs.items():
        it.field_overrides[k] = v
    # defaults for fields not given
    for fname, fi in it.fields.items():
        if fname not in it.field_overrides and fi.has_default and isinstance(fi.default, ast.Constant) and fi.default.value is not None:
            v = fi.default.value
            if isinstance(v, str):
                it.field_overrides[fname] = Str(v)
            elif isinstance(v, (int, float)) and not isinstance(v, bool):
                from fractions import Fraction

                it.field_overrides[fname] = Num(C(Fraction(str(v))))
    st = State()
    paths = it.run(m.node, st)
    if len(paths) == 1 and isinstance(paths[0].ret, Str):
        return paths[0].ret.s
    return "<?generated>"


def helper_name(repo: Repo, cls: ClassInfo, kwargs: Dict[str, Val]) -> str:
    fo = kwargs.get("fullname_override")
    if isinstance(fo, Str) and fo.s:
        name = fo.s
    else:
        name = generated_name(repo, cls, kwargs)
    sfx = kwargs.get("name_suffix")
    if isinstance(sfx, Str) and sfx.s:
        name += "_" + sfx.s
    return name.replace(".", ",")


def build_tree(repo: Repo, ci: ClassInfo) -> CompTree:
    tree = CompTree(ci)
    m = repo.find_method(ci, "_initialise")
    if m is None or m.cls is repo.indicator_base():
        return tree
    it = IndicatorInterp(repo, ci, tree)
    st = State()
    locals_: Dict[str, Helper] = {}

    def new_helper(v: Val, role: str, key, parent: Optional[Helper], node) -> Optional[Helper]:
        if isinstance(v, Obj) and v.kind == "new":
            cls, kwargs, _ = v.data
            h = Helper(role, key, cls, kwargs, helper_name(repo, cls, kwargs), parent, node, depth=(parent.depth + 1 if parent else 1))
            return h
        if isinstance(v, Obj) and v.kind == "helper":
            h = v.data
            h.role, h.key, h.parent, h.depth = role, key, parent, (parent.depth + 1 if parent else 1)
            return h
        tree.problems.append((node, f"helper argument is not a constructor call: {v!r}"))
        return None

    def target_of(expr) -> Optional[object]:
        """self | Helper for the receiver expression of add_*_indicator"""
        if isinstance(expr, ast.Name):
            if expr.id == "self":
                return "self"
            return locals_.get(expr.id)
        if isinstance(expr, ast.Subscript):
            inner = expr.value
            key = it.expr(expr.slice, st)
            if isinstance(inner, ast.Attribute) and inner.attr in ("managed_indicators", "sub_indicators") and isinstance(key, Str):
                owner = target_of(inner.value)
                if owner == "self":
                    if inner.attr == "managed_indicators":
                        return tree.managed(key.s)
                    for r in tree.roots:
                        if r.role != "managed" and r.name == key.s:
                            return r
                elif isinstance(owner, Helper):
                    for c in owner.children:
                        if (inner.attr == "managed_indicators" and c.role == "managed" and c.key == key.s) or (
                            inner.attr == "sub_indicators" and c.role != "managed" and c.name == key.s
                        ):
                            return c
        return None

    for stmt in m.node.body:
        if isinstance(stmt, ast.Expr) and isinstance(stmt.value, ast.Constant):
            continue
        if isinstance(stmt, ast.Return) and stmt.value is None:
            continue
        if isinstance(stmt, ast.Assign) and len(stmt.targets) == 1 and isinstance(stmt.targets[0], ast.Name):
            v = it.expr(stmt.value, st)
            if isinstance(v, Obj) and v.kind == "new":
                cls, kwargs, _ = v.data
                h = Helper("unattached", None, cls, kwargs, helper_name(repo, cls, kwargs), None, stmt)
                locals_[stmt.targets[0].id] = h
                st.env[stmt.targets[0].id] = Obj("helper", h)
            else:
                st.env[stmt.targets[0].id] = v
            continue
        call = stmt.value if isinstance(stmt, ast.Expr) else None
        if isinstance(call, ast.Call) and isinstance(call.func, ast.Attribute) and call.func.attr in ("add_sub_indicator", "add_managed_indicator"):
            owner = target_of(call.func.value)
            if owner is None:
                tree.problems.append((stmt, f"cannot resolve receiver {ast.unparse(call.func.value)}"))
                continue
            parent = None if owner == "self" else owner
            args = [it.expr(a, st) for a in call.args]
            kws = {kw.arg: it.expr(kw.value, st) for kw in call.keywords}
            if call.func.attr == "add_sub_indicator":
                ind = args[0] if args else kws.get("indicator")
                prior = args[1] if len(args) > 1 else kws.get("prior_calc", BoolV(True))
                is_prior = not (isinstance(prior, BoolV) and prior.cond is False)
                h = new_helper(ind, "sub-prior" if is_prior else "sub-post", None, parent, stmt)
            else:
                key = args[0] if args else kws.get("name")
                ind = args[1] if len(args) > 1 else kws.get("indicator")
                if not isinstance(key, Str):
                    tree.problems.append((stmt, "managed key is not a literal"))
                    continue
                h = new_helper(ind, "managed", key.s, parent, stmt)
            if h is not None:
                (parent.children if parent else tree.roots).append(h)
            continue
        tree.problems.append((stmt, f"unmodelled statement in _initialise: {ast.unparse(stmt)[:60]}"))
    return tree


# ---------------------------------------------------------------------------
# per-class analysis


@dataclass
class ClassAnalysis:
    ci: ClassInfo
    tree: CompTree
    fn: Optional[FuncInfo]
    paths: List[Path]
    interp: IndicatorInterp
    error: Optional[str] = None

    def sites(self, kind: Optional[str] = None):
        seen = set()
        for p in self.paths:
            for s in p.state.sites:
                if kind is not None and s.kind != kind:
                    continue
                k = (id(s.node), s.kind, repr(sorted((k2, repr(v)) for k2, v in s.data.items())), repr(s.facts))
                if k in seen:
                    continue
                seen.add(k)
                yield s


_cache: Dict[tuple, ClassAnalysis] = {}


def analyse_class(repo: Repo, ci: ClassInfo) -> ClassAnalysis:
    key = (repo.digest, ci.module.name, ci.name)
    if key in _cache:
        return _cache[key]
    tree = build_tree(repo, ci)
    fn = repo.find_method(ci, "_calculate_reading")
    it = IndicatorInterp(repo, ci, tree)
    ca = ClassAnalysis(ci, tree, fn, [], it)
    if fn is None:
        ca.error = "no _calculate_reading"
    else:
        st = State()
        params = [a.arg for a in fn.node.args.args]
        if len(params) >= 2:
            st.env[params[1]] = Num(T)
        try:
            ca.paths = it.run(fn.node, st)
        except Unmodelled as e:
            ca.error = str(e)
    _cache[key] = ca
    return ca
