"""Load-time inlining of helpers that are not part of the pinned tree's decomposition (hexlint/anchors.py).

An extract-method refactoring moves statements into a new private function / method / property and calls it; the rules (and the
abstract interpreters) are written against the pinned decomposition.  Instead of teaching every rule about every possible helper, the
new helpers are inlined into their callers before anything is indexed.  The transformation is behaviour preserving (it is the inverse
of extract-method) and purely syntactic:

  E  expression helpers   body is (after if-conversion of `x = ..` / `if c: return a` chains) one expression  -> substituted at the call
  S  statement helpers    no value is returned (guard `return`s are turned into nested ifs)                    -> body spliced at a call statement
  R  value helpers        straight-line statements and one trailing `return e`                                -> body spliced, call replaced by e
  T  tail calls           `return helper(...)` with any helper                                                -> body spliced (its returns are the caller's)
  G  generator helpers    `for t in it: [if c:] yield e` iterated by a for loop                               -> loop fused
  P  properties           `@property def _x(self): return e`                                                  -> `recv._x` replaced by e

Helpers are resolved by name; a name defined more than once in the package, a recursive helper or a helper outside these forms is left
alone (the rules then see a call they may not understand and fail closed)."""
from __future__ import annotations

import ast
import copy
from typing import Dict, List, Optional

from .anchors import PINNED_FUNCTIONS

MAX_EXPR_NODES = 600


def _strip_doc(body):
    if body and isinstance(body[0], ast.Expr) and isinstance(body[0].value, ast.Constant) and isinstance(body[0].value.value, str):
        return body[1:]
    return body


class Helper:
    def __init__(self, node: ast.FunctionDef, cls: Optional[str], kind: str):
        self.node, self.cls, self.kind = node, cls, kind  # kind: function | method | static | class | property
        self.name = node.name
        a = node.args
        self.params = [x.arg for x in a.args]
        self.defaults = dict(zip(self.params[len(self.params) - len(a.defaults):], a.defaults))
        for k, d in zip(a.kwonlyargs, a.kw_defaults):
            self.params.append(k.arg)
            if d is not None:
                self.defaults[k.arg] = d
        self.ok_sig = not a.vararg and not a.kwarg and not a.posonlyargs
        self.body = _strip_doc(node.body)
        # a generator that only re-yields other iterables (`yield from A ; yield from B`) is chain(A, B): an expression helper
        if self.body and all(isinstance(st, ast.Expr) and isinstance(st.value, ast.YieldFrom) and _view_expr(st.value.value) for st in self.body):
            ret = ast.Return(value=ast.Call(func=ast.Name(id="chain", ctx=ast.Load()), args=[st.value.value for st in self.body], keywords=[]))
            ast.copy_location(ret, self.body[0])
            ast.fix_missing_locations(ret)
            node.body = node.body[: len(node.body) - len(self.body)] + [ret]
            self.body = [ret]
        self.is_gen = any(isinstance(n, (ast.Yield, ast.YieldFrom)) for n in ast.walk(node))
        self.has_nested = any(isinstance(n, (ast.FunctionDef, ast.AsyncFunctionDef, ast.ClassDef)) for n in ast.walk(node) if n is not node)
        self.assigned = _assigned_names(self.body)


def _view_expr(e) -> bool:
    """an attribute chain, possibly ending in .values() / .items() / .keys(): re-evaluating it later or earlier gives the same live view"""
    if isinstance(e, ast.Call) and isinstance(e.func, ast.Attribute) and e.func.attr in ("values", "items", "keys") and not e.args and not e.keywords:
        e = e.func.value
    while isinstance(e, ast.Attribute):
        e = e.value
    return isinstance(e, ast.Name)


def _assigned_names(stmts) -> set:
    out = set()
    for st in stmts:
        for n in ast.walk(st):
            if isinstance(n, ast.Name) and isinstance(n.ctx, (ast.Store, ast.Del)):
                out.add(n.id)
            elif isinstance(n, (ast.ListComp, ast.SetComp, ast.DictComp, ast.GeneratorExp)):
                pass
    return out


class _Subst(ast.NodeTransformer):
    """replace Name loads by expressions; rename stores"""

    def __init__(self, mp: Dict[str, ast.AST], rename: Dict[str, str]):
        self.mp, self.rename = mp, rename

    def visit_Name(self, node):
        if node.id in self.rename:
            return ast.copy_location(ast.Name(id=self.rename[node.id], ctx=node.ctx), node)
        if isinstance(node.ctx, ast.Load) and node.id in self.mp:
            return copy.deepcopy(self.mp[node.id])
        return node

    def visit_Call(self, node):
        # beta reduction: a parameter bound to a lambda and called in the helper body
        if isinstance(node.func, ast.Name) and isinstance(self.mp.get(node.func.id), ast.Lambda) and node.func.id not in self.rename and not node.keywords:
            lam = self.mp[node.func.id]
            ps = [a.arg for a in lam.args.args]
            if len(ps) == len(node.args) and not lam.args.vararg and not lam.args.kwarg:
                args = [self.visit(a) for a in node.args]
                return _Subst(dict(zip(ps, args)), {}).visit(copy.deepcopy(lam.body))
        self.generic_visit(node)
        return node

    def visit_Lambda(self, node):
        shadow = {a.arg for a in node.args.args}
        inner = _Subst({k: v for k, v in self.mp.items() if k not in shadow}, {k: v for k, v in self.rename.items() if k not in shadow})
        node.body = inner.visit(node.body)
        return node


def _subst(node, mp, rename=None):
    return _Subst(mp, rename or {}).visit(copy.deepcopy(node))


def _size(e) -> int:
    return sum(1 for _ in ast.walk(e))


def _pure_simple(e) -> bool:
    return isinstance(e, (ast.Name, ast.Constant, ast.Attribute)) and (not isinstance(e, ast.Attribute) or _pure_simple(e.value))


def to_expr(stmts, env: Dict[str, ast.AST]) -> Optional[ast.AST]:
    """if-conversion of a straight-line body of assignments, if/else and returns into one expression (None if not of that shape)"""
    if not stmts:
        return None
    st, rest = stmts[0], stmts[1:]
    if isinstance(st, ast.Return):
        if st.value is None:
            return ast.Constant(value=None)
        return _subst(st.value, env)
    if isinstance(st, ast.Assign) and len(st.targets) == 1 and isinstance(st.targets[0], ast.Name):
        env2 = dict(env)
        env2[st.targets[0].id] = _subst(st.value, env)
        return to_expr(rest, env2)
    if isinstance(st, ast.AnnAssign) and isinstance(st.target, ast.Name) and st.value is not None:
        env2 = dict(env)
        env2[st.target.id] = _subst(st.value, env)
        return to_expr(rest, env2)
    if isinstance(st, ast.If):
        a = to_expr(list(st.body) + list(rest), env)
        b = to_expr(list(st.orelse) + list(rest), env)
        if a is None or b is None:
            return None
        out = ast.IfExp(test=_subst(st.test, env), body=a, orelse=b)
        return out if _size(out) <= MAX_EXPR_NODES else None
    if isinstance(st, ast.Pass):
        return to_expr(rest, env)
    return None


def unguard(stmts) -> Optional[list]:
    """statement helper: turn `if c: return` guards into nested ifs; None if a value is returned or a return sits inside a loop"""
    out = []
    for i, st in enumerate(stmts):
        if isinstance(st, ast.Return):
            if st.value is not None and not (isinstance(st.value, ast.Constant) and st.value.value is None):
                return None
            return out  # everything after is dead
        if isinstance(st, ast.If):
            rest = stmts[i + 1 :]
            body_ret = _ends_bare_return(st.body)
            else_ret = _ends_bare_return(st.orelse)
            if body_ret or else_ret or _has_return(st):
                b = unguard(list(st.body) + ([] if body_ret else list(rest))) if not body_ret else unguard(list(st.body))
                e = unguard(list(st.orelse) + list(rest)) if not else_ret else unguard(list(st.orelse))
                if body_ret:
                    b = unguard(list(st.body))
                if b is None or e is None:
                    return None
                new = ast.If(test=st.test, body=b or [ast.Pass()], orelse=e)
                out.append(ast.copy_location(new, st))
                return out
            out.append(st)
            continue
        if _has_return(st):
            return None
        out.append(st)
    return out


def assignify(stmts, target: str) -> Optional[list]:
    """value helper with several returns: `return e` becomes `target = e` and the statements after a returning `if` move into its else
    arm.  None if a return sits inside a loop / try / with."""
    out = []
    for i, st in enumerate(stmts):
        if isinstance(st, ast.Return):
            val = st.value if st.value is not None else ast.Constant(value=None)
            out.append(ast.copy_location(ast.Assign(targets=[ast.Name(id=target, ctx=ast.Store())], value=val), st))
            return out
        if isinstance(st, ast.If) and _has_return(st):
            rest = list(stmts[i + 1 :])
            b = assignify(list(st.body) + ([] if _always_returns(st.body) else rest), target)
            e = assignify(list(st.orelse) + ([] if _always_returns(st.orelse) else rest), target)
            if b is None or e is None:
                return None
            out.append(ast.copy_location(ast.If(test=st.test, body=b or [ast.Pass()], orelse=e), st))
            return out
        if _has_return(st):
            return None
        out.append(st)
    # fell off the end: the helper returns None
    out.append(ast.Assign(targets=[ast.Name(id=target, ctx=ast.Store())], value=ast.Constant(value=None), lineno=stmts[-1].lineno if stmts else 0))
    return out


def _always_returns(stmts) -> bool:
    if not stmts:
        return False
    last = stmts[-1]
    if isinstance(last, (ast.Return, ast.Raise)):
        return True
    if isinstance(last, ast.If) and last.orelse:
        return _always_returns(last.body) and _always_returns(last.orelse)
    return False


def _ends_bare_return(stmts) -> bool:
    return bool(stmts) and isinstance(stmts[-1], ast.Return) and (stmts[-1].value is None or (isinstance(stmts[-1].value, ast.Constant) and stmts[-1].value.value is None))


def _has_return(st) -> bool:
    return any(isinstance(n, ast.Return) for n in ast.walk(st))


class Inliner:
    def __init__(self, trees: List[ast.AST]):
        self.trees = trees
        self.helpers: Dict[str, Helper] = {}
        self.counter = 0
        self.collect()

    # ------------------------------------------------------------------ collection
    def collect(self):
        seen: Dict[str, int] = {}
        cands: Dict[str, Helper] = {}

        def memo_transparent(fn) -> bool:
            """a memoising decorator on a module-level function whose parameters are annotated as immutable scalars and whose body
            reads nothing but them (and module-level constants / functions): the cache cannot change any result"""
            a = fn.args
            if a.vararg or a.kwarg:
                return False
            ok_ann = {"int", "float", "str", "bool", "bytes", "timedelta", "datetime", "date", "tuple", "frozenset", "TimeFrame"}

            def imm(ann) -> bool:
                if ann is None:
                    return False
                if isinstance(ann, ast.Constant) and isinstance(ann.value, str):
                    try:
                        ann = ast.parse(ann.value, mode="eval").body
                    except SyntaxError:
                        return False
                if isinstance(ann, ast.Name):
                    return ann.id in ok_ann
                if isinstance(ann, ast.Attribute):
                    return ann.attr in ok_ann
                if isinstance(ann, ast.Subscript):
                    head = ast.unparse(ann.value).split(".")[-1]
                    if head == "Optional":
                        return imm(ann.slice)
                    if head in ("Tuple", "tuple", "FrozenSet", "frozenset"):
                        elts = ann.slice.elts if isinstance(ann.slice, ast.Tuple) else [ann.slice]
                        return all(isinstance(e, ast.Constant) and e.value is Ellipsis or imm(e) for e in elts)
                    return False
                if isinstance(ann, ast.BinOp) and isinstance(ann.op, ast.BitOr):
                    return all(isinstance(x, ast.Constant) and x.value is None or imm(x) for x in (ann.left, ann.right))
                return False

            if not all(imm(x.annotation) for x in a.args + a.kwonlyargs + a.posonlyargs):
                return False
            if any(isinstance(n, (ast.Global, ast.Nonlocal, ast.Yield, ast.YieldFrom, ast.Await)) for n in ast.walk(fn)):
                return False
            if any(isinstance(n, ast.Attribute) and isinstance(n.ctx, (ast.Store, ast.Del)) for n in ast.walk(fn)):
                return False
            return True

        def deco_kind(fn, in_class):
            kinds = [ast.unparse(d) for d in fn.decorator_list]
            if not kinds:
                return "method" if in_class else "function"
            if not in_class and len(kinds) == 1 and kinds[0].split("(")[0].split(".")[-1] in ("lru_cache", "cache") and memo_transparent(fn):
                return "function"
            if kinds == ["staticmethod"]:
                return "static"
            if kinds == ["classmethod"]:
                return "class"
            if kinds == ["property"]:
                return "property"
            return None

        for t in self.trees:
            for node in t.body:
                if isinstance(node, (ast.FunctionDef,)):
                    seen[node.name] = seen.get(node.name, 0) + 1
                    k = deco_kind(node, False)
                    if k and node.name not in PINNED_FUNCTIONS:
                        cands[node.name] = Helper(node, None, k)
                elif isinstance(node, ast.ClassDef):
                    for m in node.body:
                        if isinstance(m, ast.FunctionDef):
                            seen[m.name] = seen.get(m.name, 0) + 1
                            k = deco_kind(m, True)
                            if k and m.name not in PINNED_FUNCTIONS:
                                cands[m.name] = Helper(m, node.name, k)
        self.by_class = {}
        self.bases = {}
        for t in self.trees:
            for node in t.body:
                if isinstance(node, ast.ClassDef):
                    self.bases[node.name] = [ast.unparse(b).split(".")[-1] for b in node.bases]
                    for m in node.body:
                        if isinstance(m, ast.FunctionDef) and m.name not in PINNED_FUNCTIONS and not (m.name.startswith("__") and m.name.endswith("__")):
                            k = deco_kind(m, True)
                            hh = Helper(m, node.name, k) if k else None
                            if hh and hh.ok_sig and not hh.has_nested and not any(isinstance(n, ast.Call) and _call_name(n) == m.name for n in ast.walk(m)):
                                self.by_class[(node.name, m.name)] = hh
        for name, h in cands.items():
            if seen.get(name, 0) != 1 or not h.ok_sig or h.has_nested:
                continue
            if name.startswith("__") and name.endswith("__"):
                continue
            # not recursive
            if any(isinstance(n, ast.Call) and _call_name(n) == name for n in ast.walk(h.node)):
                continue
            self.helpers[name] = h

    # ------------------------------------------------------------------ binding
    def bind(self, h: Helper, call: Optional[ast.Call], recv: Optional[ast.AST]):
        """param -> argument expression (None if the call cannot be matched)"""
        params = list(h.params)
        mp: Dict[str, ast.AST] = {}
        if h.kind in ("method", "property", "class"):
            if not params:
                return None
            mp[params[0]] = recv if recv is not None else ast.Name(id=params[0], ctx=ast.Load())
            params = params[1:]
        if call is None:
            return mp if not [p for p in params if p not in h.defaults] else None
        if any(isinstance(a, ast.Starred) for a in call.args) or any(k.arg is None for k in call.keywords) or len(call.args) > len(params):
            return None
        for p, a in zip(params, call.args):
            mp[p] = a
        for k in call.keywords:
            if k.arg not in params or k.arg in mp:
                return None
            mp[k.arg] = k.value
        for p in params:
            if p not in mp:
                if p in h.defaults:
                    mp[p] = h.defaults[p]
                else:
                    return None
        return mp

    def lookup_method(self, cls: Optional[str], name: str) -> Optional[Helper]:
        """helper `name` as seen from class `cls` (own definition first, then the bases defined in the package)"""
        seen = set()
        todo = [cls] if cls else []
        while todo:
            c = todo.pop(0)
            if c in seen or c is None:
                continue
            seen.add(c)
            if (c, name) in self.by_class:
                return self.by_class[(c, name)]
            todo += self.bases.get(c, [])
        return None

    def resolve(self, call: ast.Call, cls: Optional[str] = None):
        """(helper, receiver) for a call to a new helper"""
        f = call.func
        if self.virtual(call, cls) is not None:
            return None, None  # overridden in subclasses: only the statement-level isinstance chain is a faithful expansion
        if isinstance(f, ast.Attribute) and isinstance(f.value, ast.Name) and f.value.id in ("self", "cls") and cls is not None:
            h = self.lookup_method(cls, f.attr)
            if h is not None:
                return (h, None) if h.kind == "static" else (h, f.value)
        if isinstance(f, ast.Name) and f.id in self.helpers and self.helpers[f.id].kind == "function":
            return self.helpers[f.id], None
        if isinstance(f, ast.Attribute) and f.attr in self.helpers:
            h = self.helpers[f.attr]
            if h.kind == "function":
                return h, None  # module.helper(...)
            if h.kind == "static":
                return h, None
            if h.kind in ("method", "class"):
                return h, f.value
        return None, None

    def is_subclass(self, c: str, d: str) -> bool:
        seen, todo = set(), [c]
        while todo:
            x = todo.pop()
            if x == d:
                return True
            if x in seen:
                continue
            seen.add(x)
            todo += self.bases.get(x, [])
        return False

    def virtual(self, call: ast.Call, cls: Optional[str]):
        """([(subclass, helper)] most derived first, default helper, receiver) for a call to a new method that has several
        definitions in one class hierarchy; None when the call is not polymorphic (or not understood)"""
        f = call.func
        if not isinstance(f, ast.Attribute):
            return None
        defs = [(c, h) for (c, n), h in self.by_class.items() if n == f.attr and h.kind == "method"]
        if len(defs) < 2:
            return None
        if isinstance(f.value, ast.Name) and f.value.id == "self" and cls is not None:
            base = self.lookup_method(cls, f.attr)
            if base is None:
                return None
            subs = [(c, h) for c, h in defs if h is not base and self.is_subclass(c, cls)]
        else:
            roots = [(c, h) for c, h in defs if all(self.is_subclass(c2, c) for c2, _ in defs)]
            if len(roots) != 1:
                return None
            base = roots[0][1]
            subs = [(c, h) for c, h in defs if h is not base]
        if not subs:
            return None
        depth = lambda c: sum(1 for c2, _ in subs if c2 != c and self.is_subclass(c, c2))
        subs.sort(key=lambda ch: -depth(ch[0]))
        return subs, base, f.value

    # ------------------------------------------------------------------ forms
    def expr_form(self, h: Helper) -> Optional[ast.AST]:
        if h.is_gen:
            return None
        return to_expr(h.body, {})

    def fresh(self, h: Helper, mp, hoist=True):
        """rename the helper's own locals; parameters that the helper re-assigns become locals initialised from the argument"""
        self.counter += 1
        suffix = f"__{h.name.strip('_')}{self.counter}"
        rename = {n: n + suffix for n in h.assigned}
        pre = []
        mp2 = {}
        uses = {}
        for n in ast.walk(ast.Module(body=list(h.body), type_ignores=[])):
            if isinstance(n, ast.Name) and isinstance(n.ctx, ast.Load):
                uses[n.id] = uses.get(n.id, 0) + 1
        for p, a in mp.items():
            if p not in h.assigned and hoist and uses.get(p, 0) > 1 and any(isinstance(x, ast.Call) for x in ast.walk(a)):
                # an argument that is itself a call and is used more than once: evaluated once, into a local
                rename[p] = p + suffix
                pre.append(ast.Assign(targets=[ast.Name(id=rename[p], ctx=ast.Store())], value=copy.deepcopy(a), lineno=h.node.lineno))
                continue
            if p in h.assigned:
                pre.append(ast.Assign(targets=[ast.Name(id=rename[p], ctx=ast.Store())], value=copy.deepcopy(a), lineno=h.node.lineno))
            else:
                mp2[p] = a
        return mp2, rename, pre

    def splice(self, h: Helper, mp, stmts):
        mp2, rename, pre = self.fresh(h, mp)
        body = [_Subst(mp2, rename).visit(copy.deepcopy(st)) for st in stmts]
        return pre + body, mp2, rename

    # ------------------------------------------------------------------ rewriting
    def run(self, rounds=4):
        changed_any = False
        for _ in range(rounds):
            changed = False
            for t in self.trees:
                r = _Rewriter(self)
                r.visit(t)
                changed = changed or r.changed
            changed_any = changed_any or changed
            if not changed:
                break
        if changed_any:
            self.drop_unused()
            for t in self.trees:
                ast.fix_missing_locations(t)
        return changed_any

    def drop_unused(self):
        """a helper that is no longer referenced anywhere has been inlined completely: remove its definition"""
        allnames = set(self.helpers) | {n for (_, n) in self.by_class}
        used = set()
        for t in self.trees:
            for n in ast.walk(t):
                if isinstance(n, ast.Attribute) and n.attr in allnames:
                    used.add(n.attr)
                elif isinstance(n, ast.Name) and n.id in allnames and isinstance(n.ctx, ast.Load):
                    used.add(n.id)
                elif isinstance(n, ast.Constant) and isinstance(n.value, str) and n.value in allnames:
                    used.add(n.value)
        for t in self.trees:
            for holder in [t] + [c for c in t.body if isinstance(c, ast.ClassDef)]:
                keep = [st for st in holder.body if not (isinstance(st, ast.FunctionDef) and st.name in allnames and st.name not in used)]
                holder.body = keep or [ast.Pass()]
        return
        for t in self.trees:
            for n in ast.walk(t):
                if isinstance(n, ast.Attribute) and n.attr in self.helpers:
                    used.add(n.attr)
                elif isinstance(n, ast.Name) and n.id in self.helpers and isinstance(n.ctx, ast.Load):
                    used.add(n.id)
                elif isinstance(n, ast.Constant) and isinstance(n.value, str) and n.value in self.helpers:
                    used.add(n.value)  # getattr(x, "name")
        for t in self.trees:
            for holder in [t] + [c for c in t.body if isinstance(c, ast.ClassDef)]:
                keep = [st for st in holder.body if not (isinstance(st, ast.FunctionDef) and st.name in self.helpers and st.name not in used)]
                holder.body = keep or [ast.Pass()]


def _call_name(c: ast.Call) -> Optional[str]:
    f = c.func
    return f.attr if isinstance(f, ast.Attribute) else f.id if isinstance(f, ast.Name) else None


class _Rewriter(ast.NodeTransformer):
    def __init__(self, inl: Inliner):
        self.inl = inl
        self.changed = False
        self.current: List[str] = []
        self.cls: List[Optional[str]] = [None]

    def visit_ClassDef(self, node):
        self.cls.append(node.name)
        self.generic_visit(node)
        self.cls.pop()
        return node

    # do not rewrite inside the helpers' own definitions while they may still be needed?  (they are rewritten too: nested helpers resolve
    # over several rounds)
    def visit_FunctionDef(self, node):
        self.current.append(node.name)
        node.body = self.block(node.body)
        self.generic_visit(node)
        self.current.pop()
        return node

    def generic_visit(self, node):
        # statement-level forms first (a helper called as a whole statement is spliced as statements, keeping its control flow); what
        # remains is substituted at expression level
        if not isinstance(node, (ast.FunctionDef, ast.AsyncFunctionDef)):
            for f in ("body", "orelse", "finalbody"):
                v = getattr(node, f, None)
                if isinstance(v, list) and v and isinstance(v[0], ast.stmt):
                    setattr(node, f, self.block(v))
        super().generic_visit(node)
        return node

    # ---- expression level -------------------------------------------------------
    def visit_Call(self, node):
        self.generic_visit(node)
        h, recv = self.inl.resolve(node, self.cls[-1])
        if h is None or h.name in self.current:
            return node
        e = self.inl.expr_form(h)
        if e is None:
            return node
        mp = self.inl.bind(h, node, recv)
        if mp is None:
            return node
        self.changed = True
        return ast.copy_location(_subst(e, mp), node)

    def visit_Attribute(self, node):
        self.generic_visit(node)
        h = None
        if isinstance(node.ctx, ast.Load):
            if isinstance(node.value, ast.Name) and node.value.id == "self":
                h = self.inl.lookup_method(self.cls[-1], node.attr)
            if h is None:
                h = self.inl.helpers.get(node.attr)
        if h is not None:
            if h.kind == "property" and h.name not in self.current:
                e = self.inl.expr_form(h)
                mp = self.inl.bind(h, None, node.value)
                if e is not None and mp is not None:
                    self.changed = True
                    return ast.copy_location(_subst(e, mp), node)
        return node

    # ---- statement level --------------------------------------------------------
    def block(self, stmts):
        out = []
        for st in stmts:
            new = self.stmt(st)
            out.extend(new)
        return out

    def stmt(self, st):
        call = None
        if isinstance(st, ast.Expr) and isinstance(st.value, ast.Call):
            call = st.value
        elif isinstance(st, (ast.Assign, ast.AnnAssign, ast.AugAssign, ast.Return)) and isinstance(getattr(st, "value", None), ast.Call):
            call = st.value
        elif isinstance(st, ast.For) and isinstance(st.iter, ast.Call):
            g = self.fuse_generator(st)
            if g is not None:
                return g
        if call is None:
            return [st]
        poly = self.inl.virtual(call, self.cls[-1])
        if poly is not None and not (set(x.name for _, x in poly[0]) | {poly[1].name}) & set(self.current):
            # a method overridden in subclasses, called on a receiver whose class is not known: the isinstance chain it dispatches as
            subs, base, recv_ = poly
            arms = []
            for _, hh in subs + [(None, base)]:
                arm = self.stmt_with(copy.deepcopy(st), hh, recv_)
                if arm is None:
                    arms = None
                    break
                arms.append(arm)
            if arms is not None:
                chain = arms[-1]
                for (cname, _), arm in reversed(list(zip(subs, arms[:-1]))):
                    test = ast.Call(func=ast.Name(id="isinstance", ctx=ast.Load()), args=[copy.deepcopy(recv_), ast.Name(id=cname, ctx=ast.Load())], keywords=[])
                    chain = [ast.copy_location(ast.If(test=test, body=arm or [ast.Pass()], orelse=chain), st)]
                self.changed = True
                return chain
            return [st]
        h, recv = self.inl.resolve(call, self.cls[-1])
        if h is None or h.name in self.current or h.is_gen:
            return self.hoist_nested(st)
        r = self.stmt_with(st, h, recv)
        return [st] if r is None else r

    def hoist_nested(self, st):
        """`x.extend(helper(..))` / `y = f(helper(..))`: a statement-only helper (loops, several statements) called as an argument of
        the statement's call is evaluated into a local first (arguments are evaluated before the call anyway), where the statement
        forms apply"""
        top = st.value
        if not isinstance(top, ast.Call):
            return [st]
        for i, a in enumerate(top.args):
            if isinstance(a, ast.Call):
                h, recv = self.inl.resolve(a, self.cls[-1])
                if h is not None and h.name not in self.current and not h.is_gen and self.inl.expr_form(h) is None:
                    # earlier arguments must not be calls (their evaluation order relative to the hoisted call would change)
                    if any(isinstance(n, ast.Call) for b in top.args[:i] for n in ast.walk(b)) or any(isinstance(n, ast.Call) for n in ast.walk(top.func) if n is not top):
                        return [st]
                    self.inl.counter += 1
                    tmp = f"arg__{h.name.strip('_')}{self.inl.counter}"
                    asg = ast.copy_location(ast.Assign(targets=[ast.Name(id=tmp, ctx=ast.Store())], value=a), st)
                    r = self.stmt_with(asg, h, recv)
                    if r is None:
                        return [st]
                    top.args[i] = ast.copy_location(ast.Name(id=tmp, ctx=ast.Load()), a)
                    self.changed = True
                    return r + [st]
        return [st]

    def stmt_with(self, st, h, recv):
        """the statement with its (top-level) call to helper `h` spliced in, or None if no statement form applies"""
        call = st.value
        mp = self.inl.bind(h, call, recv)
        if mp is None:
            return None
        body = h.body
        # T: tail call
        if isinstance(st, ast.Return) and all(isinstance(n, ast.Return) and n.value is not None for n in ast.walk(ast.Module(body=body, type_ignores=[])) if isinstance(n, ast.Return)) and _ends_in_return(body):
            new, _, _ = self.inl.splice(h, mp, body)
            self.changed = True
            return new
        # S: statement helper
        if isinstance(st, ast.Expr):
            ug = unguard(body)
            if ug is not None:
                new, _, _ = self.inl.splice(h, mp, ug)
                self.changed = True
                return new or [ast.copy_location(ast.Pass(), st)]
        # R: straight-line + trailing return
        if body and isinstance(body[-1], ast.Return) and body[-1].value is not None and not any(_has_return(x) for x in body[:-1]):
            new, mp2, rename = self.inl.splice(h, mp, body[:-1])
            val = _Subst(mp2, rename).visit(copy.deepcopy(body[-1].value))
            st2 = copy.copy(st)
            st2.value = val
            self.changed = True
            return new + [st2]
        # several returns, none inside a loop: returns become assignments to a result variable
        self.inl.counter += 1
        resvar = f"result__{h.name.strip('_')}{self.inl.counter}"
        asg = assignify(list(body), resvar)
        if asg is not None:
            new, _, _ = self.inl.splice(h, mp, asg)
            # the result variable is not one of the helper's own locals: undo the renaming splice applied to it
            for n in [x for b in new for x in ast.walk(b)]:
                if isinstance(n, ast.Name) and n.id.startswith(resvar):
                    n.id = resvar
            st2 = copy.copy(st)
            st2.value = ast.Name(id=resvar, ctx=ast.Load())
            self.changed = True
            return new + [st2]
        return None

    def fuse_generator(self, loop: ast.For):
        h, recv = self.inl.resolve(loop.iter, self.cls[-1])
        if h is None or not h.is_gen or h.name in self.current or loop.orelse:
            return None
        mp = self.inl.bind(h, loop.iter, recv)
        if mp is None:
            return None
        # shapes:  (yield A)*  for T in IT: [if C:] yield E      |     yield from X   treated as  for v in X: yield v
        parts = []
        for st in h.body:
            if isinstance(st, ast.Expr) and isinstance(st.value, ast.Yield) and st.value.value is not None:
                parts.append(("one", st.value.value))
            elif isinstance(st, ast.Expr) and isinstance(st.value, ast.YieldFrom):
                parts.append(("from", st.value.value))
            elif isinstance(st, ast.For) and not st.orelse and len(st.body) == 1:
                inner = st.body[0]
                cond = None
                if isinstance(inner, ast.If) and not inner.orelse and len(inner.body) == 1:
                    cond, inner = inner.test, inner.body[0]
                if isinstance(inner, ast.Expr) and isinstance(inner.value, ast.Yield) and inner.value.value is not None:
                    parts.append(("loop", st.target, st.iter, cond, inner.value.value))
                else:
                    return None
            elif isinstance(st, ast.For) and not st.orelse and len(h.body) == 1:
                # for T in IT: <statements> ; [if C:] yield E      (one yield, last in the body, possibly under trailing ifs)
                n_yield = sum(1 for n in ast.walk(st) if isinstance(n, (ast.Yield, ast.YieldFrom)))
                if n_yield != 1 or any(isinstance(n, (ast.Return, ast.FunctionDef, ast.Lambda)) for n in ast.walk(st)):
                    return None
                parts.append(("loopN", st))
            else:
                return None
        if not parts:
            return None
        mp2, rename, pre = self.inl.fresh(h, mp)
        sub = _Subst(mp2, rename)
        out = list(pre)
        for p in parts:
            body = copy.deepcopy(loop.body)
            if p[0] == "one":
                out.append(ast.Assign(targets=[copy.deepcopy(loop.target)], value=sub.visit(copy.deepcopy(p[1])), lineno=loop.lineno))
                # a single yielded element: run the body once (break/continue inside the body would change meaning: give up)
                if any(isinstance(n, (ast.Break, ast.Continue)) for b in body for n in ast.walk(b)):
                    return None
                out.extend(body)
            elif p[0] == "from":
                out.append(ast.For(target=copy.deepcopy(loop.target), iter=sub.visit(copy.deepcopy(p[1])), body=body, orelse=[], lineno=loop.lineno))
            elif p[0] == "loopN":
                g = sub.visit(copy.deepcopy(p[1]))

                def place(stmts):
                    """replace the (single, trailing) yield by `target = E ; body`"""
                    last = stmts[-1]
                    if isinstance(last, ast.Expr) and isinstance(last.value, ast.Yield) and last.value.value is not None:
                        if any(isinstance(n, (ast.Yield, ast.YieldFrom)) for s_ in stmts[:-1] for n in ast.walk(s_)):
                            return None
                        return stmts[:-1] + [ast.Assign(targets=[copy.deepcopy(loop.target)], value=last.value.value, lineno=loop.lineno)] + body
                    if isinstance(last, ast.If) and not last.orelse and not any(isinstance(n, (ast.Yield, ast.YieldFrom)) for s_ in stmts[:-1] for n in ast.walk(s_)):
                        inner = place(last.body)
                        if inner is None:
                            return None
                        last.body = inner
                        return stmts
                    return None

                nb = place(g.body)
                if nb is None:
                    return None
                g.body = nb
                out.append(g)
            else:
                _, tgt, it, cond, val = p
                inner = [ast.Assign(targets=[copy.deepcopy(loop.target)], value=sub.visit(copy.deepcopy(val)), lineno=loop.lineno)] + body
                if cond is not None:
                    inner = [ast.If(test=sub.visit(copy.deepcopy(cond)), body=inner, orelse=[])]
                out.append(ast.For(target=sub.visit(copy.deepcopy(tgt)), iter=sub.visit(copy.deepcopy(it)), body=inner, orelse=[], lineno=loop.lineno))
        self.changed = True
        return out


def _ends_in_return(body) -> bool:
    if not body:
        return False
    last = body[-1]
    if isinstance(last, ast.Return):
        return True
    if isinstance(last, ast.If) and last.orelse:
        return _ends_in_return(last.body) and _ends_in_return(last.orelse)
    return False


class _ConstProp(ast.NodeTransformer):
    def __init__(self, consts):
        self.consts = consts

    def visit_Name(self, node):
        if isinstance(node.ctx, ast.Load) and node.id in self.consts:
            return ast.copy_location(copy.deepcopy(self.consts[node.id]), node)
        return node


def propagate_new_constants(trees: List[ast.AST], pinned_globals) -> bool:
    """module-level `NAME = <literal>` introduced after the pinned tree (not in pinned_globals) is substituted where it is used in the same
    module (a refactoring that names a magic number / string)"""
    changed = False
    classes = {n.name for t in trees for n in t.body if isinstance(n, ast.ClassDef)}
    for t in trees:
        consts = {}
        stores = {}
        bound = {n.name for n in t.body if isinstance(n, (ast.FunctionDef, ast.ClassDef))}
        for n in t.body:
            if isinstance(n, ast.ImportFrom):
                bound.update(a.asname or a.name for a in n.names)

        def constlike(e, depth=0) -> bool:
            """an immutable value spelled out of literals, enum members, names of functions / classes and constructor calls on those"""
            if depth > 4:
                return False
            if isinstance(e, ast.Constant):
                return True
            if isinstance(e, ast.Name):
                return e.id in bound or e.id in ("max", "min", "abs", "sum", "len", "float", "int", "str", "bool", "dict", "list", "tuple", "set", "frozenset", "sorted", "round", "any", "all")
            if isinstance(e, ast.Attribute) and isinstance(e.value, ast.Name):
                return e.value.id in classes and e.value.id in bound
            if isinstance(e, (ast.Tuple, ast.List, ast.Set)):
                return all(constlike(x, depth + 1) for x in e.elts)
            if isinstance(e, ast.Dict):
                return all(k is not None and constlike(k, depth + 1) and constlike(v_, depth + 1) for k, v_ in zip(e.keys, e.values))
            if isinstance(e, ast.Call) and isinstance(e.func, ast.Name) and (e.func.id in classes and e.func.id in bound or e.func.id in ("timedelta", "datetime", "frozenset", "tuple", "attrgetter", "itemgetter")):
                return all(constlike(a, depth + 1) for a in e.args) and all(k.arg is not None and constlike(k.value, depth + 1) for k in e.keywords)
            return False

        for st in t.body:
            if isinstance(st, ast.AnnAssign) and isinstance(st.target, ast.Name) and st.value is not None:
                st = ast.copy_location(ast.Assign(targets=[st.target], value=st.value), st)
            if isinstance(st, ast.Assign) and len(st.targets) == 1 and isinstance(st.targets[0], ast.Name):
                stores[st.targets[0].id] = stores.get(st.targets[0].id, 0) + 1
                v = st.value
                if isinstance(v, (ast.Dict, ast.Call, ast.Attribute)) and constlike(v) and not (isinstance(v, ast.Dict) and not v.keys):
                    consts[st.targets[0].id] = v
                    continue
                inner = v.args[0] if isinstance(v, ast.Call) and isinstance(v.func, ast.Name) and v.func.id in ("frozenset", "set", "tuple", "list") and len(v.args) == 1 and not v.keywords else v
                if isinstance(v, ast.UnaryOp) and isinstance(v.op, ast.USub) and isinstance(v.operand, ast.Constant) and isinstance(v.operand.value, (int, float)) and not isinstance(v.operand.value, bool):
                    consts[st.targets[0].id] = v  # a negative number
                elif isinstance(v, ast.Constant) and isinstance(v.value, (int, float, str)) and not isinstance(v.value, bool):
                    consts[st.targets[0].id] = v
                elif isinstance(inner, (ast.Tuple, ast.List, ast.Set)) and inner.elts and (all(isinstance(e, ast.Constant) and isinstance(e.value, (int, float, str)) for e in inner.elts) or isinstance(inner, ast.Tuple) and constlike(inner)):
                    consts[st.targets[0].id] = inner  # a constant collection used for membership tests
                elif isinstance(v, ast.Call) and isinstance(v.func, ast.Name) and v.func.id in ("datetime", "timedelta") and all(isinstance(a, ast.Constant) for a in v.args) and all(isinstance(k.value, ast.Constant) for k in v.keywords):
                    consts[st.targets[0].id] = v  # an immutable value built from literals
        consts = {k: v for k, v in consts.items() if stores.get(k) == 1 and k not in pinned_globals}
        # never assigned elsewhere (global statements / attribute stores are not tracked: constants are ALL_CAPS or _private by convention)
        consts = {k: v for k, v in consts.items() if k.upper() == k or k.startswith("_")}
        if not consts:
            continue
        for node in t.body:
            if isinstance(node, (ast.FunctionDef, ast.ClassDef)):
                _ConstProp(consts).visit(node)
                changed = True
    return changed


def unwrap_forwarders(trees: List[ast.AST]) -> bool:
    """a pinned method whose whole body forwards its own parameters to a module-level function of the same name (the body was moved
    out of the class, the method kept as a wrapper): the method gets the moved body back"""
    modfuncs: Dict[str, list] = {}
    for t in trees:
        for node in t.body:
            if isinstance(node, ast.FunctionDef):
                modfuncs.setdefault(node.name, []).append(node)
    changed = False
    for t in trees:
        for cls in [c for c in t.body if isinstance(c, ast.ClassDef)]:
            for m in [x for x in cls.body if isinstance(x, ast.FunctionDef)]:
                body = _strip_doc(m.body)
                if len(body) != 1 or not isinstance(body[0], (ast.Return, ast.Expr)) or not isinstance(body[0].value, ast.Call):
                    continue
                call = body[0].value
                if not (isinstance(call.func, ast.Name) and call.func.id == m.name and len(modfuncs.get(m.name, [])) == 1):
                    continue
                f = modfuncs[m.name][0]
                h = Helper(f, None, "function")
                if not h.ok_sig or h.has_nested or h.is_gen or m.decorator_list != [] and [ast.unparse(d) for d in m.decorator_list] != ["staticmethod"]:
                    continue
                own = {a.arg for a in m.args.args}
                if not all(isinstance(a, ast.Name) and a.id in own for a in call.args) or any(not isinstance(k.value, ast.Name) or k.value.id not in own for k in call.keywords):
                    continue
                if any(isinstance(n, ast.Call) and _call_name(n) == f.name for n in ast.walk(ast.Module(body=h.body, type_ignores=[]))):
                    continue  # recursive
                inl = Inliner.__new__(Inliner)
                inl.counter = 0
                mp = Inliner.bind(inl, h, call, None)
                if mp is None:
                    continue
                rename = {n: n for n in h.assigned}
                if set(h.assigned) & (own - {v.id for v in mp.values() if isinstance(v, ast.Name)}):
                    continue
                pre = [ast.Assign(targets=[ast.Name(id=p_, ctx=ast.Store())], value=copy.deepcopy(a), lineno=m.lineno) for p_, a in mp.items() if not (isinstance(a, ast.Name) and a.id == p_)]
                new_body = pre + [copy.deepcopy(st) for st in h.body]
                if isinstance(body[0], ast.Expr) and any(isinstance(n, ast.Return) and n.value is not None for st in new_body for n in ast.walk(st)):
                    continue
                m.body = new_body
                ast.fix_missing_locations(m)
                changed = True
    return changed


def inline_new_helpers(trees: List[ast.AST]) -> bool:
    from .anchors import PINNED_GLOBALS

    c = propagate_new_constants(trees, PINNED_GLOBALS)
    c = unwrap_forwarders(trees) or c
    inl = Inliner(trees)
    if not inl.helpers and not inl.by_class:
        from .records import dissolve_records

        return dissolve_records(trees) or c
    from .records import dissolve_records

    r = inl.run()
    d = dissolve_records(trees)
    return r or c or d
    inl = Inliner(trees)
    if not inl.helpers and not inl.by_class:
        return False
    return inl.run()
