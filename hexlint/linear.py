"""Linear inequality facts over symbols and Fourier-Motzkin emptiness (polyhedra domain).

A fact / goal is `sum(coef*sym) + const >= 0` with rational coefficients.  Entailment of a
goal g >= 0 by facts F is decided as emptiness of F ∧ (g <= -eps): all our symbols are
integer valued positions / lengths, so g < 0 is g <= -1.  This is the classical polyhedra
abstract-domain test; no SMT solver is involved.
"""
from __future__ import annotations

from fractions import Fraction
from typing import Dict, List, Optional, Tuple

from .poly import Frac, linear_view

Lin = Tuple[Tuple[Tuple[tuple, Fraction], ...], Fraction]  # (sorted coefs, const)


def lin_of(f: Frac) -> Optional[Lin]:
    v = linear_view(f)
    if v is None:
        return None
    coefs, const = v
    return (tuple(sorted(((a, c) for a, c in coefs.items() if c != 0), key=lambda ac: repr(ac[0]))), const)


def _to_dict(l: Lin) -> Dict[tuple, Fraction]:
    return dict(l[0])


def feasible(ineqs: List[Lin], max_rows: int = 4000) -> bool:
    """is {x : every row >= 0} non-empty over the rationals?  (Fourier-Motzkin)"""
    rows = [(dict(l[0]), l[1]) for l in ineqs]
    syms = sorted({s for r, _ in rows for s in r}, key=repr)
    for s in syms:
        pos, neg, rest = [], [], []
        for r, c in rows:
            k = r.get(s, 0)
            if k > 0:
                pos.append((r, c, k))
            elif k < 0:
                neg.append((r, c, k))
            else:
                rest.append((r, c))
        new = rest
        for rp, cp, kp in pos:
            for rn, cn, kn in neg:
                # kp*s + ... >= 0  and kn*s + ... >= 0 (kn<0):  combine (-kn)*P + kp*N
                d = {}
                for a, v in rp.items():
                    if a != s:
                        d[a] = d.get(a, 0) + v * (-kn)
                for a, v in rn.items():
                    if a != s:
                        d[a] = d.get(a, 0) + v * kp
                d = {a: v for a, v in d.items() if v != 0}
                new.append((d, cp * (-kn) + cn * kp))
        # drop duplicates / trivially true rows
        seen, rows = set(), []
        for r, c in new:
            if not r:
                if c < 0:
                    return False
                continue
            key = (tuple(sorted(r.items(), key=lambda kv: repr(kv[0]))), c)
            if key not in seen:
                seen.add(key)
                rows.append((r, c))
        if len(rows) > max_rows:
            return True  # give up soundly: "cannot show emptiness"
    for r, c in rows:
        if not r and c < 0:
            return False
    return True


def entails(facts: List[Lin], goal: Lin) -> bool:
    """facts |= goal >= 0   (integer semantics: refute goal <= -1)"""
    neg = (tuple((a, -c) for a, c in goal[0]), -goal[1] - 1)
    return not feasible(list(facts) + [neg])


def show(l: Lin) -> str:
    from .poly import show_atom

    parts = []
    for a, c in l[0]:
        parts.append((f"{c}*" if c != 1 else "") + show_atom(a))
    if l[1] != 0 or not parts:
        parts.append(str(l[1]))
    return " + ".join(parts).replace("+ -", "- ") + " >= 0"
