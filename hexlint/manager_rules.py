"""Rules for candle / candle-manager / candlestick code: merge aggregator, collapse branches (R-INTERVAL,
R-CONSERVE), bucket-edge helpers, gap filling, trimming, Heikin-Ashi conversion."""
from __future__ import annotations

import ast
from typing import Dict, List, Optional

from . import poly
from .absint import BoolV, NoneV, Num, Obj, Opaque, Path, State, Val, c_not, mk_cmp, show_cond
from .core import Result, finding, norm_construct
from .facts import describe_facts, prove_ge0
from .heap import HeapInterp, final_attr
from .model import AnalysisError, FuncInfo, Repo
from .poly import A, C, Frac, ONE, ZERO, mk_fn
from .structure import attr_stores, call_name, call_target, calls_in, is_subsequence, path_calls, stmt_paths


def at(obj, field) -> Frac:
    return A("attr", obj, field)


def _run(repo: Repo, fi: FuncInfo, env: Dict[str, Val]) -> List[Path]:
    it = HeapInterp(repo, fi.module)
    st = State()
    st.env.update(env)
    return it.run(fi.node, st)


def _same(v: Val, want: Frac) -> bool:
    return isinstance(v, Num) and (v.f == want or v.f.same(want))


# ---------------------------------------------------------------------------
# Candle.merge aggregator


def check_merge_values(prop: str, res: Result, repo: Repo):
    rule = "R-VN-MERGE"
    m = repo.method("hexital.core.candle", "Candle", "merge")
    params = [p for p in m.params if p != "self"]
    other = params[0] if params else "candle"
    paths = _run(repo, m, {"self": Obj("obj", "self"), other: Obj("obj", "c")})
    want = {
        "open": at("self", "open"),
        "high": mk_fn("max", at("self", "high"), at("c", "high")),
        "low": mk_fn("min", at("self", "low"), at("c", "low")),
        "volume": at("self", "volume") + at("c", "volume"),
        "close": at("c", "close"),
        "timestamp": at("self", "timestamp"),
    }
    for p in paths:
        if isinstance(p.ret, Opaque) and p.ret.why == "raise":
            continue
        for fld, w in want.items():
            got = final_attr(p.state, "self", fld)
            same = _same(got, w)
            if not same and isinstance(got, Num):
                # equal under the conditions of this path (`if c.high > self.high: self.high = c.high` is max(self.high, c.high))
                from .facts import prove_ge0

                try:
                    fs = tuple(p.state.facts)
                    same = prove_ge0(got.f - w, fs) and prove_ge0(w - got.f, fs)
                except Exception:
                    same = False
            if same:
                res.ok(rule, {"site": m.where, "field": fld, "post-state": repr(w)}, nontrivial=f"merge:{fld}")
            else:
                res.fail(rule, finding(prop, rule, m, m.node, f"after merge, {fld} is {got!r}; resampling requires {w!r} (open kept, max high, min low, summed volume, last close, label untouched)", construct=f"merge: {fld} = {got!r}"[:190]))


# ---------------------------------------------------------------------------
# bucket-edge helpers


def check_epoch(prop: str, res: Result, repo: Repo):
    rule = "R-EPOCH"
    tf = repo.module("hexital.utils.timeframe")
    rd = repo.func("hexital.utils.timeframe", "round_down_timestamp")
    ot = repo.func("hexital.utils.timeframe", "on_timeframe")

    class TFInterp(HeapInterp):
        def repo_call(self, st, fi, args, kws, node):
            if fi.name == "clean_timestamp" and args and isinstance(args[0], Num):
                return args[0]  # second resolution assumed: identity on the axis
            return super().repo_call(st, fi, args, kws, node)

        def attr(self, st, base, name, node):
            if isinstance(base, Num) and name == "tzinfo":
                return Num(A("sym", "tzinfo"))
            return super().attr(st, base, name, node)

        def call(self, st, node):
            # ts.replace(microsecond=0) is clean_timestamp spelled out: the identity on the second-resolution axis
            f = node.func
            if isinstance(f, ast.Attribute) and f.attr == "replace" and not node.args and [k.arg for k in node.keywords] == ["microsecond"] and isinstance(node.keywords[0].value, ast.Constant) and node.keywords[0].value.value == 0:
                base = self.expr(f.value, st)
                if isinstance(base, Num):
                    return base
            return super().call(st, node)

        def truth(self, v, st, node):
            # a duration is falsy exactly when it is timedelta(0)
            if isinstance(v, Num) and not v.f.is_const() and any(a[0] == "fn" and a[1] in ("mod", "floordiv") for a in poly.all_atoms(v.f)):
                return mk_cmp("!=", v.f, ZERO)
            return super().truth(v, st, node)

    def run(fi):
        it = TFInterp(repo, fi.module)
        st = State()
        st.env["timestamp"] = Num(A("sym", "ts"))
        st.env["timeframe"] = Num(A("sym", "tf"))
        return it.run(fi.node, st)

    TS, TF = A("sym", "ts"), A("sym", "tf")
    # both must be e // s * s  resp.  e % s == 0 of the same elapsed-time expression e = ts - EPOCH
    p_rd, p_ot = run(rd), run(ot)
    if len(p_rd) != 1 or len(p_ot) != 1 or not isinstance(p_rd[0].ret, Num) or not isinstance(p_ot[0].ret, BoolV):
        res.fail(rule, finding(prop, rule, rd, rd.node, "round_down_timestamp / on_timeframe are no longer single-expression functions of (timestamp - epoch) and the timeframe", construct="bucket edge helpers: shape"))
        return
    r = p_rd[0].ret.f
    # find the floordiv atom
    fd = [a for a in poly.all_atoms(r) if a[0] == "fn" and a[1] == "floordiv"]
    cond = p_ot[0].ret.cond
    md = [a for a in poly.all_atoms(cond[2]) if a[0] == "fn" and a[1] == "mod"] if isinstance(cond, tuple) and cond[0] == "cmp" else []
    if len(fd) == 1 and len(md) == 1:
        e1, s1 = fd[0][2], fd[0][3]
        e2, s2 = md[0][2], md[0][3]
        epoch = TS - e1
        ok_rd = s1 == TF and r.same(epoch + Frac.atom(fd[0]) * TF) and TS not in poly.all_atoms(epoch) or (s1 == TF and r.same(epoch + Frac.atom(fd[0]) * TF))
        # one fixed origin: the epoch may take the timestamp's tzinfo, but must not move with the timestamp or the timeframe (an origin
        # such as "midnight of the timestamp's day" restarts the grid every day for timeframes that do not divide 24 hours)
        _ea = poly.all_atoms(epoch) | set(epoch.atoms())
        ok_epoch = ("sym", "ts") not in _ea and ("sym", "tf") not in _ea and not any(a[0] == "fn" and str(a[1]).startswith(".") for a in _ea)
        if ok_rd and ok_epoch:
            res.ok(rule, {"site": rd.where, "round_down": f"EPOCH + ((ts - EPOCH) // tf) * tf with EPOCH = {epoch!r}"}, nontrivial="rd")
        else:
            res.fail(rule, finding(prop, rule, rd, rd.node, f"round_down_timestamp is {r!r}, not EPOCH + ((ts - EPOCH) // tf) * tf", construct="round_down_timestamp: value"))
        if e2 == e1 and s2 == TF and cond[1] == "==" and cond[2] == Frac.atom(md[0]):
            res.ok(rule, {"site": ot.where, "on_timeframe": "(ts - EPOCH) % tf == 0 with the same EPOCH as round_down_timestamp"}, nontrivial="ontf")
        else:
            res.fail(rule, finding(prop, rule, ot, ot.node, f"on_timeframe tests {show_cond(cond)}; it must be (ts - EPOCH) % tf == 0 for the same elapsed-time expression round_down_timestamp uses ({e1!r}): otherwise 'is a bucket edge' and 'round down to the edge' disagree", construct="on_timeframe: predicate"))
    else:
        res.fail(rule, finding(prop, rule, rd, rd.node, f"bucket edge helpers are not a floor-division / modulo of one elapsed-time expression (round_down={r!r}; on_timeframe={show_cond(cond)})", construct="bucket edge helpers: floordiv/mod"))
    # unit table
    t2 = repo.func("hexital.utils.timeframe", "timeframe_to_timedelta")
    want = {"S": "seconds", "T": "minutes", "H": "hours", "D": "days"}
    from .tdeval import TD, SymN, evaluate_prefix

    for k, unit in want.items():
        kind, v = evaluate_prefix(repo, t2, k)
        if kind == "undecided":
            res.errors.append(f"{t2.where}: timeframe_to_timedelta cannot be evaluated for a name with prefix {k!r} ({v}): the unit table cannot be decided")
        elif kind == "return" and isinstance(v, TD) and v.unit == unit and isinstance(v.amount, SymN) and v.amount.coeff == 1:
            res.ok(rule, {"site": t2.where, "unit": f"{k}<n> -> timedelta({unit}=n)", "how": "partial evaluation of the parser for this prefix"})
        else:
            got_txt = repr(v) if kind == "return" else f"raise {v}"
            res.fail(rule, finding(prop, rule, t2, t2.node, f"timeframe prefix {k!r} must map to timedelta({unit}=int(...)); a name {k}<n> gives {got_txt}", construct=f"timeframe_to_timedelta: {k}"))


# ---------------------------------------------------------------------------
# collapse_candles: per-branch bucket correctness + conservation


def collapse_roles(cc):
    """the local names that play the walk's roles, derived from the statements that define them (never from their spelling):
    acc = [self.candles.pop(0)] | [first];  tf = timeframe_to_timedelta(self.timeframe);  first = acc[0] | self.candles.pop(0);
    start = round_down_timestamp(first.timestamp, tf);  end = start + tf;  in the loop: cur = self.candles.pop(0), prev = acc[-1]"""
    fn = cc.node
    loops = [n for n in fn.body if isinstance(n, ast.While)]
    if len(loops) != 1:
        raise AnalysisError(f"{cc.where}: collapse_candles no longer has exactly one while loop (rule cannot be applied)")
    loop = loops[0]
    pre = fn.body[: fn.body.index(loop)]

    def assigns(stmts):
        for st in stmts:
            for n in ast.walk(st):
                if isinstance(n, ast.Assign) and len(n.targets) == 1 and isinstance(n.targets[0], ast.Name):
                    yield n.targets[0].id, n.value

    POP = "self.candles.pop(0)"
    r = {}
    pre_as = list(assigns(pre))
    for name, v in pre_as:
        u = ast.unparse(v)
        if isinstance(v, ast.Call) and call_name(v) == "timeframe_to_timedelta":
            r["tf"] = name
        elif u == POP:
            r["first"] = name
    for name, v in pre_as:
        if isinstance(v, ast.List) and len(v.elts) == 1 and (ast.unparse(v.elts[0]) == POP or ast.unparse(v.elts[0]) == r.get("first")):
            r["acc"] = name
    for name, v in pre_as:
        if "acc" in r and ast.unparse(v).replace(" ", "") == f"{r['acc']}[0]":
            r["first"] = name
    for name, v in pre_as:
        if isinstance(v, ast.Call) and call_name(v) == "round_down_timestamp":
            r["start"] = name
    for name, v in pre_as:
        if "start" in r and "tf" in r and isinstance(v, ast.BinOp) and isinstance(v.op, ast.Add) and {ast.unparse(v.left), ast.unparse(v.right)} == {r["start"], r["tf"]}:
            r["end"] = name
    # the window variables are the names the loop works with: follow plain copies (`start = tmp`)
    loop_names = {n.id for n in ast.walk(loop) if isinstance(n, ast.Name)}
    for role in ("start", "end"):
        if role in r and r[role] not in loop_names:
            for name, v in pre_as:
                if isinstance(v, ast.Name) and v.id == r[role] and name in loop_names:
                    r[role + "_tmp"], r[role] = r[role], name
    if "end" not in r and "start" in r and "tf" in r:
        for name, v in pre_as:
            if isinstance(v, ast.BinOp) and isinstance(v.op, ast.Add) and {ast.unparse(v.left), ast.unparse(v.right)} in ({r["start"], r["tf"]}, {r.get("start_tmp", "?"), r["tf"]}):
                r["end"] = name
    for name, v in assigns(loop.body):
        u = ast.unparse(v).replace(" ", "")
        if u == POP and "cur" not in r:
            r["cur"] = name
        elif "acc" in r and u == f"{r['acc']}[-1]":
            r["prev"] = name
    if "first" not in r and "acc" in r:
        r["first"] = "__first__"  # no local names the first candle: it is acc[0] wherever it is used (bound for the rules in check_collapse)
    missing = [k for k in ("acc", "tf", "first", "start", "end", "cur") if k not in r]
    if missing:
        raise AnalysisError(f"{cc.where}: cannot identify the collapse walk's {missing} (accumulator / window / popped candle): the shape of collapse_candles changed; re-derive the rule")
    return r, loop


class CollapseInterp(HeapInterp):
    acc = "candles_"

    def call(self, st, node):
        fn = node.func
        if isinstance(fn, ast.Attribute) and ast.unparse(fn) == "self.candles.pop":
            st.effects.append(("pop", node))
            return Obj("obj", "cur")
        if isinstance(fn, ast.Attribute) and fn.attr == "merge":
            recv = self.expr(fn.value, st)
            arg = self.expr(node.args[0], st) if node.args else None
            st.effects.append(("merge", recv, arg, node))
            return NoneV()
        if isinstance(fn, ast.Attribute) and fn.attr == "append" and ast.unparse(fn.value) == self.acc:
            arg = self.expr(node.args[0], st) if node.args else None
            st.effects.append(("append", arg, node))
            return NoneV()
        return super().call(st, node)

    def repo_call(self, st, fi, args, kws, node):
        if fi.name == "clean_timestamp" and args and isinstance(args[0], Num):
            return args[0]
        if fi.name == "round_down_timestamp" and args and isinstance(args[0], Num):
            return Num(mk_fn("rd", args[0].f))
        if fi.name == "on_timeframe" and args and isinstance(args[0], Num):
            return BoolV(("ontf", args[0].f))
        return super().repo_call(st, fi, args, kws, node)

    def subscript(self, st, base, idx, node):
        if ast.unparse(node).replace(" ", "") == f"{self.acc}[-1]":
            return Obj("obj", "last")
        return super().subscript(st, base, idx, node)

    def truth(self, v, st, node):
        if isinstance(v, Num):
            a = poly._single_atom(v.f)
            if a is not None and a[0] == "attr" and a[2] == "timestamp":
                return ("present-ts", a[1])
        return super().truth(v, st, node)


def check_collapse(prop: str, res: Result, repo: Repo, want=("R-INTERVAL", "R-CONSERVE", "R-FILLPATH")):
    cc = repo.method("hexital.core.candle_manager", "CandleManager", "collapse_candles")
    fn = cc.node
    R, loop = collapse_roles(cc)
    ACC, TFN, FIRST, START, END = R["acc"], R["tf"], R["first"], R["start"], R["end"]
    S, TF, TS = A("sym", "S"), A("sym", "TF"), at("cur", "timestamp")
    # ---- invariant before the loop: end_time - start_time == timeframe_
    pre = fn.body[: fn.body.index(loop)]
    it = CollapseInterp(repo, cc.module)
    it.acc = ACC
    st0 = State()
    st0.env.update({"self": Obj("obj", "self")})
    st0.env[ACC] = Obj("list", "candles_")
    pre_paths = it.block(pre, st0)
    if FIRST == "__first__":
        for s, _ in pre_paths:
            try:
                s.env[FIRST] = it.expr(ast.parse(f"{ACC}[0]", mode="eval").body, s)
            except Exception:
                pass
    live = [(s, o) for s, o in pre_paths if o is None]
    # early exits: collapsing may be skipped only when there is nothing to collapse (no candles, no timeframe, an undated first candle);
    # any other early return leaves candles in the list that were never given their bucket label
    import re as _re

    for s, o in pre_paths:
        if o is None or not isinstance(o[0], ast.Return):
            continue
        reasons = []
        for f in s.facts:
            neg = isinstance(f, tuple) and f[0] == "not"
            g = f[1] if neg else f
            atom_ = None
            if isinstance(g, tuple) and g[0] == "truthy":
                atom_ = g[1] if isinstance(g[1], tuple) else poly._single_atom(g[1]) if hasattr(g[1], "atoms") else None
            if neg and atom_ is not None and atom_[-1] in ("candles", "timeframe"):
                reasons.append("nothing to collapse")
            elif neg and isinstance(g, tuple) and g[0] == "nonempty":
                reasons.append("nothing to collapse")
            elif not neg and isinstance(g, tuple) and g[0] == "isnone":
                reasons.append("undated")
            elif neg and isinstance(g, tuple) and g[0] in ("present-ts",):
                reasons.append("undated")
            elif isinstance(g, tuple) and g[0] == "opaque":
                txt = str(g[1]).replace(" ", "")
                m_ = _re.fullmatch(r"len\(self\.candles\)(<|<=|==)(\d+)", txt)
                if m_ and not neg:
                    op, k = m_.group(1), int(m_.group(2))
                    if (op == "<" and k >= 2) or (op == "<=" and k >= 1) or (op == "==" and k >= 1):
                        reasons.append(("holds-with-candles", g[1]))
                    else:
                        reasons.append("nothing to collapse")
                elif not any(r in ("nothing to collapse", "undated") for r in reasons):
                    reasons.append(("unknown", g[1]))
        if any(r in ("nothing to collapse", "undated") for r in reasons):
            continue
        wit = next((r for r in reasons if isinstance(r, tuple) and r[0] == "holds-with-candles"), None)
        if wit is not None:
            res.fail("R-INTERVAL", finding(prop, "R-INTERVAL", cc, o[0], f"collapse_candles returns early under `{wit[1]}`, which holds while the list still has a candle: that candle keeps its raw timestamp (never moved to its bucket's label), and is converted / read / merged later under the wrong label", construct=f"collapse: early return under {wit[1]}"))
        elif "R-INTERVAL" in want:
            unk = next((r[1] for r in reasons if isinstance(r, tuple)), "an unconditional return")
            res.errors.append(f"{cc.where} R-INTERVAL collapse_candles: early return under `{unk}`: cannot decide that nothing is left un-collapsed")
    if "R-INTERVAL" in want:
        for s, _ in live:
            stt, ent, tfv = s.env.get(START), s.env.get(END), s.env.get(TFN)
            if isinstance(stt, Num) and isinstance(ent, Num) and isinstance(tfv, Num) and (ent.f - stt.f).same(tfv.f):
                res.ok("R-INTERVAL", {"site": cc.where, "loop head": "end_time == start_time + timeframe_ (established before the loop)"}, nontrivial="collapse:init")
            else:
                res.fail("R-INTERVAL", finding(prop, "R-INTERVAL", cc, loop, "before the walk starts, end_time is not start_time + timeframe_", construct="collapse: initial window"))
            a = [x for x in poly.all_atoms(stt.f) if x[0] == "fn" and x[1] == "rd"] if isinstance(stt, Num) else []
            if a:
                res.ok("R-INTERVAL", {"site": cc.where, "start": "round_down_timestamp(first.timestamp): grid aligned"})
            else:
                res.fail("R-INTERVAL", finding(prop, "R-INTERVAL", cc, loop, "the initial window start is not round_down_timestamp(first candle)", construct="collapse: initial start"))
    # ---- loop body with symbolic window (S, S+TF]
    st = State()
    st.env.update({"self": Obj("obj", "self"), ACC: Obj("list", "candles_"), TFN: Num(TF), START: Num(S), END: Num(S + TF), FIRST: Obj("obj", "first")})
    it2 = CollapseInterp(repo, cc.module)
    it2.acc = ACC
    outs = it2.block(loop.body, st)
    n_branches = 0
    for s2, out in outs:
        ret = out[1] if out is not None else None
        if isinstance(ret, Obj) and ret.kind == "continue":
            res.note("collapse_candles skips (drops) a candle without timestamp: outside the property's quantifier (timestamps present)")
            continue
        if isinstance(ret, Opaque) and ret.why == "raise":
            continue
        n_branches += 1
        eff = s2.effects
        merges = [e for e in eff if e[0] == "merge"]
        appends = [e for e in eff if e[0] == "append"]
        facts = tuple(s2.facts)
        label_v = s2.heap.get((Obj("obj", "cur"), "timestamp"))
        descr = "; ".join(show_cond(c) for c in facts if not (isinstance(c, tuple) and c[0] in ("present-ts",)))[:260]
        # --- R-CONSERVE
        if "R-CONSERVE" in want:
            placed = [e for e in merges if e[2] == Obj("obj", "cur")] + [e for e in appends if e[1] == Obj("obj", "cur")]
            if len(placed) == 1:
                res.ok("R-CONSERVE", {"branch": descr, "placed by": "merge" if merges else "append"}, nontrivial=descr)
            else:
                res.fail("R-CONSERVE", finding(prop, "R-CONSERVE", cc, loop, f"on the branch [{descr}] the popped candle is placed {len(placed)} times (must be merged or appended exactly once): volume is lost or duplicated", construct=f"collapse branch: {descr}"[:190]))
        if "R-INTERVAL" not in want:
            continue
        # --- which label does the candle end up under?
        if merges:
            recv = merges[0][1]
            if recv != Obj("obj", "last"):
                res.fail("R-INTERVAL", finding(prop, "R-INTERVAL", cc, merges[0][3], "merge target is not the last bucket"))
                continue
            lab = None
            for c in facts:
                if isinstance(c, tuple) and c[0] == "cmp" and c[1] == "==" and ("attr", "last", "timestamp") in c[2].atoms():
                    # last.timestamp - L == 0  (sign-normalised)
                    d = c[2]
                    v = poly.linear_view(d)
                    if v is not None:
                        coef = v[0].get(("attr", "last", "timestamp"))
                        if coef in (1, -1):
                            lab = (Frac.atom(("attr", "last", "timestamp")) - d) if coef == 1 else (Frac.atom(("attr", "last", "timestamp")) + d)
            if lab is None:
                res.fail("R-INTERVAL", finding(prop, "R-INTERVAL", cc, merges[0][3], f"a candle is merged into the last bucket without a test that fixes that bucket's label (branch: {descr})", construct=f"merge without label test: {descr}"[:190]))
                continue
            label = lab
        else:
            if not isinstance(label_v, Num):
                res.fail("R-INTERVAL", finding(prop, "R-INTERVAL", cc, loop, f"an appended candle keeps its raw timestamp (branch: {descr}): buckets must be labelled with their end", construct=f"append without label: {descr}"[:190]))
                continue
            label = label_v.f
        new_S, new_E = s2.env.get(START), s2.env.get(END)
        # a label / window chosen through a flag (`x if on_boundary else y`) is decided case by case
        ite_atoms = [a for a in label.atoms() if a[0] == "ite"] if isinstance(label, Frac) else []
        for v_ in (new_S, new_E):
            if isinstance(v_, Num):
                ite_atoms += [a for a in v_.f.atoms() if a[0] == "ite"]
        if ite_atoms:
            a0 = ite_atoms[0]
            sub_ok = True
            for cnd, val in ((a0[1], a0[2]), (poly._neg_cond(a0[1]), a0[3])):
                parts = list(cnd[1:]) if isinstance(cnd, tuple) and cnd[0] == "and" else [cnd]
                if isinstance(cnd, tuple) and cnd[0] == "or":
                    sub_ok = False  # a disjunctive case is not split further: undecided
                    break
                if any(poly._neg_cond(p_) in facts for p_ in parts if isinstance(p_, tuple)):
                    continue
                mp = {a0: val}
                lab2 = poly.subst(label, mp)
                S2 = poly.subst(new_S.f, mp) if isinstance(new_S, Num) else None
                E2 = poly.subst(new_E.f, mp) if isinstance(new_E, Num) else None
                f3 = tuple(facts) + tuple(p_ for p_ in parts if p_ not in facts)
                ax3 = [TF - ONE, TS - mk_fn("rd", TS), mk_fn("rd", TS) + TF - TS - ONE]
                f4 = []
                for c in f3:
                    if isinstance(c, tuple) and c[0] == "ontf":
                        ax3.append(mk_fn("rd", TS) - TS)
                    elif isinstance(c, tuple) and c[0] == "not" and isinstance(c[1], tuple) and c[1][0] == "ontf":
                        ax3.append(TS - mk_fn("rd", TS) - ONE)
                    else:
                        f4.append(c)
                f4 = tuple(f4)
                from .facts import _contradictory as _contra

                if _contra(f4, ax3):
                    continue
                good = prove_ge0(TS - (lab2 - TF) - ONE, f4, ax3) and prove_ge0(lab2 - TS, f4, ax3) and _on_grid(lab2, S, TF) and S2 is not None and E2 is not None and (E2 - S2).same(TF)
                sub_ok = sub_ok and good
            if sub_ok:
                res.ok("R-INTERVAL", {"branch": descr, "label": repr(label)[:120], "proved": "case by case on the conditional label"}, nontrivial=descr)
            else:
                res.errors.append(f"{cc.where}: branch [{descr[:120]}] files the candle under a conditional label the analysis cannot decide case by case")
            continue
        ok_inv = isinstance(new_S, Num) and isinstance(new_E, Num) and (new_E.f - new_S.f).same(TF)
        # obligations: label - TF < ts <= label  and label on the grid, using rd axioms
        extra = [TF - ONE]
        rd_ts = mk_fn("rd", TS)
        uses_rd = any(a[0] == "fn" and a[1] == "rd" for a in poly.all_atoms(label)) or any(isinstance(c, tuple) and c[0] == "ontf" for c in facts)
        ax = list(extra)
        ax += [TS - rd_ts, rd_ts + TF - TS - ONE]  # rd(ts) <= ts < rd(ts) + tf
        f2 = []
        for c in facts:
            if isinstance(c, tuple) and c[0] == "ontf":
                ax += [rd_ts - TS]  # on a boundary: rd(ts) == ts
            elif isinstance(c, tuple) and c[0] == "not" and isinstance(c[1], tuple) and c[1][0] == "ontf":
                ax += [TS - rd_ts - ONE]
            else:
                f2.append(c)
        f2 = tuple(f2)
        ok_lo = prove_ge0(TS - (label - TF) - ONE, f2, ax)
        ok_hi = prove_ge0(label - TS, f2, ax)
        grid = _on_grid(label, S, TF)
        if ok_lo and ok_hi and grid and ok_inv:
            res.ok("R-INTERVAL", {"branch": descr, "label": repr(label), "proved": "label - tf < ts <= label, label on the bucket grid, end_time == start_time + timeframe_ re-established"}, nontrivial=descr)
        else:
            why = []
            if not ok_lo:
                why.append("ts > label - tf not entailed (candle may belong to an earlier bucket)")
            if not ok_hi:
                why.append("ts <= label not entailed (candle may belong to a later bucket)")
            if not grid:
                why.append("label is not on the bucket grid")
            if not ok_inv:
                why.append("window invariant end_time == start_time + timeframe_ is broken after this branch")
            res.fail("R-INTERVAL", finding(prop, "R-INTERVAL", cc, (merges[0][3] if merges else appends[0][2]) if (merges or appends) else loop, f"branch [{descr}] files the candle under label {label!r}: " + "; ".join(why), construct=f"collapse branch label {label!r}: {descr}"[:190]))
    if n_branches < 4:
        res.errors.append(f"{cc.where}: only {n_branches} placing branches found in the collapse walk (expected the merge/append/advance/jump arms)")
    if "R-INVARIANT" in want:
        _collapse_invariant(prop, res, repo, cc, loop, live, outs, S, TF, TS, R)
    if "R-CONSERVE" in want:
        # the walk consumes the whole list: self.candles is touched only by pop(0) (first candle + loop) and the final extend
        cparams = [p for p in cc.params if p != "self"]
        if cparams:
            res.fail("R-CONSERVE", finding(prop, "R-CONSERVE", cc, fn, f"collapse_candles takes parameters {cparams}: which candles are walked must not depend on the caller (batch and incremental passes must agree)", construct=f"collapse_candles({', '.join(cparams)})"))
        touched = []
        def _arg_txt(a):
            # the fill step may be the method or a module-level function of the same name (the method's body moved out)
            if isinstance(a, ast.Call) and call_name(a) == "fill_missing_candles" and (isinstance(a.func, ast.Name) or ast.unparse(a.func) == "self.fill_missing_candles"):
                return "self.fill_missing_candles(" + ", ".join(ast.unparse(x) for x in a.args) + ")"
            return ast.unparse(a)

        for n in ast.walk(fn):
            if isinstance(n, ast.Call) and isinstance(n.func, ast.Attribute) and ast.unparse(n.func.value) == "self.candles":
                touched.append((n, f"{n.func.attr}({', '.join(_arg_txt(a) for a in n.args)})"))
            elif isinstance(n, ast.Subscript) and ast.unparse(n.value) == "self.candles":
                touched.append((n, "self.candles[" + ast.unparse(n.slice) + "]"))
            elif isinstance(n, (ast.Assign, ast.AugAssign)) and any(ast.unparse(t) == "self.candles" for t in (n.targets if isinstance(n, ast.Assign) else [n.target])):
                touched.append((n, "self.candles = ..."))
        EXT = f"extend({ACC})"
        FILLED = f"extend(self.fill_missing_candles({ACC}, {TFN}))"
        allowed = {"pop(0)", EXT, FILLED}
        bad = [(n, t) for n, t in touched if t not in allowed]
        if not bad and sum(1 for _, t in touched if t == "pop(0)") == 2 and sum(1 for _, t in touched if t in (EXT, FILLED)) in (1, 2) and sum(1 for _, t in touched if t == EXT) >= 1:
            res.ok("R-CONSERVE", {"site": cc.where, "why": "self.candles is consumed candle by candle (pop(0) for the first candle and in the loop `while self.candles`) and refilled once with the rebuilt list"}, nontrivial="collapse:walkall")
        else:
            for n, t in bad[:3]:
                res.fail("R-CONSERVE", finding(prop, "R-CONSERVE", cc, n, f"collapse_candles handles part of the list outside the bucket walk ({t}): candles that bypass the walk are neither merged nor labelled"))
            if not bad:
                res.fail("R-CONSERVE", finding(prop, "R-CONSERVE", cc, fn, "collapse_candles no longer pops every candle through the walk and refills the list once", construct="collapse: pops/extend " + ", ".join(t for _, t in touched)))
        if ast.unparse(loop.test) != "self.candles":
            res.fail("R-CONSERVE", finding(prop, "R-CONSERVE", cc, loop.test, "the walk must run until self.candles is empty"))
    # ---- after the loop
    if "R-FILLPATH" in want or "R-CONSERVE" in want:
        post = fn.body[fn.body.index(loop) + 1 :]
        for p in stmt_paths(post):
            calls = [call_target(c) for c in path_calls(p)]
            if "R-CONSERVE" in want:
                if calls and calls[-1] == "self.candles.extend" and ast.unparse(path_calls(p)[-1].args[0]).replace("extend(fill_missing_candles(", "extend(self.fill_missing_candles(") in (ACC, f"self.fill_missing_candles({ACC}, {TFN})", f"fill_missing_candles({ACC}, {TFN})"):
                    res.ok("R-CONSERVE", {"site": cc.where, "exit": "self.candles.extend(candles_)"})
                else:
                    res.fail("R-CONSERVE", finding(prop, "R-CONSERVE", cc, fn, "a normal exit of collapse_candles does not put the rebuilt buckets back (self.candles.extend(candles_))", construct="collapse exit: " + " -> ".join(calls)))
            if "R-FILLPATH" in want:
                tests = [item for item in p if isinstance(item, tuple) and item[0] == "if" and ast.unparse(item[1].test) == "self.timeframe_fill"]
                if not tests:
                    res.fail("R-FILLPATH", finding(prop, "R-FILLPATH", cc, fn, "an exit path of collapse_candles does not consult self.timeframe_fill: gaps stay unfilled", construct="collapse exit: no timeframe_fill test"))
                for item in tests:
                    if item[2]:
                        c = [x for x in path_calls(p) if call_target(x) in ("self.fill_missing_candles", "fill_missing_candles")]
                        stores = [s for s in p if isinstance(s, ast.Assign) and ast.unparse(s.targets[0]) == ACC and c and s.value is c[0]]
                        direct = c and any(call_target(x) == "self.candles.extend" and x.args and x.args[0] is c[0] for x in path_calls(p))
                        if c and (stores or direct) and [ast.unparse(a) for a in c[0].args] == [ACC, TFN]:
                            res.ok("R-FILLPATH", {"site": cc.where, "when fill is on": "candles_ = self.fill_missing_candles(candles_, timeframe_) before extend"}, nontrivial="fillpath")
                        else:
                            res.fail("R-FILLPATH", finding(prop, "R-FILLPATH", cc, item[1], "with timeframe_fill set the rebuilt list must pass through fill_missing_candles(candles_, timeframe_) before it is stored"))


def _collapse_invariant(prop, res, repo, cc, loop, pre_live, outs, S, TF, TS, R):
    """Inductive invariant of the walk, by predicate abstraction with the single predicate
        I:  label(last bucket) in {start_time, end_time}   (and end_time == start_time + tf, start on the grid)
    (1) I holds when the loop is entered; (2) every placing branch re-establishes I; under I and the
    precondition `ts > label(last) - tf` (the new candle does not belong to a bucket before the last one:
    true for non-decreasing streams by the per-branch lower bound of R-INTERVAL) (3) no path reaches the
    `raise InvalidCandleOrder` arm and (4) an appended bucket's label is strictly greater than the last label."""
    rule = "R-INVARIANT"
    last_ts = A("attr", "last", "timestamp")
    E = S + TF
    # (1) entry: the first candle is labelled start (if it sits on a boundary) or end
    for s, _ in pre_live:
        stt, ent = s.env.get(R["start"]), s.env.get(R["end"])
        first = s.env.get(R["first"])
        lab = s.heap.get((first, "timestamp")) if isinstance(first, Obj) else None
        facts = list(s.facts)
        on = [c for c in facts if isinstance(c, tuple) and c[0] == "ontf"]
        off = [c for c in facts if isinstance(c, tuple) and c[0] == "not" and isinstance(c[1], tuple) and c[1][0] == "ontf"]
        if off and isinstance(lab, Num) and isinstance(ent, Num) and lab.f == ent.f:
            res.ok(rule, {"entry": "first candle off a boundary", "label": "end_time"}, nontrivial="inv:entry-off")
        elif on and lab is None and isinstance(stt, Num) and any(a[0] == "fn" and a[1] == "rd" for a in stt.f.atoms()):
            res.ok(rule, {"entry": "first candle on a boundary", "label": "its own timestamp == start_time (rd(ts) = ts)"}, nontrivial="inv:entry-on")
        else:
            res.fail(rule, finding(prop, rule, cc, loop, "on entry to the walk the first candle is not labelled with the window's start (on a boundary) or end (otherwise)", construct="collapse entry label"))
    # (2)-(4) per branch
    raises, placing = [], []
    for s2, out in outs:
        ret = out[1] if out is not None else None
        if isinstance(ret, Obj) and ret.kind == "continue":
            continue
        if isinstance(ret, Opaque) and ret.why == "raise":
            raises.append(s2)
        else:
            placing.append(s2)

    def cases(facts):
        """invariant cases compatible with the path's (dis)equalities on the last label"""
        out = []
        for name, val in (("start", S), ("end", E)):
            eq = mk_cmp("==", last_ts, val)
            ne = mk_cmp("!=", last_ts, val)
            if ne in facts:
                continue
            other = E if name == "start" else S
            if mk_cmp("==", last_ts, other) in facts:
                continue
            out.append((name, val))
        return out

    for s2 in placing:
        facts = tuple(c for c in s2.facts if not (isinstance(c, tuple) and c[0] in ("present-ts",)))
        descr = "; ".join(show_cond(c) for c in facts)[:200]
        merges = [e for e in s2.effects if e[0] == "merge"]
        new_S, new_E = s2.env.get(R["start"]), s2.env.get(R["end"])
        label_v = s2.heap.get((Obj("obj", "cur"), "timestamp"))
        if merges:
            relabel = s2.heap.get((Obj("obj", "last"), "timestamp"))
            if isinstance(new_S, Num) and new_S.f == S and isinstance(new_E, Num) and new_E.f == E and relabel is None:
                res.ok(rule, {"branch": descr, "preserves": "merge: last label and window unchanged"}, nontrivial="inv:" + descr)
            else:
                res.fail(rule, finding(prop, rule, cc, merges[0][3], f"a merging branch moves the window or re-labels the last bucket (branch: {descr})", construct=f"collapse invariant (merge): {descr}"[:190]))
            continue
        if not (isinstance(label_v, Num) and isinstance(new_S, Num) and isinstance(new_E, Num)):
            res.fail(rule, finding(prop, rule, cc, loop, f"appending branch without label/window (branch: {descr})", construct=f"collapse invariant (append): {descr}"[:190]))
            continue
        ax = [TF - ONE]
        rd_ts = mk_fn("rd", TS)
        ax += [TS - rd_ts, rd_ts + TF - TS - ONE]
        f2 = []
        for c in facts:
            if isinstance(c, tuple) and c[0] == "ontf":
                ax.append(rd_ts - TS)
            elif isinstance(c, tuple) and c[0] == "not" and isinstance(c[1], tuple) and c[1][0] == "ontf":
                ax.append(TS - rd_ts - ONE)
            else:
                f2.append(c)
        lab = label_v.f
        if any(a[0] == "ite" for a in lab.atoms() | new_S.f.atoms() | new_E.f.atoms()):
            res.errors.append(f"{cc.where}: branch [{descr[:100]}] re-labels through a conditional value (a flag selects the label): the invariant rule cannot decide this shape")
            continue
        in_set = lab == new_S.f or lab == new_E.f or lab.same(new_S.f) or lab.same(new_E.f)
        if in_set:
            res.ok(rule, {"branch": descr, "re-establishes": f"new last label {lab!r} is the new window's {'start' if lab == new_S.f else 'end'}"}, nontrivial="inv:" + descr)
        else:
            res.fail(rule, finding(prop, rule, cc, loop, f"after the branch [{descr}] the last bucket's label {lab!r} is neither start_time nor end_time of the new window", construct=f"collapse invariant (append): {descr}"[:190]))
        # (4) strictly increasing labels
        cs = cases(facts)
        mono = bool(cs)
        for name, val in cs:
            pre = [TS - (val - TF) - ONE]  # precondition: ts > label(last) - tf
            if not prove_ge0(lab - val - ONE, tuple(f2) + (("ge0", last_ts - val), ("ge0", val - last_ts)), ax + pre):
                mono = False
        if mono:
            res.ok("R-MONOTONE", {"branch": descr, "why": f"appended label {lab!r} > last label in every invariant case ({', '.join(n for n, _ in cs)})"}, nontrivial="mono:" + descr)
        else:
            res.fail("R-MONOTONE", finding(prop, "R-MONOTONE", cc, loop, f"the branch [{descr}] can append a bucket whose label {lab!r} is not greater than the last bucket's label (duplicate or out-of-order bucket)", construct=f"collapse monotone: {descr}"[:190]))
    # (3) totality
    from .facts import facts_to_lin
    from .linear import feasible

    n_checked = 0
    for s2 in raises:
        facts = tuple(c for c in s2.facts if not (isinstance(c, tuple) and c[0] in ("present-ts",)))
        ax = [TF - ONE]
        rd_ts = mk_fn("rd", TS)
        ax += [TS - rd_ts, rd_ts + TF - TS - ONE]
        f2 = []
        for c in facts:
            if isinstance(c, tuple) and c[0] == "ontf":
                ax.append(rd_ts - TS)
            elif isinstance(c, tuple) and c[0] == "not" and isinstance(c[1], tuple) and c[1][0] == "ontf":
                ax.append(TS - rd_ts - ONE)
            else:
                f2.append(c)
        for name, val in cases(facts):
            n_checked += 1
            pre = [TS - (val - TF) - ONE]
            lins = facts_to_lin(tuple(f2) + (("ge0", last_ts - val), ("ge0", val - last_ts)), ax + pre)
            if feasible(lins):
                descr = "; ".join(show_cond(c) for c in facts)[:160]
                res.fail("R-TOTAL", finding(prop, "R-TOTAL", cc, loop, f"with the last label at the window {name} and a candle not older than the last bucket, the walk can reach `raise InvalidCandleOrder` (path: {descr})", construct=f"collapse totality ({name}): {descr}"[:190]))
            else:
                res.ok("R-TOTAL", {"invariant case": f"last label == window {name}", "raise path": "infeasible"}, nontrivial=f"total:{name}:{n_checked}")
    if not raises:
        res.note("collapse walk has no raising arm")


def _on_grid(label: Frac, S, TF) -> bool:
    """label = S + k*TF  or  rd(x) + k*TF   (k integer constant)"""
    v = poly.linear_view(label)
    if v is None:
        return False
    coefs, const = v
    base = 0
    for a, c in coefs.items():
        if a == S.atoms().__iter__().__next__() if False else a == ("sym", "S"):
            if c != 1:
                return False
            base += 1
        elif a[0] == "fn" and a[1] == "rd":
            if c != 1:
                return False
            base += 1
        elif a == ("sym", "TF"):
            if c.denominator != 1:
                return False
        elif a == ("attr", "cur", "timestamp"):
            return False
        else:
            return False
    return base == 1 and const == 0


# ---------------------------------------------------------------------------
# gap filling


def _check_fill_semantic(prop: str, res: Result, repo: Repo, fm) -> bool:
    """decide the fill rules from one symbolic iteration of the in-place scan (fillsem.py); False: shape not understood (the
    syntactic recogniser below gets its turn and, failing that, the answer is 'cannot decide')"""
    from .fillsem import LEN, TF, Unknown, analyse_inplace
    from .absint import c_not as _not

    rule = "R-FILL"
    try:
        an = analyse_inplace(repo, fm)
        ins = [(p, e) for p in an["paths"] for e in p["inserts"]]
        if not ins:
            raise Unknown("no path inserts a candle")
        poss = {repr(e[3][0].f) for _, e in ins if e[3] and isinstance(e[3][0], Num)}
        if len(poss) != 1 or any(len(e[3]) != 2 for _, e in ins):
            raise Unknown("inserts at several positions / unusual insert call")
        P = next(e[3][0].f for _, e in ins)
        syms = an["syms"]
        if not any(a in P.atoms() for a in syms.values()):
            raise Unknown("the insert position does not depend on a cursor")
    except Unknown as e:
        res.note(f"fill scan not decided semantically ({e}); trying the syntactic recogniser")
        return False
    prev_o, next_o = f"L[{(P - ONE)!r}]", f"L[{P!r}]"
    ts_prev, ts_next = A("attr", prev_o, "timestamp"), A("attr", next_o, "timestamp")
    raw_prev = A("raw", prev_o, "close")
    gap_ne = mk_cmp("!=", ts_next, ts_prev + TF)
    gap_gt = mk_cmp("<", ts_prev + TF, ts_next)
    order = ["open", "high", "low", "close", "volume", "timestamp"]
    findings_before = len(res.findings)

    def pos_after(path):
        mp = {}
        for k, a in syms.items():
            v = path["cursor"].get(k)
            if not isinstance(v, Num):
                raise Unknown(f"cursor {k} is not a number after the iteration")
            mp[a] = v.f
        return poly.subst(P, mp)

    try:
        loop = an["loop"]
        for path in an["paths"]:
            facts = an["test_facts"] + path["facts"]
            if path["others"]:
                res.fail(rule, finding(prop, rule, fm, path["others"][0][-1], "the fill scan changes the list by something other than inserting the fill candle"))
            if path["heap"]:
                res.fail("R-EFFECT", finding(prop, "R-EFFECT", fm, loop, "the fill scan stores into an existing candle / the manager"))
            if path["inserts"]:
                if len(path["inserts"]) != 1:
                    raise Unknown("several inserts on one path")
                val = path["inserts"][0][3][1]
                node = path["inserts"][0][-1]
                if not (isinstance(val, Obj) and val.kind == "new" and val.data[0] == "Candle"):
                    raise Unknown("the inserted value is not a Candle(...) built in the scan")
                fields = dict(zip(order, val.data[1]))
                fields.update(dict(val.data[2]))
                want = {"open": raw_prev, "high": raw_prev, "low": raw_prev, "close": raw_prev, "volume": ZERO, "timestamp": ts_prev + TF}
                for k, w in want.items():
                    got = fields.get(k)
                    if isinstance(got, Num) and (got.f == w or got.f.same(w)):
                        res.ok(rule, {"site": fm.where, "fill candle": f"{k} = {got.f!r}"}, nontrivial=f"fill:{k}")
                    elif k in ("open", "high", "low", "close") and isinstance(got, Num) and got.f == A("attr", prev_o, "close"):
                        res.fail(rule, finding(prop, rule, fm, node, f"the inserted candle takes {k} from the previous candle's .close, which is the converted (e.g. Heikin-Ashi) close when the list is re-collapsed after an append and the raw close in a batch pass: with a candlestick type and timeframe_fill the fill candles depend on the append schedule; use the raw close (clean_values.get('close', .close))", construct=f"fill candle {k}=previous.close"))
                    else:
                        res.fail(rule, finding(prop, rule, fm, node, f"the inserted candle must have {k} = {w!r} (flat at the previous candle's raw close, zero volume, one timeframe after the previous candle); found {got!r}", construct=f"fill candle {k}={got!r}"[:150]))
                if gap_ne in facts or gap_gt in facts:
                    res.ok(rule, {"site": fm.where, "gap test": "list[p].timestamp != list[p-1].timestamp + timeframe" if gap_ne in facts else "list[p-1].timestamp + timeframe < list[p].timestamp"}, nontrivial="fill:gap")
                else:
                    res.fail(rule, finding(prop, rule, fm, node, "a candle is inserted on a path that has not established `next.timestamp != previous.timestamp + timeframe` on the full timestamps (e.g. a comparison of .seconds drops whole days); path: " + "; ".join(show_cond(c) for c in facts if c is not True)[:200], construct="fill: gap test"))
                if ("present-ts", prev_o) not in facts and not any(isinstance(c, tuple) and c[0] == "not" and c[1] == ("isnone", ts_prev) for c in facts):
                    res.note("fill: the insert path does not test the previous timestamp for presence")
            else:
                # a path that decides 'no gap' must have seen the equality (or a missing previous timestamp)
                pass
            if path["kind"] == "next":
                d = pos_after(path) - P
                if d == ONE or (d.is_const() and d.const_value() == 1):
                    res.ok(rule, {"site": fm.where, "cursor": "the examined position advances by one (an inserted candle becomes the next 'previous')"})
                else:
                    res.fail(rule, finding(prop, rule, fm, loop, f"after an iteration {'that inserted a candle ' if path['inserts'] else ''}the examined position moves by {d!r}, not by 1: {'the inserted candle is skipped as the next previous, so a gap of several buckets gets one fill candle only' if path['inserts'] else 'pairs are skipped / re-examined'}", construct=f"fill cursor step {d!r}"))
        # first examined pair
        first = poly.subst(P, {a: an["init"][k] for k, a in syms.items()})
        if first.is_const() and first.const_value() == 1:
            res.ok(rule, {"site": fm.where, "cursor": "first examined pair is (list[0], list[1])"}, nontrivial="fill:cursor")
        else:
            res.fail(rule, finding(prop, rule, fm, loop, f"the fill scan starts at position {first!r}, not at the first pair of the rebuilt list: gaps before it are never filled", construct=f"fill cursor init {first!r}"))
        # continuation: exactly while p < len(list)
        want_cont = mk_cmp("<", P, LEN)
        always = isinstance(loop.test, ast.Constant) and loop.test.value is True
        if not always:
            tf_ = [c for c in an["test_facts"] if c is not True]
            if tf_ == [want_cont]:
                res.ok(rule, {"site": fm.where, "end": "pairs are examined while the position is < len(list), len taken afresh"})
            else:
                res.fail(rule, finding(prop, rule, fm, loop.test, f"the fill scan continues while [{'; '.join(show_cond(c) for c in tf_)}], not while the examined position is < len(list): the end of the list is not examined / over-run", construct="fill loop end"))
        else:
            brk = [p_ for p_ in an["paths"] if p_["kind"] == "break"]
            nxt = [p_ for p_ in an["paths"] if p_["kind"] == "next"]
            ok_b = bool(brk)
            for p_ in brk:
                pa = pos_after(p_)
                if _not(mk_cmp("<", pa, LEN)) not in p_["facts"] and mk_cmp("<=", LEN, pa) not in p_["facts"]:
                    ok_b = False
            for p_ in nxt:
                pa = pos_after(p_)
                if mk_cmp("<", pa, LEN) not in p_["facts"]:
                    ok_b = False
            if ok_b:
                res.ok(rule, {"site": fm.where, "end": "the scan stops exactly when the next position reaches len(list), len taken afresh"})
            else:
                res.fail(rule, finding(prop, rule, fm, loop, "the `while True` fill scan does not stop exactly when the next examined position reaches len(list)", construct="fill loop end"))
    except Unknown as e:
        del res.findings[findings_before:]
        res.note(f"fill scan not decided semantically ({e}); trying the syntactic recogniser")
        return False
    return True


def _check_fill_builder(prop: str, res: Result, repo: Repo, fm) -> bool:
    """the forward-pass form of the fill step (out = [first]; for cur in rest: append flat candles until cur follows; out.append(cur)),
    decided from one symbolic iteration of its inner loop on a generic chain tail (fillsem.analyse_builder)"""
    from .fillsem import TF, Unknown, analyse_builder
    from .absint import ListV

    rule = "R-FILL"
    try:
        an = analyse_builder(repo, fm)
    except Unknown as e:
        res.note(f"fill step is not the forward-pass form either ({e})")
        return False
    before = len(res.findings)
    try:
        ts_tail, ts_cur = A("attr", "TAIL", "timestamp"), A("attr", "cur", "timestamp")
        raw_tail = A("raw", "TAIL", "close")
        gap_ne, gap_gt = mk_cmp("!=", ts_cur, ts_tail + TF), mk_cmp("<", ts_tail + TF, ts_cur)
        eq = mk_cmp("==", ts_cur, ts_tail + TF)
        present = ("present-ts", "TAIL")
        targets = set()
        n_app = 0
        order = ["open", "high", "low", "close", "volume", "timestamp"]
        for p_ in an["paths"]:
            f = p_["facts"]
            if p_["kind"] == "exit":
                if not (eq in f or c_not(present) in f or c_not(("nonempty", "OUT")) in f or (c_not(gap_gt) in f)):
                    res.fail(rule, finding(prop, rule, fm, an["inner"], "the loop that produces the fill candles can stop while the current candle is still more than one timeframe after the last candle of the output: the rest of the gap stays open; path: " + "; ".join(show_cond(c) for c in f if c is not True)[:160], construct="fill builder: early exit"))
                continue
            if len(p_["appended"]) != 1:
                raise Unknown("an iteration of the inner loop that appends nothing (or several candles)")
            e = p_["appended"][0]
            n_app += 1
            base, val, node = e[1], e[3][0] if e[3] else None, e[-1]
            if e[2] != "append" or not (isinstance(val, Obj) and val.kind == "new" and val.data[0] == "Candle"):
                raise Unknown("the inner loop adds something other than a fresh Candle(...)")
            fields = dict(zip(order, val.data[1]))
            fields.update(dict(val.data[2]))
            want = {"open": raw_tail, "high": raw_tail, "low": raw_tail, "close": raw_tail, "volume": ZERO, "timestamp": ts_tail + TF}
            for k, w_ in want.items():
                got = fields.get(k)
                if isinstance(got, Num) and (got.f == w_ or got.f.same(w_)):
                    res.ok(rule, {"site": fm.where, "fill candle": f"{k} = {got.f!r}"}, nontrivial=f"fill:{k}")
                elif k in ("open", "high", "low", "close") and isinstance(got, Num) and got.f == A("attr", "TAIL", "close"):
                    res.fail(rule, finding(prop, rule, fm, node, f"the fill candle takes {k} from the previous candle's .close, which is the converted (e.g. Heikin-Ashi) close when the list is re-collapsed after an append and the raw close in a batch pass; use the raw close (clean_values.get('close', .close))", construct=f"fill candle {k}=previous.close"))
                else:
                    res.fail(rule, finding(prop, rule, fm, node, f"the fill candle must have {k} = {w_!r} (flat at the raw close of the candle before it, zero volume, one timeframe after it); found {got!r}", construct=f"fill candle {k}={got!r}"[:150]))
            if gap_ne in f or gap_gt in f:
                res.ok(rule, {"site": fm.where, "gap test": "current.timestamp != last.timestamp + timeframe" if gap_ne in f else "last.timestamp + timeframe < current.timestamp"}, nontrivial="fill:gap")
            else:
                res.fail(rule, finding(prop, rule, fm, node, "a fill candle is appended on a path that has not established `current.timestamp != last.timestamp + timeframe` on the full timestamps; path: " + "; ".join(show_cond(c) for c in f if c is not True)[:160], construct="fill: gap test"))
            # the new candle becomes the chain's tail
            if isinstance(base, Obj) and base.kind == "list" and base.data == "OUT":
                targets.add("OUT")
                for tv in an["tailvars"]:
                    if p_["env"].get(tv) is not val and p_["env"].get(tv) != val:
                        # a local still pointing at the old tail is fine only if it is re-read from out[-1] inside the loop
                        reread = any(isinstance(n, ast.Assign) and any(isinstance(t, ast.Name) and t.id == tv for t in n.targets) for n in ast.walk(an["inner"]))
                        if not reread:
                            res.fail(rule, finding(prop, rule, fm, node, f"after a fill candle is appended, `{tv}` still refers to the candle before it: every further fill candle of the same gap gets the same timestamp", construct="fill builder: tail not advanced"))
            elif isinstance(base, ListV) or (isinstance(base, Obj) and base.kind != "list"):
                targets.add("gap")
                if not an["tailvars"] or not all(p_["env"].get(tv) == val for tv in an["tailvars"]):
                    res.fail(rule, finding(prop, rule, fm, node, "fill candles are collected in a separate list but the 'previous candle' is not advanced to the candle just built: every fill candle of a gap gets the same timestamp", construct="fill builder: tail not advanced"))
            else:
                raise Unknown("fill candles are appended to an unexpected list")
        if n_app == 0:
            raise Unknown("no path of the inner loop appends a fill candle")
        after_txt = [ast.unparse(x).replace(" ", "") for x in an["after"] if not isinstance(x, ast.Pass)]
        if "gap" in targets:
            if len(after_txt) == 1 and after_txt[0].startswith(f"{an['out']}.extend(") :
                res.ok(rule, {"site": fm.where, "builder": "the gap's fill candles are appended to the output before the current candle"})
            else:
                raise Unknown("the separate list of fill candles is not simply extended onto the output")
        elif after_txt:
            raise Unknown("statements between the inner loop and out.append(current)")
        post_txt = [ast.unparse(x).replace(" ", "") for x in an["post"]]
        if post_txt in ([f"{an['lst']}[:]={an['out']}", f"return{an['lst']}"], [f"return{an['out']}"]):
            res.ok(rule, {"site": fm.where, "builder": "every candle of the input is appended after the fill candles of the gap before it; the result is returned" + (" (and written back in place)" if len(post_txt) == 2 else "")}, nontrivial="fill:cursor")
        else:
            raise Unknown("what happens to the built list after the loop: " + "; ".join(post_txt)[:80])
    except Unknown as e:
        del res.findings[before:]
        res.note(f"forward-pass fill step not decided ({e})")
        return False
    return True


def check_fill(prop: str, res: Result, repo: Repo):
    rule = "R-FILL"
    fm = repo.method("hexital.core.candle_manager", "CandleManager", "fill_missing_candles")
    # the fill step collapse_candles actually runs: the method, or a module-level function of that name it calls directly
    _cc = repo.method("hexital.core.candle_manager", "CandleManager", "collapse_candles")
    for c_ in calls_in(_cc.node):
        if isinstance(c_.func, ast.Name) and c_.func.id == "fill_missing_candles":
            r_ = repo.resolve(_cc.module, "fill_missing_candles")
            if isinstance(r_, FuncInfo):
                fm = r_
    fn = fm.node
    if _check_fill_semantic(prop, res, repo, fm) or _check_fill_builder(prop, res, repo, fm):
        # effects: only insert; no store on existing candles, no state on self
        for s_, t in attr_stores(fn):
            res.fail("R-EFFECT", finding(prop, "R-EFFECT", fm, s_, "fill_missing_candles writes an attribute: filling must only insert fresh candles and keep no state"))
        if not attr_stores(fn):
            res.ok("R-EFFECT", {"site": fm.where, "effect": "inserts only"})
        return
    params = [p for p in fm.params if p != "self"]
    lst, tfp = params[0], params[1]
    ctor = [c for c in calls_in(fn) if call_target(c) == "Candle"]
    if len(ctor) != 1:
        res.errors.append(f"{fm.where}: fill_missing_candles does not create the fill candle with exactly one Candle(...) call: the fill rules cannot be applied to this shape")
        return
    # resolve local aliases flow-insensitively: name -> expression text
    alias = {}
    for n in ast.walk(fn):
        if isinstance(n, ast.Assign) and len(n.targets) == 1 and isinstance(n.targets[0], ast.Name):
            alias.setdefault(n.targets[0].id, set()).add(ast.unparse(n.value))
    cursor = None
    ins = [c for c in calls_in(fn) if call_target(c) == f"{lst}.insert"]
    if len(ins) == 1 and len(ins[0].args) == 2:
        cursor = ast.unparse(ins[0].args[0])
    prev_names = [k for k, v in alias.items() if v == {f"{lst}[{cursor} - 1]"}] if cursor else []
    if not cursor or not prev_names:
        res.errors.append(f"{fm.where}: cannot identify the insertion cursor and the preceding candle in fill_missing_candles (a different fill algorithm): the fill rules cannot be applied to this shape")
        return
    P = prev_names[0]
    order = ["open", "high", "low", "close", "volume", "timestamp"]
    kwn = dict(zip(order, ctor[0].args))
    kwn.update({k.arg: k.value for k in ctor[0].keywords})

    def _res(e):
        """text of an argument with single-definition locals replaced by their definition"""
        t = ast.unparse(e)
        if isinstance(e, ast.Name) and len(alias.get(e.id, ())) == 1:
            t = next(iter(alias[e.id]))
        return t

    kws = {k: _res(v) for k, v in kwn.items()}
    # the previous candle may already be converted (Heikin-Ashi) when the list is re-collapsed after an append, while in a batch pass
    # it is still raw (conversion runs after collapse): the flat price is the previous candle's RAW close on every schedule
    raw_close = (f"{P}.clean_values.get('close', {P}.close)", f"{P}.clean_values['close'] if {P}.clean_values else {P}.close", f"{P}.raw_copy().close")
    want = {"open": raw_close[0], "close": raw_close[0], "high": raw_close[0], "low": raw_close[0], "volume": "0", "timestamp": f"{P}.timestamp + {tfp}"}
    for k, v in want.items():
        got = kws.get(k)
        if got is not None and (got == v or (k in ("open", "close", "high", "low") and got in raw_close) or (k == "timestamp" and got == f"{tfp} + {P}.timestamp") or (k == "volume" and got in ("0", "0.0"))):
            res.ok(rule, {"site": fm.where, "fill candle": f"{k} = {got}"}, nontrivial=f"fill:{k}")
        elif k in ("open", "close", "high", "low") and got == f"{P}.close":
            res.fail(rule, finding(prop, rule, fm, ctor[0], f"the inserted candle takes {k} from {P}.close, which is the converted (e.g. Heikin-Ashi) close when the list is re-collapsed after an append and the raw close in a batch pass: with a candlestick type and timeframe_fill the fill candles depend on the append schedule; use the raw close ({raw_close[0]})", construct=f"fill candle {k}={got}"))
        else:
            res.fail(rule, finding(prop, rule, fm, ctor[0], f"the inserted candle must have {k} = {v} (flat at the previous close, zero volume, one timeframe after the previous candle); found {got}", construct=f"fill candle {k}={got}"))
    if (ast.unparse(ins[0].args[1]) in alias and alias[ast.unparse(ins[0].args[1])] == {ast.unparse(ctor[0])}) or ins[0].args[1] is ctor[0]:
        res.ok(rule, {"site": fm.where, "insert": f"{lst}.insert({cursor}, <fill candle>)"})
    else:
        res.fail(rule, finding(prop, rule, fm, ins[0], "the fill candle is not what gets inserted at the cursor"))
    # gap test: candles[i].timestamp != prev.timestamp + timeframe   (value-number comparison)
    it = HeapInterp(repo, fm.module)
    st = State()
    st.env.update({"self": Obj("obj", "self"), lst: Obj("list", "L"), tfp: Num(A("sym", "TF")), cursor: Num(A("sym", "i")), P: Obj("obj", "prev")})
    tests = [n for n in ast.walk(fn) if isinstance(n, ast.If) and any(ctor[0] in list(ast.walk(b)) for b in n.body)]
    # guard clauses: `if X: continue` before the statement that builds the candle contribute `not X`
    guards = []
    for blk in [n.body for n in ast.walk(fn) if isinstance(n, (ast.While, ast.For, ast.If))] + [fn.body]:
        idx_ = next((k for k, st_ in enumerate(blk) if ctor[0] in list(ast.walk(st_))), None)
        if idx_ is None:
            continue
        for st_ in blk[:idx_]:
            if isinstance(st_, ast.If) and not st_.orelse and len(st_.body) == 1 and isinstance(st_.body[0], ast.Continue):
                guards.append(ast.UnaryOp(op=ast.Not(), operand=st_.test))
    if not tests and not guards:
        res.errors.append(f"{fm.where}: the fill candle is not created under a gap test the analysis can find: the fill rules cannot be applied to this shape")
    else:
        # nested ifs / guard clauses: the candle is created when all of them hold
        parts_ = [t.test for t in tests] + guards
        test_expr = parts_[0] if len(parts_) == 1 else ast.BoolOp(op=ast.And(), values=parts_)
        # single-definition locals used by the test (e.g. `expected = prev.timestamp + timeframe`) are replaced by their definition
        class _Al(ast.NodeTransformer):
            def visit_Name(self, node):
                if isinstance(node.ctx, ast.Load) and node.id not in (P, cursor, lst, tfp) and len(alias.get(node.id, ())) == 1:
                    return ast.parse(next(iter(alias[node.id])), mode="eval").body
                return node

        import copy as _copy

        test_expr = _Al().visit(_copy.deepcopy(test_expr))
        ast.fix_missing_locations(test_expr)
        conds = []
        for truth, s2 in it.cond_paths(test_expr, st):
            if truth:
                conds.append(tuple(c for c in s2.facts))
        cur_ts = A("attr", "L[i]", "timestamp")
        want_d = cur_ts - (at("prev", "timestamp") + A("sym", "TF"))
        good = False
        for facts in conds:
            for c in facts:
                if isinstance(c, tuple) and c[0] == "cmp" and c[1] == "!=" and (c[2] == want_d or c[2] == -want_d or c[2].same(want_d) or c[2].same(-want_d)):
                    good = True
        if good and conds:
            res.ok(rule, {"site": fm.where, "gap test": "candles[i].timestamp != candles[i-1].timestamp + timeframe"}, nontrivial="fill:gap")
        else:
            res.fail(rule, finding(prop, rule, fm, tests[0].test if tests else fn, "the gap test is not `next.timestamp != previous.timestamp + timeframe` on the full timestamps (e.g. a comparison of .seconds drops whole days)"))
    # cursor discipline, derived from the loop (whatever its spelling): the positions at which a pair (list[v-1], list[v]) is examined are
    # v = 1, 2, ... while v < len(list)   (len taken afresh every time: an inserted candle becomes the next 'previous')
    V, LEN, CUR = A("sym", "v"), A("sym", "len"), A("sym", "cursor")
    inits = [s_ for s_ in fn.body if isinstance(s_, ast.Assign) and ast.unparse(s_.targets[0]) == cursor]
    loops = [n for n in fn.body if isinstance(n, ast.While)]
    incs = [n for n in ast.walk(fn) if isinstance(n, ast.AugAssign) and ast.unparse(n.target) == cursor]
    incs += [n for n in ast.walk(fn) if isinstance(n, ast.Assign) and ast.unparse(n.targets[0]) == cursor and n not in inits]

    def _plus_one(n):
        if isinstance(n, ast.AugAssign):
            return isinstance(n.op, ast.Add) and ast.unparse(n.value) == "1"
        v = n.value
        return isinstance(v, ast.BinOp) and isinstance(v.op, ast.Add) and {ast.unparse(v.left), ast.unparse(v.right)} == {cursor, "1"}

    def _lin(e):
        """linear expression over the cursor and len(list)"""
        if isinstance(e, ast.Constant) and isinstance(e.value, int):
            return C(e.value)
        if isinstance(e, ast.Name) and e.id == cursor:
            return CUR
        if isinstance(e, ast.Call) and call_name(e) == "len" and len(e.args) == 1 and ast.unparse(e.args[0]) == lst:
            return LEN
        if isinstance(e, ast.BinOp) and isinstance(e.op, (ast.Add, ast.Sub)):
            l, r = _lin(e.left), _lin(e.right)
            return None if l is None or r is None else (l + r if isinstance(e.op, ast.Add) else l - r)
        return None

    def _cmp(test):
        ops = {ast.Lt: "<", ast.LtE: "<=", ast.Gt: ">", ast.GtE: ">="}
        neg = False
        while isinstance(test, ast.UnaryOp) and isinstance(test.op, ast.Not):
            test, neg = test.operand, not neg
        if isinstance(test, ast.Compare) and len(test.ops) == 1 and type(test.ops[0]) in ops:
            l, r = _lin(test.left), _lin(test.comparators[0])
            if l is not None and r is not None:
                c = mk_cmp(ops[type(test.ops[0])], l, r)
                return c_not(c) if neg else c
        return None

    derived = None
    if len(inits) == 1 and isinstance(inits[0].value, ast.Constant) and isinstance(inits[0].value.value, int) and len(loops) == 1 and len(incs) == 1 and _plus_one(incs[0]):
        loop = loops[0]
        i0 = inits[0].value.value
        body = list(loop.body)
        # is the increment executed before the pair is read?  (position of the increment among the top-level statements of the loop body)
        inc_top = next((k for k, st_ in enumerate(body) if incs[0] in list(ast.walk(st_))), None)
        use_top = next((k for k, st_ in enumerate(body) if any(isinstance(n, ast.Subscript) and ast.unparse(n.value) == lst for n in ast.walk(st_))), None)
        if inc_top is not None and use_top is not None and incs[0] in body:
            before = inc_top < use_top
            first = i0 + 1 if before else i0
            always = isinstance(loop.test, ast.Constant) and loop.test.value is True
            cont = None
            if not always:
                t = _cmp(loop.test)
                if t is not None:
                    # the test sees the cursor before (increment first) or at (increment last) the visited position
                    cont = poly.subst(t, {CUR.atoms().pop() if False else ("sym", "cursor"): (V - ONE) if before else V})
            else:
                brk = [n for n in body if isinstance(n, ast.If) and len(n.body) == 1 and isinstance(n.body[0], ast.Break) and not n.orelse]
                if len(brk) == 1 and not before and body.index(brk[0]) > inc_top:
                    t = _cmp(brk[0].test)
                    if t is not None:
                        # after visiting v the cursor is v+1; the next position w = v+1 is visited iff not break(w)
                        cont = poly.subst(c_not(t), {("sym", "cursor"): V})
            if cont is not None:
                derived = (first, cont)
    want_cont = mk_cmp("<", V, LEN)
    if derived is None:
        res.errors.append(f"{fm.where}: cannot derive which positions the fill scan visits (cursor initialisation / single +1 step / loop test): the fill rules cannot be applied to this shape")
    else:
        first, cont = derived
        if first == 1:
            res.ok(rule, {"site": fm.where, "cursor": "first examined pair is (list[0], list[1])"}, nontrivial="fill:cursor")
        else:
            res.fail(rule, finding(prop, rule, fm, inits[0], f"the fill scan starts at position {first}, not at the first pair of the rebuilt list: gaps before it are never filled", construct=f"fill cursor init {first}"))
        res.ok(rule, {"site": fm.where, "cursor": "+1 per examined pair (an inserted candle becomes the next 'previous')"})
        if cont == want_cont:
            res.ok(rule, {"site": fm.where, "end": "pairs are examined while the position is < len(list), len taken afresh"})
        else:
            res.fail(rule, finding(prop, rule, fm, loops[0].test, f"the fill scan continues while [{show_cond(cont)}], not while the position is < len(list): the end of the list is not examined / over-run", construct="fill loop end"))
    # effects: only insert; no store on existing candles, no state on self
    for s_, t in attr_stores(fn):
        res.fail("R-EFFECT", finding(prop, "R-EFFECT", fm, s_, "fill_missing_candles writes an attribute: filling must only insert fresh candles and keep no state"))
    muts = [c for c in calls_in(fn) if isinstance(c.func, ast.Attribute) and c.func.attr in ("pop", "remove", "clear", "merge", "__setattr__", "extend", "append")]
    for c in muts:
        res.fail("R-EFFECT", finding(prop, "R-EFFECT", fm, c, "fill_missing_candles mutates the list/candles other than by inserting a fresh candle"))
    if not list(attr_stores(fn)) and not muts:
        res.ok("R-EFFECT", {"site": fm.where, "why": "only effect: insert of a freshly constructed candle"}, nontrivial="fill:effect")
    rets = [n for n in ast.walk(fn) if isinstance(n, ast.Return)]
    if rets and all(n.value is not None and ast.unparse(n.value) == lst for n in rets):
        res.ok(rule, {"site": fm.where, "returns": lst})
    else:
        res.fail(rule, finding(prop, rule, fm, fn, "fill_missing_candles must return the (filled) list it was given", construct="fill return"))


# ---------------------------------------------------------------------------
# trimming


def check_trim(prop: str, res: Result, repo: Repo):
    rule = "R-TRIM"
    tm = repo.method("hexital.core.candle_manager", "CandleManager", "trim_candles")
    fn = tm.node
    loops = [n for n in ast.walk(fn) if isinstance(n, ast.While)]
    if len(loops) != 1:
        res.fail(rule, finding(prop, rule, tm, fn, "trim_candles no longer has one pop loop", construct="trim: loop"))
        return
    lp = loops[0]

    class TI(HeapInterp):
        def subscript(self, st, base, idx, node):
            txt = ast.unparse(node).replace(" ", "")
            if txt == "self.candles[0]":
                return Obj("obj", "oldest")
            if txt == "self.candles[-1]":
                return Obj("obj", "newest")
            return super().subscript(st, base, idx, node)

        def attr(self, st, base, name, node):
            if isinstance(base, Obj) and base.kind == "obj" and base.data == "self" and name == "candles":
                return Obj("list", "candles")
            return super().attr(st, base, name, node)

        def truth(self, v, st, node):
            if isinstance(v, Num):
                a = poly._single_atom(v.f)
                if a is not None and a[0] == "attr" and a[2] == "timestamp":
                    return ("present-ts", a[1])
            return super().truth(v, st, node)

    it = TI(repo, tm.module)
    st = State()
    st.env["self"] = Obj("obj", "self")
    pre = fn.body[: fn.body.index(lp)] if lp in fn.body else []
    outs = it.block(pre, st)
    live = [s for s, o in outs if o is None]
    want_d = at("oldest", "timestamp") - (at("newest", "timestamp") - at("self", "candles_lifespan"))
    ok = False
    for s in live:
        for truth, s2 in it.cond_paths(lp.test, s.fork()):
            if truth:
                for c in s2.facts:
                    if isinstance(c, tuple) and c[0] == "cmp" and c[1] == "<" and (c[2] == want_d or c[2].same(want_d)):
                        ok = True
    if ok:
        res.ok(rule, {"site": tm.where, "pop while": "candles[0].timestamp < candles[-1].timestamp - candles_lifespan (strict: a candle exactly lifespan old is kept)"}, nontrivial="trim:cond")
    else:
        res.fail(rule, finding(prop, rule, tm, lp.test, "the trim condition is not `oldest.timestamp < newest.timestamp - candles_lifespan` on the raw timestamps (strict)"))
    pops = [c for c in calls_in(lp) if isinstance(c.func, ast.Attribute) and c.func.attr in ("pop", "remove") or (isinstance(c.func, ast.Name) and c.func.id == "del")]
    if len(pops) == 1 and ast.unparse(pops[0]).replace(" ", "") == "self.candles.pop(0)":
        res.ok(rule, {"site": tm.where, "removes": "self.candles.pop(0) only"}, nontrivial="trim:pop")
    else:
        res.fail(rule, finding(prop, rule, tm, lp, "trimming must remove candles only from the front, one at a time", construct="trim: " + ", ".join(ast.unparse(c) for c in pops)))
    others = [s for s, t in attr_stores(fn)]
    for s in others:
        res.fail(rule, finding(prop, rule, tm, s, "trim_candles stores state"))
    # the pop(0) in the timestamp loop is the only way candles leave the list
    removers = []
    for n in ast.walk(fn):
        if isinstance(n, ast.Delete):
            removers.append(n)
        elif isinstance(n, (ast.Assign, ast.AugAssign)):
            for t in (n.targets if isinstance(n, ast.Assign) else [n.target]):
                if "self.candles" in ast.unparse(t):
                    removers.append(n)
        elif isinstance(n, ast.Call) and isinstance(n.func, ast.Attribute) and n.func.attr in ("pop", "remove", "clear") and n not in pops and "candles" in ast.unparse(n.func.value):
            removers.append(n)
    for r in removers:
        res.fail(rule, finding(prop, rule, tm, r, "trim_candles removes candles by something other than the timestamp test (e.g. by count): with gaps in the stream the retained window is then not `newest - lifespan`"))
    if not removers:
        res.ok(rule, {"site": tm.where, "why": "no other removal (no del / slice assignment / count-based cut)"})
    guard = [n for n in fn.body if isinstance(n, ast.If) and "candles_lifespan is None" in ast.unparse(n.test)]
    if guard:
        res.ok(rule, {"site": tm.where, "guard": "no lifespan / empty list: nothing trimmed"})
    else:
        res.fail(rule, finding(prop, rule, tm, fn, "trim_candles must do nothing when no lifespan is configured", construct="trim: lifespan None guard"))


# ---------------------------------------------------------------------------
# Heikin-Ashi


def check_ha(prop: str, res: Result, repo: Repo):
    rule = "R-VN-HA"
    ha = repo.method("hexital.candlesticks.heikinashi", "HeikinAshi", "convert_candle")
    params = [p for p in ha.params if p != "self"]
    if len(params) != 3:
        res.errors.append("HeikinAshi.convert_candle signature changed")
        return
    cn, cl, ix = params

    class HI(HeapInterp):
        def subscript(self, st, base, idx, node):
            if isinstance(base, Obj) and base.kind == "list" and isinstance(idx, Num):
                d = idx.f - A("sym", "i")
                if d.is_const() and d.const_value() == -1:
                    return Obj("obj", "prev")
                return Obj("obj", f"at[{idx.f!r}]")
            return super().subscript(st, base, idx, node)

    it = HI(repo, ha.module)
    st = State()
    st.env.update({"self": Obj("obj", "self"), cn: Obj("obj", "c"), cl: Obj("list", "L"), ix: Num(A("sym", "i"))})
    paths = it.run(ha.node, st)
    o, h, l, c = (at("c", f) for f in ("open", "high", "low", "close"))
    close_w = (o + h + l + c) / C(4)
    seen_first = seen_rest = False
    for p in paths:
        facts = p.state.facts
        first = any(isinstance(f, tuple) and f[0] == "cmp" and f[1] == "==" and f[2] == A("sym", "i") for f in facts)
        rest = any(isinstance(f, tuple) and f[0] == "cmp" and f[1] == "!=" and f[2] == A("sym", "i") for f in facts)
        I0 = A("sym", "i")

        def is_first_test(cond):
            """(True / False: the condition is `index == 0` / `index != 0`; None: something else)"""
            if isinstance(cond, tuple) and cond[0] == "cmp" and cond[2] == I0 and cond[1] in ("==", "!="):
                return cond[1] == "=="
            if isinstance(cond, tuple) and cond[0] == "not":
                r = is_first_test(cond[1])
                return None if r is None else not r
            return None

        def in_case(v, case_first):
            """the value with every choice on `index == 0` resolved for the given case"""
            if not isinstance(v, Num):
                return v
            f = v.f
            for _ in range(8):
                hit = None
                for a in poly.all_atoms(f):
                    if a[0] == "ite":
                        t = is_first_test(a[1])
                        if t is not None:
                            hit = (a, a[2] if t == case_first else a[3])
                            break
                if hit is None:
                    break
                f = poly.subst(f, {hit[0]: hit[1]})
            return Num(f)

        split_in_values = any(a[0] == "ite" and is_first_test(a[1]) is not None for fld in ("open", "high", "low", "close") for v in [final_attr(p.state, "c", fld)] if isinstance(v, Num) for a in poly.all_atoms(v.f))
        if not (first or rest) and not split_in_values:
            res.fail(rule, finding(prop, rule, ha, ha.node, "convert_candle does not distinguish the first candle (index == 0) from the others", construct="HA: index == 0 case split"))
            continue
        cases = [True] if first else [False] if rest else [True, False]
        for first in cases:
            seen_first |= first
            seen_rest |= not first
            open_w = (o + c) / C(2) if first else (at("prev", "open") + at("prev", "close")) / C(2)
            want = {"close": close_w, "open": open_w, "high": mk_fn("max", h, open_w, close_w), "low": mk_fn("min", l, open_w, close_w)}
            for fld, w in want.items():
                got = in_case(final_attr(p.state, "c", fld), first)
                if _same(got, w):
                    res.ok(rule, {"site": ha.where, "case": "first candle" if first else "later candles", "field": fld, "value": repr(w)}, nontrivial=f"HA:{first}:{fld}")
                else:
                    res.fail(rule, finding(prop, rule, ha, ha.node, f"HA-{fld} ({'first candle' if first else 'later candles'}) is {got!r}; the recurrence requires {w!r}", construct=f"HA {fld} {'first' if first else 'rest'}: {got!r}"[:190]))
            vol = final_attr(p.state, "c", "volume")
            if not _same(vol, at("c", "volume")):
                res.fail(rule, finding(prop, rule, ha, ha.node, "conversion changes the volume", construct="HA volume"))
    if not (seen_first and seen_rest):
        res.fail(rule, finding(prop, rule, ha, ha.node, "convert_candle lacks the first-candle or the later-candle case", construct="HA: cases"))


def check_conversion_typestate(prop: str, res: Result, repo: Repo):
    rule = "R-ORDER"
    cv = repo.method("hexital.core.candlestick_type", "CandlestickType", "conversion")
    fn = cv.node
    loops = [n for n in fn.body if isinstance(n, ast.For)]
    if len(loops) != 1:
        res.fail(rule, finding(prop, rule, cv, fn, "conversion() no longer has one loop over the candles", construct="conversion: loop"))
        return
    lp = loops[0]
    it = ast.unparse(lp.iter).replace(" ", "")
    lst = [p for p in cv.params if p != "self"][0]
    if it == f"range(self._find_conv_index({lst}),len({lst}))":
        res.ok(rule, {"site": cv.where, "loop": "ascending from the resume index to the end (the previous candle is already converted)"}, nontrivial="conversion:range")
    else:
        res.fail(rule, finding(prop, rule, cv, lp.iter, "conversion must walk ascending from self._find_conv_index(candles) to len(candles)"))
    for p in stmt_paths(lp.body):
        seq = []
        for item in p:
            if isinstance(item, ast.AST):
                for c in _ordered(item):
                    seq.append(c)
        names = seq
        want = ["save_clean_values", "convert_candle", "reset_candle", "tag="]
        if is_subsequence(want, names) and names.count("convert_candle") == 1:
            res.ok(rule, {"site": cv.where, "typestate": " -> ".join(want)}, nontrivial="conversion:order")
        else:
            res.fail(rule, finding(prop, rule, cv, lp, "each candle must be saved (raw values), converted, reset and tagged, in that order, exactly once", construct="conversion: " + " -> ".join(names)))
    ts = repo.find_setter(repo.cls("hexital.core.candle", "Candle"), "tag")
    if ts is not None and any(isinstance(n, ast.Raise) for n in ast.walk(ts.node)):
        res.ok(rule, {"site": ts.where, "why": "tagging a tagged candle raises: each candle is converted once"})
    else:
        res.fail(rule, finding(prop, rule, ts or cv, (ts.node if ts else fn), "the tag setter no longer rejects a second conversion", construct="tag setter: raise"))
    scv = repo.method("hexital.core.candle", "Candle", "save_clean_values")
    rcv = repo.method("hexital.core.candle", "Candle", "recover_clean_values")
    def _save_recover_by_evaluation():
        """save_clean_values, overwrite the prices, recover_clean_values: the raw prices are back (True / False / None: undecided)"""
        from . import convsem as cs

        try:
            it = cs.Interp(repo, "hexital.core.candle", "Candle")
            raw = {"open": 1.0, "high": 2.0, "low": 0.5, "close": 1.5, "volume": 0, "timestamp": cs.Sym("ts", "datetime")}
            o = cs.ObjV("candle", dict(raw, clean_values={}, indicators={"X": 3.0}, sub_indicators={}, _tag=None), "Candle")
            it.call_function(it.method("save_clean_values"), [], {}, bound_first=o)
            if not all(o.attrs.get("clean_values", {}).get(k) is v or o.attrs.get("clean_values", {}).get(k) == v for k, v in raw.items()):
                return False
            for k in ("open", "high", "low", "close"):
                o.attrs[k] = 99.0
            o.attrs["volume"] = 7
            it.call_function(it.method("recover_clean_values"), [], {}, bound_first=o)
            return all((o.attrs.get(k) is v) or (not isinstance(v, cs.Sym) and o.attrs.get(k) == v and type(o.attrs.get(k)) is type(v)) for k, v in raw.items())
        except (cs.Undecided, cs.Raised, AttributeError, TypeError):
            return None

    _sr = _save_recover_by_evaluation()
    if _sr is True:
        res.ok(rule, {"site": scv.where, "why": "save_clean_values / recover_clean_values evaluated on a model candle: the raw prices (a volume of 0 included) come back"}, nontrivial="save-recover")
    elif _sr is False:
        res.fail(rule, finding(prop, rule, rcv, rcv.node, "save_clean_values followed by recover_clean_values does not bring the raw values back (evaluated on a model candle with a volume of 0)", construct="save/recover round trip"))
    elif "self.clean_values" in ast.unparse(scv.node) and "vars(self)" in ast.unparse(scv.node):
        res.ok(rule, {"site": scv.where, "why": "raw values are copied into clean_values before conversion"})
    else:
        res.fail(rule, finding(prop, rule, scv, scv.node, "save_clean_values no longer snapshots the candle's values", construct="save_clean_values"))
    if _sr is not None:
        pass
    elif "self.clean_values.items()" in ast.unparse(rcv.node) and ("__setattr__" in ast.unparse(rcv.node) or "setattr" in ast.unparse(rcv.node)):
        res.ok(rule, {"site": rcv.where, "why": "raw values stay recoverable"})
    else:
        res.fail(rule, finding(prop, rule, rcv, rcv.node, "recover_clean_values no longer restores the saved raw values", construct="recover_clean_values"))
    cm = repo.method("hexital.core.candle_manager", "CandleManager", "convert_candles")
    if any(call_target(c) == "self.candlestick_type.conversion" and [ast.unparse(a) for a in c.args] == ["self.candles"] for c in calls_in(cm.node)):
        res.ok(rule, {"site": cm.where, "why": "manager converts its own candle list"})
    else:
        res.fail(rule, finding(prop, rule, cm, cm.node, "convert_candles must call self.candlestick_type.conversion(self.candles)", construct="convert_candles"))


def _ordered(node) -> List[str]:
    out = []

    def rec(n):
        for c in ast.iter_child_nodes(n):
            rec(c)
        if isinstance(n, ast.Call):
            out.append(call_name(n))

    rec(node)
    if isinstance(node, ast.Assign):
        for t in node.targets:
            if isinstance(t, ast.Attribute) and t.attr == "tag":
                out.append("tag=")
    return out
