"""Loader and closed-world resolver for the hexital package (pure `ast`, nothing imported)."""
from __future__ import annotations

import ast
import hashlib
import os
from dataclasses import dataclass, field
from typing import Dict, List, Optional
from .inline import inline_new_helpers
from .normalize import canonical_calls, normalize


class AnalysisError(Exception):
    """vanished anchor, unparsable file, unmodelled idiom on a needed path -> exit 2"""


@dataclass(repr=False, eq=False)
class FuncInfo:
    name: str
    qualname: str
    module: "ModuleInfo"
    node: ast.FunctionDef
    cls: Optional["ClassInfo"] = None
    kind: str = "method"  # method | property | setter | staticmethod | classmethod | function

    @property
    def where(self) -> str:
        return f"{self.module.relpath}:{self.node.lineno}"

    def __repr__(self):
        return f"<func {self.module.name}.{self.qualname}>"

    @property
    def params(self) -> List[str]:
        a = self.node.args
        return [x.arg for x in a.posonlyargs + a.args + a.kwonlyargs]


@dataclass
class FieldInfo:
    name: str
    annotation: Optional[ast.AST]
    default: Optional[ast.AST]  # the default *value* node (field(default=...) unwrapped)
    init: bool
    has_default: bool
    lineno: int


@dataclass(repr=False, eq=False)
class ClassInfo:
    name: str
    module: "ModuleInfo"
    node: ast.ClassDef
    base_names: List[str]
    methods: Dict[str, FuncInfo] = field(default_factory=dict)
    setters: Dict[str, FuncInfo] = field(default_factory=dict)
    fields: Dict[str, FieldInfo] = field(default_factory=dict)
    class_attrs: Dict[str, ast.AST] = field(default_factory=dict)
    is_dataclass: bool = False

    def __repr__(self):
        return f"<class {self.module.name}.{self.name}>"

    @property
    def where(self) -> str:
        return f"{self.module.relpath}:{self.node.lineno}"


@dataclass(repr=False, eq=False)
class ModuleInfo:
    name: str
    path: str
    relpath: str
    tree: ast.Module
    source: str
    functions: Dict[str, FuncInfo] = field(default_factory=dict)
    classes: Dict[str, ClassInfo] = field(default_factory=dict)
    imports: Dict[str, tuple] = field(default_factory=dict)  # local -> ("mod", modname) | ("sym", modname, symbol)
    assigns: Dict[str, ast.AST] = field(default_factory=dict)  # module-level NAME = value
    ext_imports: set = field(default_factory=set)

    def __repr__(self):
        return f"<module {self.name}>"


def _decorator_names(node) -> List[str]:
    out = []
    for d in node.decorator_list:
        if isinstance(d, ast.Call):
            d = d.func
        out.append(ast.unparse(d))
    return out


class Repo:
    def __init__(self, root: Optional[str] = None, package: str = "hexital"):
        self.root = os.path.abspath(root or os.environ.get("HEXLINT_REPO", "/repo"))
        self.package = package
        self.modules: Dict[str, ModuleInfo] = {}
        self._load()

    # ------------------------------------------------------------------ loading
    def _load(self):
        pkgdir = os.path.join(self.root, self.package)
        if not os.path.isdir(pkgdir):
            raise AnalysisError(f"package directory missing: {pkgdir}")
        h = hashlib.sha256()
        for dirpath, dirnames, filenames in sorted(os.walk(pkgdir)):
            dirnames[:] = sorted(d for d in dirnames if d != "__pycache__")
            for fn in sorted(filenames):
                if not fn.endswith(".py"):
                    continue
                path = os.path.join(dirpath, fn)
                rel = os.path.relpath(path, self.root)
                modname = rel[:-3].replace(os.sep, ".")
                if modname.endswith(".__init__"):
                    modname = modname[: -len(".__init__")]
                src = open(path, encoding="utf-8").read()
                h.update(rel.encode() + b"\0" + src.encode())
                try:
                    tree = ast.parse(src, filename=path)
                except SyntaxError as e:
                    raise AnalysisError(f"cannot parse {rel}: {e}")
                tree = normalize(tree)
                mi = ModuleInfo(modname, path, rel, tree, src)
                mi.is_pkg = fn == "__init__.py"
                self.modules[modname] = mi
        self.digest = h.hexdigest()[:16]
        trees = [mi.tree for mi in self.modules.values()]
        for _round in range(3):
            if not inline_new_helpers(trees):
                break
            for mi in self.modules.values():
                mi.tree = normalize(mi.tree)
            trees = [mi.tree for mi in self.modules.values()]
        from .aliases import expand_aliases

        self.alias_log: List[str] = []
        if expand_aliases(trees, self.alias_log):
            for mi in self.modules.values():
                mi.tree = normalize(mi.tree)
            trees = [mi.tree for mi in self.modules.values()]
        canonical_calls(trees)
        for mi in self.modules.values():
            self._index(mi)
        self._residual()

    def _residual(self):
        """helpers / helper classes that are not part of the pinned decomposition and survived load-time inlining.  A rule that would
        report a violation inside a function that (transitively, through calls) relies on one of them has not seen the whole
        computation: the report is downgraded to 'cannot decide' (core.run_check)."""
        from .anchors import PINNED_CLASSES, PINNED_FUNCTIONS

        dunder = lambda n: n.startswith("__") and n.endswith("__")
        res: Dict[str, str] = {}
        for mi in self.modules.values():
            for node in mi.tree.body:
                if isinstance(node, ast.FunctionDef) and node.name not in PINNED_FUNCTIONS and not dunder(node.name):
                    res[node.name] = f"{mi.relpath}:{node.lineno}"
                elif isinstance(node, ast.ClassDef):
                    pinned_family = node.name in PINNED_CLASSES or any(ast.unparse(b).split(".")[-1] in PINNED_CLASSES for b in node.bases)
                    if not pinned_family:
                        res[node.name] = f"{mi.relpath}:{node.lineno}"
                    for m in node.body:
                        if isinstance(m, ast.FunctionDef) and m.name not in PINNED_FUNCTIONS and not dunder(m.name) and pinned_family and node.name in PINNED_CLASSES:
                            res[m.name] = f"{mi.relpath}:{m.lineno}"
        self.residual = res
        self.residual_classes = {n for mi in self.modules.values() for node in mi.tree.body if isinstance(node, ast.ClassDef) and node.name in res for n in [node.name] if not any(ast.unparse(b).endswith(("Exception", "Error")) for b in node.bases)}
        self._tainted = None

    def relies_on_residual_function(self, module: str, qualname: str) -> Optional[str]:
        """a helper function outside the pinned decomposition that survived inlining and is referenced (directly) by the function"""
        if not self.residual:
            return None
        for f in self.all_functions():
            if f.module.relpath == module and f.qualname == qualname:
                if f.name in self.residual and f.name not in self.residual_classes:
                    return f.name
                for n in ast.walk(f.node):
                    nm = n.id if isinstance(n, ast.Name) else n.attr if isinstance(n, ast.Attribute) else None
                    if nm is not None and nm in self.residual and nm not in self.residual_classes:
                        return nm
        return None

    def tainted(self) -> Dict[tuple, str]:
        """(module relpath, qualname) -> helper class (a value class / enum outside the pinned decomposition) the function relies on,
        directly or through calls.  No rule models such classes; helper *functions* that could not be inlined are different: the
        interprocedural rules follow them, so they do not taint."""
        if self._tainted is not None:
            return self._tainted
        out: Dict[tuple, str] = {}
        if not self.residual_classes:
            self._tainted = out
            return out
        funcs = self.all_functions()
        byname: Dict[str, list] = {}
        for f in funcs:
            byname.setdefault(f.name, []).append(f)
        calls: Dict[int, set] = {}
        for f in funcs:
            direct, cs = None, set()
            for n in ast.walk(f.node):
                nm = n.id if isinstance(n, ast.Name) else n.attr if isinstance(n, ast.Attribute) else None
                if nm is not None and nm in self.residual_classes and direct is None:
                    direct = nm
                if isinstance(n, ast.Call):
                    c = n.func.id if isinstance(n.func, ast.Name) else n.func.attr if isinstance(n.func, ast.Attribute) else None
                    if c:
                        cs.add(c)
            if f.cls is not None and f.cls.name in self.residual_classes:
                direct = f.cls.name
            calls[id(f)] = cs
            if direct is not None:
                out[(f.module.relpath, f.qualname)] = direct
        changed = True
        while changed:
            changed = False
            for f in funcs:
                k = (f.module.relpath, f.qualname)
                if k in out:
                    continue
                for c in calls[id(f)]:
                    hit = next((out[(g.module.relpath, g.qualname)] for g in byname.get(c, []) if (g.module.relpath, g.qualname) in out), None)
                    if hit is not None:
                        out[k] = hit
                        changed = True
                        break
        self._tainted = out
        return out

    def load_extra(self, path: str, modname: str) -> ModuleInfo:
        """parse a file that is not part of the package (e.g. the reference definitions) and index it as a module"""
        if modname in self.modules:
            return self.modules[modname]
        src = open(path, encoding="utf-8").read()
        tree = normalize(ast.parse(src, filename=path))
        mi = ModuleInfo(modname, path, os.path.relpath(path, os.path.dirname(os.path.dirname(os.path.abspath(__file__)))), tree, src)
        mi.is_pkg = False
        mi.extra = True
        self.modules[modname] = mi
        self._index(mi)
        return mi

    def _abs_module(self, mi: ModuleInfo, level: int, module: Optional[str]) -> str:
        if level == 0:
            return module or ""
        parts = mi.name.split(".")
        if not getattr(mi, "is_pkg", False):
            parts = parts[:-1]
        if level > 1:
            parts = parts[: len(parts) - (level - 1)]
        return ".".join(parts + ([module] if module else []))

    def _index(self, mi: ModuleInfo):
        for node in ast.walk(mi.tree):
            if isinstance(node, ast.Import):
                for a in node.names:
                    local = a.asname or a.name.split(".")[0]
                    mi.imports[local] = ("mod", a.name if a.asname else a.name.split(".")[0])
                    if not a.name.startswith(self.package):
                        mi.ext_imports.add(a.name.split(".")[0])
            elif isinstance(node, ast.ImportFrom):
                base = self._abs_module(mi, node.level, node.module)
                if not base.startswith(self.package):
                    mi.ext_imports.add(base.split(".")[0])
                for a in node.names:
                    local = a.asname or a.name
                    if a.name == "*":
                        mi.imports["*" + base] = ("star", base)
                        continue
                    sub = f"{base}.{a.name}"
                    mi.imports[local] = ("sym", base, a.name)
                    mi.imports.setdefault("__submod__" + local, ("mod", sub))
        for node in mi.tree.body:
            if isinstance(node, ast.FunctionDef):
                mi.functions[node.name] = FuncInfo(node.name, node.name, mi, node, None, "function")
            elif isinstance(node, ast.ClassDef):
                mi.classes[node.name] = self._index_class(mi, node)
            elif isinstance(node, ast.Assign) and len(node.targets) == 1 and isinstance(node.targets[0], ast.Name):
                mi.assigns[node.targets[0].id] = node.value
            elif isinstance(node, ast.AnnAssign) and isinstance(node.target, ast.Name) and node.value is not None:
                mi.assigns[node.target.id] = node.value

    def _index_class(self, mi: ModuleInfo, node: ast.ClassDef) -> ClassInfo:
        ci = ClassInfo(node.name, mi, node, [ast.unparse(b) for b in node.bases])
        ci.is_dataclass = any(d.startswith("dataclass") for d in _decorator_names(node))
        for st in node.body:
            if isinstance(st, ast.FunctionDef):
                decs = _decorator_names(st)
                kind = "method"
                if "property" in decs:
                    kind = "property"
                elif any(d.endswith(".setter") for d in decs):
                    kind = "setter"
                elif "staticmethod" in decs:
                    kind = "staticmethod"
                elif "classmethod" in decs:
                    kind = "classmethod"
                fi = FuncInfo(st.name, f"{node.name}.{st.name}", mi, st, ci, kind)
                if kind == "setter":
                    ci.setters[st.name] = fi
                else:
                    ci.methods[st.name] = fi
            elif isinstance(st, ast.AnnAssign) and isinstance(st.target, ast.Name):
                name = st.target.id
                default, init, has_default = st.value, True, st.value is not None
                if isinstance(st.value, ast.Call) and ast.unparse(st.value.func) in ("field", "dataclasses.field"):
                    default, has_default = None, False
                    for kw in st.value.keywords:
                        if kw.arg == "init" and isinstance(kw.value, ast.Constant):
                            init = bool(kw.value.value)
                        elif kw.arg == "default":
                            default, has_default = kw.value, True
                        elif kw.arg == "default_factory":
                            default, has_default = ast.Call(func=kw.value, args=[], keywords=[]), True
                ci.fields[name] = FieldInfo(name, st.annotation, default, init, has_default, st.lineno)
                if st.value is not None:
                    ci.class_attrs[name] = st.value
            elif isinstance(st, ast.Assign) and len(st.targets) == 1 and isinstance(st.targets[0], ast.Name):
                ci.class_attrs[st.targets[0].id] = st.value
        return ci

    # ------------------------------------------------------------------ resolution
    def module(self, name: str) -> ModuleInfo:
        if name not in self.modules:
            raise AnalysisError(f"module vanished: {name}")
        return self.modules[name]

    def resolve(self, mi: ModuleInfo, name: str, _depth=0):
        """resolve a (possibly dotted) name used in module `mi` to ClassInfo | FuncInfo | ModuleInfo | ('assign', mi, node) | None"""
        if _depth > 8:
            return None
        head, _, rest = name.partition(".")
        target = None
        if head in mi.classes:
            target = mi.classes[head]
        elif head in mi.functions:
            target = mi.functions[head]
        elif head in mi.imports:
            imp = mi.imports[head]
            if imp[0] == "mod":
                target = self.modules.get(imp[1])
                if target is None and not rest:
                    return None
                if target is None:
                    # `import a.b` style: try progressively
                    return None
            else:
                base = self.modules.get(imp[1])
                if base is not None:
                    target = self.resolve(base, imp[2], _depth + 1)
                if target is None:
                    target = self.modules.get(f"{imp[1]}.{imp[2]}")
        elif head in mi.assigns:
            target = ("assign", mi, mi.assigns[head])
        else:
            for k, imp in mi.imports.items():
                if imp[0] == "star":
                    base = self.modules.get(imp[1])
                    if base is not None:
                        r = self.resolve(base, head, _depth + 1)
                        if r is not None:
                            target = r
                            break
        if target is None:
            # package submodule referenced through the package (`hexital.analysis.movement`)
            sub = self.modules.get(f"{mi.name}.{head}") if getattr(mi, "is_pkg", False) else None
            target = sub
        if target is None or not rest:
            return target
        if isinstance(target, ModuleInfo):
            return self.resolve(target, rest, _depth + 1)
        if isinstance(target, ClassInfo):
            m = self.find_method(target, rest)
            return m
        return None

    def cls(self, modname: str, clsname: str) -> ClassInfo:
        mi = self.module(modname)
        if clsname not in mi.classes:
            r = self.resolve(mi, clsname)  # moved to another module and re-exported by an import
            if isinstance(r, ClassInfo):
                return r
            raise AnalysisError(f"class vanished: {modname}.{clsname}")
        return mi.classes[clsname]

    def func(self, modname: str, fname: str) -> FuncInfo:
        mi = self.module(modname)
        if fname not in mi.functions:
            r = self.resolve(mi, fname)  # moved to another module and re-exported by an import
            if isinstance(r, FuncInfo):
                return r
            raise AnalysisError(f"function vanished: {modname}.{fname}")
        return mi.functions[fname]

    def method(self, modname: str, clsname: str, mname: str) -> FuncInfo:
        ci = self.cls(modname, clsname)
        m = self.find_method(ci, mname)
        if m is None:
            raise AnalysisError(f"method vanished: {modname}.{clsname}.{mname}")
        return m

    def mro(self, ci: ClassInfo) -> List[ClassInfo]:
        out, seen = [], set()

        def walk(c):
            if id(c) in seen:
                return
            seen.add(id(c))
            out.append(c)
            for b in c.base_names:
                r = self.resolve(c.module, b)
                if isinstance(r, ClassInfo):
                    walk(r)

        walk(ci)
        return out

    def find_method(self, ci: ClassInfo, name: str) -> Optional[FuncInfo]:
        for c in self.mro(ci):
            if name in c.methods:
                return c.methods[name]
        return None

    def find_setter(self, ci: ClassInfo, name: str) -> Optional[FuncInfo]:
        for c in self.mro(ci):
            if name in c.setters:
                return c.setters[name]
        return None

    def all_fields(self, ci: ClassInfo) -> Dict[str, FieldInfo]:
        out: Dict[str, FieldInfo] = {}
        for c in reversed(self.mro(ci)):
            out.update(c.fields)
        return out

    def is_subclass(self, ci: ClassInfo, base: ClassInfo) -> bool:
        return any(c is base for c in self.mro(ci))

    def dict_literal(self, modname: str, varname: str) -> Dict[str, object]:
        """read NAME = {"k": Symbol, ...} and resolve the values"""
        mi = self.module(modname)
        node = mi.assigns.get(varname)
        if not isinstance(node, ast.Dict):
            raise AnalysisError(f"registry {modname}.{varname} is not a dict literal any more")
        out = {}
        for k, v in zip(node.keys, node.values):
            if not (isinstance(k, ast.Constant) and isinstance(k.value, str)):
                raise AnalysisError(f"registry {modname}.{varname}: non-literal key {ast.unparse(k) if k else '**'}")
            r = self.resolve(mi, ast.unparse(v))
            if r is None:
                raise AnalysisError(f"registry {modname}.{varname}[{k.value!r}]: cannot resolve {ast.unparse(v)}")
            out[k.value] = r
        return out

    def all_functions(self) -> List[FuncInfo]:
        out = []
        for mi in self.modules.values():
            if getattr(mi, "extra", False):
                continue
            out.extend(mi.functions.values())
            for ci in mi.classes.values():
                out.extend(ci.methods.values())
                out.extend(ci.setters.values())
        return out

    # convenience anchors -------------------------------------------------
    def indicator_base(self) -> ClassInfo:
        return self.cls("hexital.core.indicator", "Indicator")

    def managed(self) -> ClassInfo:
        return self.cls("hexital.core.indicator", "Managed")

    def indicator_map(self) -> Dict[str, ClassInfo]:
        m = self.dict_literal("hexital.indicators", "INDICATOR_MAP")
        for k, v in m.items():
            if not isinstance(v, ClassInfo):
                raise AnalysisError(f"INDICATOR_MAP[{k!r}] is not a class")
        return m

    def shipped(self) -> List[ClassInfo]:
        seen, out = set(), []
        for v in self.indicator_map().values():
            if id(v) not in seen:
                seen.add(id(v))
                out.append(v)
        return out


def norm_src(node: ast.AST) -> str:
    return ast.unparse(node)
