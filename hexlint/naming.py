"""Name closure of an indicator's composition tree (own name + helper names of every depth, through helper classes' own trees)."""
from __future__ import annotations

from typing import Dict, List, Set, Tuple

from .indic import CompTree, Helper, build_tree
from .model import ClassInfo, Repo

SELF = "<name>"


def subst_name(template: str, selfname: str) -> str:
    return template.replace(SELF, selfname)


def name_closure(repo: Repo, ci: ClassInfo, selfname: str = SELF, _depth: int = 0, _seen=None) -> List[Tuple[str, int, str]]:
    """[(name, depth, path)] of every series an instance of `ci` named `selfname` writes"""
    out = [(selfname, 0, ci.name)]
    if _depth > 6:
        return out
    tree = build_tree(repo, ci)
    for h in tree.roots:
        out.extend(_helper_closure(repo, h, selfname, 1, ci.name, _depth))
    return out


def _helper_closure(repo, h: Helper, selfname: str, depth: int, path: str, rec: int):
    hname = subst_name(h.name, selfname)
    out = [(hname, depth, f"{path}>{h.cls.name}")]
    # helpers registered on this helper inside the owner's _initialise
    for c in h.children:
        out.extend(_helper_closure(repo, c, selfname, depth + 1, f"{path}>{h.cls.name}", rec))
    # helpers the helper's own class registers in its own _initialise
    if h.cls is not repo.managed() and rec < 6:
        sub = name_closure(repo, h.cls, hname, rec + 1)
        for n, d, p in sub[1:]:
            out.append((n, depth + d, f"{path}>{p}"))
    return out


def max_depth(repo: Repo) -> int:
    return max((d for ci in repo.shipped() for _, d, _ in name_closure(repo, ci)), default=0)
