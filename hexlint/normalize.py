"""Behaviour-preserving canonicalisation of the parsed source, applied once when a module is loaded, so that every rule and the
abstract interpreter see one spelling of constructs that mean the same:

  t = E ; return t                      ->  return E                 (temporary returned at once)
  not a == b / not a is b / not a in b  ->  a != b / a is not b / a not in b   (and the converses)
  if not C: A else: B                   ->  if C: B else: A          (two-armed ifs and conditional expressions)
  if C: v = X else: v = Y               ->  v = X if C else Y        (both arms one assignment to the same plain name)
  v += E                                ->  v = v + E                (plain local names only; numbers, strings, datetimes)

Original line numbers are kept on the rewritten nodes.  Nothing here changes what the code computes."""
from __future__ import annotations

import ast

_INV = {ast.Eq: ast.NotEq, ast.NotEq: ast.Eq, ast.Is: ast.IsNot, ast.IsNot: ast.Is, ast.In: ast.NotIn, ast.NotIn: ast.In}


def _strip_not(test):
    """(test', flipped)"""
    flipped = False
    while isinstance(test, ast.UnaryOp) and isinstance(test.op, ast.Not):
        test, flipped = test.operand, not flipped
    return test, flipped


class Normalizer(ast.NodeTransformer):
    def visit_UnaryOp(self, node):
        self.generic_visit(node)
        if isinstance(node.op, ast.Not) and isinstance(node.operand, ast.Compare) and len(node.operand.ops) == 1 and type(node.operand.ops[0]) in _INV:
            c = node.operand
            return ast.copy_location(ast.Compare(left=c.left, ops=[_INV[type(c.ops[0])]()], comparators=c.comparators), node)
        return node

    def visit_AugAssign(self, node):
        self.generic_visit(node)
        if isinstance(node.target, ast.Name):
            load = ast.copy_location(ast.Name(id=node.target.id, ctx=ast.Load()), node.target)
            return ast.copy_location(ast.Assign(targets=[node.target], value=ast.copy_location(ast.BinOp(left=load, op=node.op, right=node.value), node)), node)
        return node

    def visit_IfExp(self, node):
        self.generic_visit(node)
        t, flipped = _strip_not(node.test)
        if flipped:
            return ast.copy_location(ast.IfExp(test=t, body=node.orelse, orelse=node.body), node)
        return node

    def visit_If(self, node):
        self.generic_visit(node)
        node = self._swap(node)
        return self._to_ifexp(node)

    def _swap(self, node):
        if node.orelse and not (len(node.orelse) == 1 and isinstance(node.orelse[0], ast.If)):
            t, flipped = _strip_not(node.test)
            if flipped:
                return ast.copy_location(ast.If(test=t, body=node.orelse, orelse=node.body), node)
        return node

    def _to_ifexp(self, node):
        if len(node.body) == 1 and len(node.orelse) == 1:
            a, b = node.body[0], node.orelse[0]
            if (
                isinstance(a, ast.Assign) and isinstance(b, ast.Assign) and len(a.targets) == 1 and len(b.targets) == 1
                and isinstance(a.targets[0], ast.Name) and isinstance(b.targets[0], ast.Name) and a.targets[0].id == b.targets[0].id
            ):
                new = ast.Assign(targets=[a.targets[0]], value=ast.copy_location(ast.IfExp(test=node.test, body=a.value, orelse=b.value), node.test))
                return ast.copy_location(new, node)
        return node

    def _block(self, stmts):
        out = []
        for st in stmts:
            if (
                isinstance(st, ast.Return) and isinstance(st.value, ast.Name) and out and isinstance(out[-1], ast.Assign)
                and len(out[-1].targets) == 1 and isinstance(out[-1].targets[0], ast.Name) and out[-1].targets[0].id == st.value.id
            ):
                prev = out.pop()
                out.append(ast.copy_location(ast.Return(value=prev.value), prev))
            else:
                out.append(st)
        return out

    def generic_visit(self, node):
        super().generic_visit(node)
        for f in ("body", "orelse", "finalbody"):
            v = getattr(node, f, None)
            if isinstance(v, list) and v and isinstance(v[0], ast.stmt):
                setattr(node, f, self._block(v))
        return node


def normalize(tree: ast.AST) -> ast.AST:
    tree = Normalizer().visit(tree)
    ast.fix_missing_locations(tree)
    return tree
