"""Behaviour-preserving canonicalisation of the parsed source, applied once when a module is loaded, so that every rule and the
abstract interpreter see one spelling of constructs that mean the same:

  t = E ; return t                      ->  return E                 (temporary returned at once)
  not a == b / not a is b / not a in b  ->  a != b / a is not b / a not in b   (and the converses)
  if not C: A else: B                   ->  if C: B else: A          (two-armed ifs and conditional expressions)
  if C: v = X else: v = Y               ->  v = X if C else Y        (both arms one assignment to the same plain name)
  v += E                                ->  v = v + E                (plain local names only; numbers, strings, datetimes)
  if C: <... return|raise|continue|break> else: R   ->   if C: <...>  ;  R      (an else after a terminating body is unnested)
  dict(a=x, b=y)                        ->  {"a": x, "b": y}
  logger.debug(...) / logging.info(...) / print(...) / warnings.warn(...) as a statement   ->   removed (diagnostic output only)
  f(x, p2=y)                            ->  f(x, y)                  (second pass, needs all signatures: keywords of calls to functions
                                                                      defined in the tree with one signature become positional)

Original line numbers are kept on the rewritten nodes.  Nothing here changes what the code computes."""
from __future__ import annotations

import ast

_INV = {ast.Eq: ast.NotEq, ast.NotEq: ast.Eq, ast.Is: ast.IsNot, ast.IsNot: ast.Is, ast.In: ast.NotIn, ast.NotIn: ast.In}


def _strip_not(test):
    """(test', flipped)"""
    flipped = False
    while isinstance(test, ast.UnaryOp) and isinstance(test.op, ast.Not):
        test, flipped = test.operand, not flipped
    return test, flipped


class Normalizer(ast.NodeTransformer):
    def visit_UnaryOp(self, node):
        self.generic_visit(node)
        if isinstance(node.op, ast.Not) and isinstance(node.operand, ast.Compare) and len(node.operand.ops) == 1 and type(node.operand.ops[0]) in _INV:
            c = node.operand
            return ast.copy_location(ast.Compare(left=c.left, ops=[_INV[type(c.ops[0])]()], comparators=c.comparators), node)
        return node

    def visit_AugAssign(self, node):
        self.generic_visit(node)
        if isinstance(node.target, ast.Name):
            load = ast.copy_location(ast.Name(id=node.target.id, ctx=ast.Load()), node.target)
            return ast.copy_location(ast.Assign(targets=[node.target], value=ast.copy_location(ast.BinOp(left=load, op=node.op, right=node.value), node)), node)
        return node

    def visit_IfExp(self, node):
        self.generic_visit(node)
        t, flipped = _strip_not(node.test)
        if flipped:
            return ast.copy_location(ast.IfExp(test=t, body=node.orelse, orelse=node.body), node)
        return node

    def visit_If(self, node):
        self.generic_visit(node)
        node = self._swap(node)
        return self._to_ifexp(node)

    @staticmethod
    def _terminates(stmts) -> bool:
        return bool(stmts) and isinstance(stmts[-1], (ast.Return, ast.Raise, ast.Continue, ast.Break))

    def _swap(self, node):
        if node.orelse and not (len(node.orelse) == 1 and isinstance(node.orelse[0], ast.If)):
            tb, te = self._terminates(node.body), self._terminates(node.orelse)
            if tb and te:
                # both arms leave: the smaller one becomes the guard clause
                size = lambda stmts: sum(1 for s_ in stmts for _ in ast.walk(s_))
                te, tb = (True, False) if size(node.orelse) < size(node.body) else (False, True)
            if tb and not te:
                return node  # guard clause already first: the else is unnested by _block
            if te and not tb:
                # make the terminating arm the guard:  if C: X else: return  ->  if not C: return ; X
                t, flipped = _strip_not(node.test)
                test = t if flipped else ast.copy_location(ast.UnaryOp(op=ast.Not(), operand=node.test), node.test)
                if isinstance(test, ast.UnaryOp) and isinstance(test.operand, ast.Compare) and len(test.operand.ops) == 1 and type(test.operand.ops[0]) in _INV:
                    c = test.operand
                    test = ast.copy_location(ast.Compare(left=c.left, ops=[_INV[type(c.ops[0])]()], comparators=c.comparators), c)
                return ast.copy_location(ast.If(test=test, body=node.orelse, orelse=node.body), node)
            t, flipped = _strip_not(node.test)
            if flipped:
                return ast.copy_location(ast.If(test=t, body=node.orelse, orelse=node.body), node)
        return node

    def _to_ifexp(self, node):
        if len(node.body) == 1 and len(node.orelse) == 1:
            a, b = node.body[0], node.orelse[0]
            if (
                isinstance(a, ast.Assign) and isinstance(b, ast.Assign) and len(a.targets) == 1 and len(b.targets) == 1
                and isinstance(a.targets[0], ast.Name) and isinstance(b.targets[0], ast.Name) and a.targets[0].id == b.targets[0].id
            ):
                new = ast.Assign(targets=[a.targets[0]], value=ast.copy_location(ast.IfExp(test=node.test, body=a.value, orelse=b.value), node.test))
                return ast.copy_location(new, node)
        return node

    def visit_Call(self, node):
        self.generic_visit(node)
        if isinstance(node.func, ast.Name) and node.func.id == "dict" and not node.args and node.keywords and all(k.arg for k in node.keywords):
            return ast.copy_location(ast.Dict(keys=[ast.copy_location(ast.Constant(value=k.arg), node) for k in node.keywords], values=[k.value for k in node.keywords]), node)
        return node

    @staticmethod
    def _is_diagnostic(st) -> bool:
        if not (isinstance(st, ast.Expr) and isinstance(st.value, ast.Call)):
            return False
        f = st.value.func
        if isinstance(f, ast.Name) and f.id == "print":
            return True
        if isinstance(f, ast.Attribute) and isinstance(f.value, ast.Name):
            recv, m = f.value.id, f.attr
            if recv.lower() in ("logger", "log", "logging", "_logger", "_log") and m in ("debug", "info", "warning", "warn", "error", "exception", "critical", "log"):
                return True
            if recv == "warnings" and m == "warn":
                return True
        return False

    def _block(self, stmts):
        kept = [st for st in stmts if not self._is_diagnostic(st)]
        stmts = kept if kept else [ast.copy_location(ast.Pass(), stmts[0])] if stmts else stmts
        flat = []
        for st in stmts:
            flat.append(st)
            # unnest an else that follows a terminating body (also through elif chains)
            while isinstance(flat[-1], ast.If) and flat[-1].orelse and flat[-1].body and isinstance(flat[-1].body[-1], (ast.Return, ast.Raise, ast.Continue, ast.Break)):
                cur = flat[-1]
                rest = cur.orelse
                cur.orelse = []
                flat.extend(self._block(rest))
        stmts = flat
        out = []
        for st in stmts:
            if (
                isinstance(st, ast.Return) and isinstance(st.value, ast.Name) and out and isinstance(out[-1], ast.Assign)
                and len(out[-1].targets) == 1 and isinstance(out[-1].targets[0], ast.Name) and out[-1].targets[0].id == st.value.id
            ):
                prev = out.pop()
                out.append(ast.copy_location(ast.Return(value=prev.value), prev))
            else:
                out.append(st)
        return out

    def generic_visit(self, node):
        super().generic_visit(node)
        for f in ("body", "orelse", "finalbody"):
            v = getattr(node, f, None)
            if isinstance(v, list) and v and isinstance(v[0], ast.stmt):
                setattr(node, f, self._block(v))
        return node


def normalize(tree: ast.AST) -> ast.AST:
    tree = Normalizer().visit(tree)
    ast.fix_missing_locations(tree)
    return tree


def unique_signatures(trees):
    """{function name: [param names]} for names all of whose definitions share one parameter list (self/cls dropped)"""
    sigs = {}
    for tree in trees:
        for n in ast.walk(tree):
            if isinstance(n, (ast.FunctionDef, ast.AsyncFunctionDef)) and not n.args.vararg and not n.args.kwarg and not n.args.posonlyargs and not n.args.kwonlyargs:
                ps = tuple(a.arg for a in n.args.args if a.arg not in ("self", "cls"))
                sigs.setdefault(n.name, set()).add(ps)
    return {k: list(next(iter(v))) for k, v in sigs.items() if len(v) == 1 and not (k.startswith("__") and k.endswith("__"))}


class _Kw2Pos(ast.NodeTransformer):
    def __init__(self, sigs):
        self.sigs = sigs

    def visit_Call(self, node):
        self.generic_visit(node)
        nm = node.func.attr if isinstance(node.func, ast.Attribute) else node.func.id if isinstance(node.func, ast.Name) else None
        ps = self.sigs.get(nm)
        if not ps or not node.keywords or any(isinstance(a, ast.Starred) for a in node.args) or any(k.arg is None for k in node.keywords):
            return node
        kws = {k.arg: k for k in node.keywords}
        if not set(kws) <= set(ps):
            return node
        args = list(node.args)
        while len(args) < len(ps) and ps[len(args)] in kws:
            args.append(kws.pop(ps[len(args)]).value)
        node.args = args
        node.keywords = [k for k in node.keywords if k.arg in kws]
        return node


def canonical_calls(trees):
    """second pass over all modules of the package: keywords -> positional where the callee's signature is unambiguous"""
    sigs = unique_signatures(trees)
    for t in trees:
        _Kw2Pos(sigs).visit(t)
        ast.fix_missing_locations(t)
