"""Behaviour-preserving canonicalisation of the parsed source, applied once when a module is loaded, so that every rule and the
abstract interpreter see one spelling of constructs that mean the same:

  t = E ; return t                      ->  return E                 (temporary returned at once)
  not a == b / not a is b / not a in b  ->  a != b / a is not b / a not in b   (and the converses)
  if not C: A else: B                   ->  if C: B else: A          (two-armed ifs and conditional expressions)
  if C: v = X else: v = Y               ->  v = X if C else Y        (both arms one assignment to the same plain name)
  v += E                                ->  v = v + E                (plain local names only; numbers, strings, datetimes)
  if C: <... return|raise|continue|break> else: R   ->   if C: <...>  ;  R      (an else after a terminating body is unnested)
  dict(a=x, b=y)                        ->  {"a": x, "b": y}
  logger.debug(...) / logging.info(...) / print(...) / warnings.warn(...) as a statement   ->   removed (diagnostic output only)
  g = (<generator>) ; <statement using g once>   ->   generator substituted into the statement
  return all(C for v in IT) / any(..) / not any(..) / next((E for v in IT if C), D)  ->  the explicit loop with early returns
  reversed(range(a, b))                 ->  range(b - 1, a - 1, -1)
  in a test position:  B if A else False -> A and B ;  True if A else B -> A or B ;  False if A else B -> not A and B ; A if A2 else True ...
  a, b = x, y                           ->  a = x ; b = y            (when y does not mention a)
  for v in IT: acc = acc + E            ->  acc = acc + sum(E for v in IT)   (accumulation loop whose body is that one statement)
  for v in chain(A, B): BODY            ->  for v in A: BODY ; for v in B: BODY
  f(A if C else B)   (as a statement)   ->  if C: f(A) else: f(B)
  return A if C else B                  ->  if C: return A ; return B   (a returned conditional becomes early returns, recursively)
  v = A if C else None                  ->  if C: v = A  else: v = None   (a conditional with a None arm is kept / made a statement)
  f(x, p2=y)                            ->  f(x, y)                  (second pass, needs all signatures: keywords of calls to functions
                                                                      defined in the tree with one signature become positional)

Original line numbers are kept on the rewritten nodes.  Nothing here changes what the code computes."""
from __future__ import annotations

import ast
import copy

_INV = {ast.Eq: ast.NotEq, ast.NotEq: ast.Eq, ast.Is: ast.IsNot, ast.IsNot: ast.Is, ast.In: ast.NotIn, ast.NotIn: ast.In}


def _view_like(e) -> bool:
    if isinstance(e, ast.Call) and isinstance(e.func, ast.Attribute) and e.func.attr in ("values", "items", "keys") and not e.args and not e.keywords:
        e = e.func.value
    return _plain_ref(e)


def _negate(t):
    """the negation of a test, pushed inwards: De Morgan over and / or, inverted ==, is, in"""
    if isinstance(t, ast.UnaryOp) and isinstance(t.op, ast.Not):
        return t.operand
    if isinstance(t, ast.Compare) and len(t.ops) == 1 and type(t.ops[0]) in _INV:
        return ast.copy_location(ast.Compare(left=t.left, ops=[_INV[type(t.ops[0])]()], comparators=t.comparators), t)
    if isinstance(t, ast.BoolOp):
        return ast.copy_location(ast.BoolOp(op=ast.Or() if isinstance(t.op, ast.And) else ast.And(), values=[_negate(v) for v in t.values]), t)
    return ast.copy_location(ast.UnaryOp(op=ast.Not(), operand=t), t)


def _loop_guards(body):
    """one spelling for `skip this element`:  `if C: continue ; REST` with a small REST (<= 12 nodes) is `if not C: REST`;
    a loop body ending in a big `if P: BLOCK` is `if not P: continue ; BLOCK`"""
    size = lambda stmts: sum(1 for b in stmts for _n in ast.walk(b))
    for i, st in enumerate(body):
        if isinstance(st, ast.If) and not st.orelse and len(st.body) == 1 and isinstance(st.body[0], ast.Continue) and i + 1 < len(body):
            rest = body[i + 1:]
            if size(rest) <= 12 and not any(isinstance(n, ast.NamedExpr) for n in ast.walk(st.test)):
                new = ast.copy_location(ast.If(test=_negate(st.test), body=_loop_guards(rest), orelse=[]), st)
                return body[:i] + [new]
            break
    last = body[-1] if body else None
    if isinstance(last, ast.If) and not last.orelse and size(last.body) > 12 and not isinstance(last.body[-1], (ast.Return, ast.Raise, ast.Continue, ast.Break)):
        guard = ast.copy_location(ast.If(test=_negate(last.test), body=[ast.copy_location(ast.Continue(), last)], orelse=[]), last)
        return body[:-1] + [guard] + _loop_guards(last.body)
    return body


def _unroll_comp(node):
    """[E(k) for k in (c1, c2, ..)] with a literal tuple / list / dict-literal view of at most 8 constant-like elements and no filter:
    the element expressions [E(c1), E(c2), ..]; None when the comprehension is not of that kind"""
    if not isinstance(node, (ast.ListComp, ast.GeneratorExp)) or len(node.generators) != 1:
        return None
    g = node.generators[0]
    if g.ifs or g.is_async:
        return None

    def unit(e):
        return isinstance(e, ast.Constant) or _plain_ref(e)

    it = g.iter
    rows = None
    if isinstance(it, (ast.Tuple, ast.List)) and 1 <= len(it.elts) <= 8:
        rows = list(it.elts)
    elif isinstance(it, ast.Call) and isinstance(it.func, ast.Attribute) and it.func.attr in ("items", "keys", "values") and not it.args and isinstance(it.func.value, ast.Dict) and 1 <= len(it.func.value.keys) <= 8 and all(k is not None for k in it.func.value.keys):
        d = it.func.value
        rows = [ast.Tuple(elts=[k, v], ctx=ast.Load()) for k, v in zip(d.keys, d.values)] if it.func.attr == "items" else list(d.keys) if it.func.attr == "keys" else list(d.values)
    elif isinstance(it, ast.Dict) and 1 <= len(it.keys) <= 8 and all(k is not None for k in it.keys):
        rows = list(it.keys)
    if rows is None:
        return None
    if isinstance(g.target, ast.Name):
        if not all(unit(r) or isinstance(r, ast.Tuple) and all(unit(x) for x in r.elts) for r in rows):
            return None
        maps = [{g.target.id: r} for r in rows]
    elif isinstance(g.target, ast.Tuple) and all(isinstance(t, ast.Name) for t in g.target.elts):
        if not all(isinstance(r, (ast.Tuple, ast.List)) and len(r.elts) == len(g.target.elts) and all(unit(x) for x in r.elts) for r in rows):
            return None
        maps = [dict(zip([t.id for t in g.target.elts], r.elts)) for r in rows]
    else:
        return None
    if any(isinstance(n, (ast.Lambda, ast.ListComp, ast.GeneratorExp, ast.SetComp, ast.DictComp, ast.NamedExpr)) for n in ast.walk(node.elt)):
        return None
    out = []
    for mp in maps:
        class _S(ast.NodeTransformer):
            def visit_Name(s_, n):
                return copy.deepcopy(mp[n.id]) if n.id in mp and isinstance(n.ctx, ast.Load) else n

        out.append(_S().visit(copy.deepcopy(node.elt)))
    return out


def _binds_loop_exit(stmts) -> bool:
    """a break / continue in `stmts` that belongs to the loop these statements are the body of (not to a loop nested in them)"""
    for st in stmts:
        if isinstance(st, (ast.Break, ast.Continue)):
            return True
        if isinstance(st, (ast.For, ast.While, ast.AsyncFor)):
            if _binds_loop_exit(st.orelse):
                return True
            continue
        if isinstance(st, (ast.FunctionDef, ast.ClassDef, ast.AsyncFunctionDef)):
            continue
        for f_ in ("body", "orelse", "finalbody"):
            if _binds_loop_exit(getattr(st, f_, []) or []):
                return True
        for h in getattr(st, "handlers", []) or []:
            if _binds_loop_exit(h.body):
                return True
    return False


def _plain_ref(e) -> bool:
    """a name or a dotted attribute of a name (a function / bound method handed around as a value)"""
    while isinstance(e, ast.Attribute):
        e = e.value
    return isinstance(e, ast.Name)


def _strip_not(test):
    """(test', flipped)"""
    flipped = False
    while isinstance(test, ast.UnaryOp) and isinstance(test.op, ast.Not):
        test, flipped = test.operand, not flipped
    return test, flipped


class Normalizer(ast.NodeTransformer):
    def visit_UnaryOp(self, node):
        self.generic_visit(node)
        if isinstance(node.op, ast.Not) and isinstance(node.operand, ast.Compare) and len(node.operand.ops) == 1 and type(node.operand.ops[0]) in _INV:
            c = node.operand
            return ast.copy_location(ast.Compare(left=c.left, ops=[_INV[type(c.ops[0])]()], comparators=c.comparators), node)
        return node

    def visit_Subscript(self, node):
        self.generic_visit(node)
        # {K1: v1, K2: v2}[K1] -> v1   (literal table, constant / enum-member key)
        if isinstance(node.ctx, ast.Load) and isinstance(node.value, ast.Dict) and node.value.keys and all(k is not None for k in node.value.keys):
            kd = lambda k: repr(k.value) if isinstance(k, ast.Constant) else f"{k.value.id}.{k.attr}" if isinstance(k, ast.Attribute) and isinstance(k.value, ast.Name) else None
            want, keys = kd(node.slice), [kd(k) for k in node.value.keys]
            if want is not None and all(k is not None for k in keys) and keys.count(want) == 1:
                return node.value.values[keys.index(want)]
            # {False: a, True: b}[bool(c)]  ->  b if c else a
            sl = node.slice
            if sorted(k for k in keys if k is not None) == ["False", "True"] and len(keys) == 2 and isinstance(sl, ast.Call) and isinstance(sl.func, ast.Name) and sl.func.id == "bool" and len(sl.args) == 1 and not sl.keywords:
                return ast.copy_location(ast.IfExp(test=sl.args[0], body=node.value.values[keys.index("True")], orelse=node.value.values[keys.index("False")]), node)
        return node

    def visit_AugAssign(self, node):
        self.generic_visit(node)
        if isinstance(node.target, ast.Name):
            load = ast.copy_location(ast.Name(id=node.target.id, ctx=ast.Load()), node.target)
            return ast.copy_location(ast.Assign(targets=[node.target], value=ast.copy_location(ast.BinOp(left=load, op=node.op, right=node.value), node)), node)
        return node

    @staticmethod
    def _bool_ternary(e):
        """conditional expression with a boolean constant arm, as the equivalent and/or (valid where only truthiness is observed)"""
        if not isinstance(e, ast.IfExp):
            return e
        a, b, c = e.test, e.body, e.orelse
        cb = b.value if isinstance(b, ast.Constant) and isinstance(b.value, bool) else None
        cc = c.value if isinstance(c, ast.Constant) and isinstance(c.value, bool) else None
        neg = lambda x: ast.copy_location(ast.UnaryOp(op=ast.Not(), operand=x), x)
        mk = lambda op, xs: ast.copy_location(ast.BoolOp(op=op, values=xs), e)
        if cc is False:
            return mk(ast.And(), [a, b])          # b if a else False
        if cb is True:
            return mk(ast.Or(), [a, c])           # True if a else c
        if cb is False:
            return mk(ast.And(), [neg(a), c])     # False if a else c
        if cc is True:
            return mk(ast.Or(), [neg(a), b])      # b if a else True
        return e

    @staticmethod
    def _expand_quantifier(node):
        """all(P(x) for x in (a, b, c))  ->  P(a) and P(b) and P(c)   (any -> or): a literal, short sequence, in a test position"""
        if isinstance(node, ast.Call) and isinstance(node.func, ast.Name) and node.func.id in ("all", "any") and len(node.args) == 1 and not node.keywords and isinstance(node.args[0], (ast.GeneratorExp, ast.ListComp)):
            g = node.args[0]
            if len(g.generators) == 1 and not g.generators[0].ifs and isinstance(g.generators[0].target, ast.Name) and isinstance(g.generators[0].iter, (ast.Tuple, ast.List)) and 1 <= len(g.generators[0].iter.elts) <= 8 and not any(isinstance(e, ast.Starred) for e in g.generators[0].iter.elts):
                tgt = g.generators[0].target.id

                class _S(ast.NodeTransformer):
                    def __init__(s_, val):
                        s_.val = val

                    def visit_Name(s_, n):
                        return copy.deepcopy(s_.val) if n.id == tgt and isinstance(n.ctx, ast.Load) else n

                vals = [_S(e).visit(copy.deepcopy(g.elt)) for e in g.generators[0].iter.elts]
                if len(vals) == 1:
                    return vals[0]
                return ast.copy_location(ast.BoolOp(op=ast.And() if node.func.id == "all" else ast.Or(), values=vals), node)
        return node

    def _test(self, e):
        """canonicalise an expression in a position where only its truth value is observed"""
        e = self._bool_ternary(e)
        e = self._expand_quantifier(e)
        if isinstance(e, ast.Call) and isinstance(e.func, ast.Name) and e.func.id == "bool" and len(e.args) == 1 and not e.keywords:
            return self._test(e.args[0])  # bool(X) where only the truth value is observed
        if isinstance(e, ast.BoolOp):
            e.values = [self._test(v) for v in e.values]
        elif isinstance(e, ast.UnaryOp) and isinstance(e.op, ast.Not):
            e.operand = self._test(e.operand)
            if isinstance(e.operand, ast.UnaryOp) and isinstance(e.operand.op, ast.Not):
                return e.operand.operand  # not not X, where only the truth value is observed
        return e

    def visit_FunctionDef(self, node):
        self.generic_visit(node)
        # a function that ends in `if C: <block>` is the guard form `if not C: return ; <block>` (helpers inlined as statements leave
        # the nested form behind; the pinned tree uses guards)
        for _ in range(6):
            last = node.body[-1] if node.body else None
            if isinstance(last, ast.If) and not last.orelse and len(node.body) > 0 and not self._terminates(last.body) and sum(1 for b in last.body for _n in ast.walk(b)) > 12:
                t, flipped = _strip_not(last.test)
                test = t if flipped else ast.copy_location(ast.UnaryOp(op=ast.Not(), operand=last.test), last.test)
                if isinstance(test, ast.UnaryOp) and isinstance(test.operand, ast.Compare) and len(test.operand.ops) == 1 and type(test.operand.ops[0]) in _INV:
                    c = test.operand
                    test = ast.copy_location(ast.Compare(left=c.left, ops=[_INV[type(c.ops[0])]()], comparators=c.comparators), c)
                guard = ast.copy_location(ast.If(test=test, body=[ast.copy_location(ast.Return(value=None), last)], orelse=[]), last)
                node.body = node.body[:-1] + [guard] + last.body
            else:
                break
        return node

    def visit_Delete(self, node):
        self.generic_visit(node)
        # del xs[i]  ->  xs.pop(i)   (same removal, same IndexError / KeyError; the popped value is dropped)
        if len(node.targets) == 1 and isinstance(node.targets[0], ast.Subscript) and not isinstance(node.targets[0].slice, (ast.Slice, ast.Tuple)):
            t = node.targets[0]
            call = ast.Call(func=ast.Attribute(value=t.value, attr="pop", ctx=ast.Load()), args=[t.slice], keywords=[])
            return ast.fix_missing_locations(ast.copy_location(ast.Expr(value=call), node))
        return node

    def visit_Expr(self, node):
        self.generic_visit(node)
        c = node.value
        # setattr(x, "name", v)  ->  x.name = v
        if isinstance(c, ast.Call) and isinstance(c.func, ast.Name) and c.func.id == "setattr" and len(c.args) == 3 and not c.keywords and isinstance(c.args[1], ast.Constant) and isinstance(c.args[1].value, str) and c.args[1].value.isidentifier():
            return ast.copy_location(ast.Assign(targets=[ast.Attribute(value=c.args[0], attr=c.args[1].value, ctx=ast.Store())], value=c.args[2]), node)
        return node

    def visit_JoinedStr(self, node):
        self.generic_visit(node)
        # f"{'abc'}_x" -> "abc_x": constant pieces are merged (a loop over constant names was unrolled)
        parts = []
        for v in node.values:
            if isinstance(v, ast.FormattedValue) and isinstance(v.value, ast.Constant) and isinstance(v.value.value, (str, int)) and not isinstance(v.value.value, bool) and v.conversion == -1 and v.format_spec is None:
                v = ast.Constant(value=str(v.value.value))
            if isinstance(v, ast.Constant) and isinstance(v.value, str) and parts and isinstance(parts[-1], ast.Constant) and isinstance(parts[-1].value, str):
                parts[-1] = ast.Constant(value=parts[-1].value + v.value)
            else:
                parts.append(v)
        parts = [x for x in parts if not (isinstance(x, ast.Constant) and x.value == "")]
        if not parts:
            return ast.copy_location(ast.Constant(value=""), node)
        if len(parts) == 1 and isinstance(parts[0], ast.Constant):
            return ast.copy_location(parts[0], node)
        node.values = parts
        return node

    def visit_For(self, node):
        r = self._visit_For(node)
        for x in (r if isinstance(r, list) else [r]):
            if isinstance(x, ast.For):
                x.body = _loop_guards(x.body)
        return r

    def _visit_For(self, node):
        self.generic_visit(node)
        # for v in [*A, *B] / (*A, *B): BODY  is  for v in chain(A, B): BODY  (the body does not change A or B: it runs after both are read)
        if isinstance(node.iter, (ast.List, ast.Tuple)) and len(node.iter.elts) >= 2 and all(isinstance(e, ast.Starred) for e in node.iter.elts) and all(_view_like(e.value) for e in node.iter.elts):
            node.iter = ast.copy_location(ast.Call(func=ast.Name(id="chain", ctx=ast.Load()), args=[e.value for e in node.iter.elts], keywords=[]), node.iter)
            ast.fix_missing_locations(node)
        # for v in (A if c else B): BODY   ->   if c: for v in A: BODY  else: for v in B: BODY ;   a loop over range(0) runs never
        if isinstance(node.iter, ast.IfExp) and not node.orelse and sum(1 for b in node.body for _n in ast.walk(b)) <= 150:
            def _loop(it_):
                if isinstance(it_, ast.Call) and isinstance(it_.func, ast.Name) and it_.func.id == "range" and len(it_.args) == 1 and isinstance(it_.args[0], ast.Constant) and it_.args[0].value == 0:
                    return [ast.copy_location(ast.Pass(), node)]
                if isinstance(it_, (ast.List, ast.Tuple, ast.Set)) and not it_.elts or isinstance(it_, ast.Dict) and not it_.keys:
                    return [ast.copy_location(ast.Pass(), node)]  # nothing to iterate
                lp = ast.copy_location(ast.For(target=copy.deepcopy(node.target), iter=it_, body=copy.deepcopy(node.body), orelse=[]), node)
                r = self._visit_For(lp)
                return r if isinstance(r, list) else [r]

            new = ast.copy_location(ast.If(test=self._test(node.iter.test), body=_loop(node.iter.body), orelse=_loop(node.iter.orelse)), node)
            return ast.fix_missing_locations(new)
        # for i, x in enumerate(S[a:], a): BODY   ->   for i in range(a, len(S)): BODY[x := S[i]]      (a is a position: >= 0)
        it = node.iter
        if (
            isinstance(it, ast.Call) and isinstance(it.func, ast.Name) and it.func.id == "enumerate" and it.args
            and isinstance(it.args[0], ast.Subscript) and isinstance(it.args[0].slice, ast.Slice)
            and it.args[0].slice.lower is not None and it.args[0].slice.upper is None and it.args[0].slice.step is None
            and _plain_ref(it.args[0].value)
            and isinstance(node.target, ast.Tuple) and len(node.target.elts) == 2 and all(isinstance(e, ast.Name) for e in node.target.elts)
        ):
            start = it.args[1] if len(it.args) == 2 else next((k.value for k in it.keywords if k.arg == "start"), None)
            lo = it.args[0].slice.lower
            seq = it.args[0].value
            i_name, x_name = node.target.elts[0].id, node.target.elts[1].id
            body_stores = {n.id for b in node.body + node.orelse for n in ast.walk(b) if isinstance(n, ast.Name) and isinstance(n.ctx, (ast.Store, ast.Del))}
            if start is not None and ast.unparse(start) == ast.unparse(lo) and isinstance(lo, (ast.Name, ast.Constant)) and not ({i_name, x_name} & body_stores) and i_name != x_name:
                elem = ast.Subscript(value=copy.deepcopy(seq), slice=ast.Name(id=i_name, ctx=ast.Load()), ctx=ast.Load())

                class _E(ast.NodeTransformer):
                    def visit_Name(s_, n):
                        return copy.deepcopy(elem) if n.id == x_name and isinstance(n.ctx, ast.Load) else n

                new_body = [_E().visit(b) for b in node.body]
                rng = ast.Call(func=ast.Name(id="range", ctx=ast.Load()), args=[copy.deepcopy(lo), ast.Call(func=ast.Name(id="len", ctx=ast.Load()), args=[copy.deepcopy(seq)], keywords=[])], keywords=[])
                node = ast.copy_location(ast.For(target=ast.Name(id=i_name, ctx=ast.Store()), iter=rng, body=new_body, orelse=node.orelse), node)
                ast.fix_missing_locations(node)
        # for k in ("a", "b", "c"): <a few simple statements>   ->   the statements once per constant
        def _unit(e):
            return isinstance(e, ast.Constant) and isinstance(e.value, (str, int, float, type(None))) or _plain_ref(e)

        def _construction(e):
            """ClassName(...) with plain arguments: a fresh object built for this element only"""
            return isinstance(e, ast.Call) and isinstance(e.func, ast.Name) and e.func.id[:1].isupper() and not any(isinstance(n, (ast.Lambda, ast.NamedExpr, ast.Yield, ast.Await)) for n in ast.walk(e))

        tnames = [node.target.id] if isinstance(node.target, ast.Name) else [e.id for e in node.target.elts] if isinstance(node.target, ast.Tuple) and all(isinstance(e, ast.Name) for e in node.target.elts) else None
        if (
            isinstance(node.iter, (ast.Tuple, ast.List)) and 1 <= len(node.iter.elts) <= 8 and tnames and not node.orelse and len(node.body) <= 8
            and (
                (all(_unit(e) for e in node.iter.elts) or (all(_construction(e) for e in node.iter.elts) and sum(1 for b in node.body for n in ast.walk(b) if isinstance(n, ast.Name) and n.id == node.target.id and isinstance(n.ctx, ast.Load)) == 1)) if isinstance(node.target, ast.Name)
                else all(isinstance(e, (ast.Tuple, ast.List)) and len(e.elts) == len(tnames) and all(_unit(x) for x in e.elts) for e in node.iter.elts)
            )
            and not _binds_loop_exit(node.body)
            and not any(isinstance(n, ast.Name) and n.id in tnames and isinstance(n.ctx, ast.Store) for b in node.body for n in ast.walk(b))
            and not any(isinstance(n, (ast.FunctionDef, ast.Lambda, ast.Yield, ast.YieldFrom)) for b in node.body for n in ast.walk(b))
        ):
            out = []
            for e in node.iter.elts:
                mp = {tnames[0]: e} if isinstance(node.target, ast.Name) else dict(zip(tnames, e.elts))

                class _S(ast.NodeTransformer):
                    def visit_Name(s_, n):
                        return copy.deepcopy(mp[n.id]) if n.id in mp and isinstance(n.ctx, ast.Load) else n

                for b in node.body:
                    nb = _S().visit(copy.deepcopy(b))
                    nb = self.visit(nb)  # setattr / getattr with the now constant name
                    out.extend(nb if isinstance(nb, list) else [nb])
            return out
        # accumulation loop -> sum(...)
        if len(node.body) == 1 and not node.orelse and isinstance(node.body[0], ast.Assign) and len(node.body[0].targets) == 1 and isinstance(node.body[0].targets[0], ast.Name):
            st = node.body[0]
            acc = st.targets[0].id
            v = st.value
            if isinstance(v, ast.BinOp) and isinstance(v.op, ast.Add):
                for a, e in ((v.left, v.right), (v.right, v.left)):
                    if isinstance(a, ast.Name) and a.id == acc and not any(isinstance(n, ast.Name) and n.id == acc for n in ast.walk(e)):
                        gen = ast.GeneratorExp(elt=e, generators=[ast.comprehension(target=node.target, iter=node.iter, ifs=[], is_async=0)])
                        call = ast.Call(func=ast.Name(id="sum", ctx=ast.Load()), args=[gen], keywords=[])
                        new = ast.Assign(targets=[ast.Name(id=acc, ctx=ast.Store())], value=ast.BinOp(left=ast.Name(id=acc, ctx=ast.Load()), op=ast.Add(), right=call))
                        return ast.fix_missing_locations(ast.copy_location(new, node))
        it = node.iter
        if isinstance(it, (ast.ListComp, ast.GeneratorExp)) and len(it.generators) == 1 and not node.orelse and not any(isinstance(n, (ast.Break,)) for b in node.body for n in ast.walk(b)):
            g = it.generators[0]
            bind = ast.copy_location(ast.Assign(targets=[node.target], value=it.elt), node)
            inner = [bind] + list(node.body)
            # `x = x` bindings (the comprehension just filters) are dropped
            if isinstance(node.target, ast.Name) and isinstance(it.elt, ast.Name) and node.target.id == it.elt.id:
                inner = list(node.body)
            if g.ifs:
                cond = g.ifs[0] if len(g.ifs) == 1 else ast.BoolOp(op=ast.And(), values=list(g.ifs))
                inner = [ast.copy_location(ast.If(test=cond, body=inner, orelse=[]), node)]
            return ast.copy_location(ast.For(target=g.target, iter=g.iter, body=inner, orelse=[]), node)
        return node

    def visit_While(self, node):
        self.generic_visit(node)
        node.test = self._test(node.test)
        # while True: x = E ; if C1(x): break ; if C2(x): break ; REST     ->     while not C1(E) and not C2(E): REST
        if isinstance(node.test, ast.Constant) and node.test.value is True and not node.orelse:
            lead, k = [], 0
            while k < len(node.body) and isinstance(node.body[k], ast.Assign) and len(node.body[k].targets) == 1 and isinstance(node.body[k].targets[0], ast.Name):
                lead.append(node.body[k])
                k += 1
            guards = []
            while k < len(node.body) and isinstance(node.body[k], ast.If) and not node.body[k].orelse and len(node.body[k].body) == 1 and isinstance(node.body[k].body[0], ast.Break):
                guards.append(node.body[k])
                k += 1
            rest = node.body[k:]
            names = [a.targets[0].id for a in lead]
            used_in_rest = any(isinstance(n, ast.Name) and n.id in names for b in rest for n in ast.walk(b))
            pure = all(not any(isinstance(n, (ast.Call, ast.NamedExpr, ast.Lambda)) for n in ast.walk(a.value)) for a in lead)
            if guards and rest and not used_in_rest and pure and len(set(names)) == len(names) and not _binds_loop_exit(rest):
                mp = {}
                for a in lead:
                    class _S0(ast.NodeTransformer):
                        def visit_Name(s_, n):
                            return copy.deepcopy(mp[n.id]) if n.id in mp and isinstance(n.ctx, ast.Load) else n

                    mp[a.targets[0].id] = _S0().visit(copy.deepcopy(a.value))

                class _S(ast.NodeTransformer):
                    def visit_Name(s_, n):
                        return copy.deepcopy(mp[n.id]) if n.id in mp and isinstance(n.ctx, ast.Load) else n

                conds = [_negate(_S().visit(copy.deepcopy(g.test))) for g in guards]
                node.test = conds[0] if len(conds) == 1 else ast.copy_location(ast.BoolOp(op=ast.And(), values=conds), node)
                node.body = rest
                ast.fix_missing_locations(node)
                node.test = self._test(node.test)
        node.body = _loop_guards(node.body)
        return node

    def visit_IfExp(self, node):
        self.generic_visit(node)
        node.test = self._test(node.test)
        t, flipped = _strip_not(node.test)
        if flipped:
            return ast.copy_location(ast.IfExp(test=t, body=node.orelse, orelse=node.body), node)
        return node

    def visit_If(self, node):
        self.generic_visit(node)
        node.test = self._test(node.test)
        node = self._swap(node)
        return self._to_ifexp(node)

    @staticmethod
    def _terminates(stmts) -> bool:
        return bool(stmts) and isinstance(stmts[-1], (ast.Return, ast.Raise, ast.Continue, ast.Break))

    def _swap(self, node):
        if node.orelse and not (len(node.orelse) == 1 and isinstance(node.orelse[0], ast.If)):
            tb, te = self._terminates(node.body), self._terminates(node.orelse)
            if tb and te:
                # both arms leave: the smaller one becomes the guard clause
                size = lambda stmts: sum(1 for s_ in stmts for _ in ast.walk(s_))
                te, tb = (True, False) if size(node.orelse) < size(node.body) else (False, True)
            if tb and not te:
                return node  # guard clause already first: the else is unnested by _block
            if te and not tb:
                # make the terminating arm the guard:  if C: X else: return  ->  if not C: return ; X
                t, flipped = _strip_not(node.test)
                test = t if flipped else ast.copy_location(ast.UnaryOp(op=ast.Not(), operand=node.test), node.test)
                if isinstance(test, ast.UnaryOp) and isinstance(test.operand, ast.Compare) and len(test.operand.ops) == 1 and type(test.operand.ops[0]) in _INV:
                    c = test.operand
                    test = ast.copy_location(ast.Compare(left=c.left, ops=[_INV[type(c.ops[0])]()], comparators=c.comparators), c)
                return ast.copy_location(ast.If(test=test, body=node.orelse, orelse=node.body), node)
            t, flipped = _strip_not(node.test)
            if flipped:
                return ast.copy_location(ast.If(test=t, body=node.orelse, orelse=node.body), node)
        return node

    @staticmethod
    def _is_ref(e) -> bool:
        return isinstance(e, (ast.Name, ast.Subscript)) or (isinstance(e, ast.Attribute) and Normalizer._is_ref(e.value))

    @staticmethod
    def _is_none(e) -> bool:
        return isinstance(e, ast.Constant) and e.value is None

    def _to_ifexp(self, node):
        if len(node.body) == 1 and len(node.orelse) == 1:
            a, b = node.body[0], node.orelse[0]
            # a conditional with a None arm selects between kinds of value: it stays a statement (the interpreters fork on it)
            if isinstance(a, ast.Assign) and isinstance(b, ast.Assign) and (self._is_none(a.value) or self._is_none(b.value)):
                return node
            # a choice between two existing objects (`src = candle if first else candles[i - 1]`) is kept as a statement too
            if isinstance(a, ast.Assign) and isinstance(b, ast.Assign) and self._is_ref(a.value) and self._is_ref(b.value) and (isinstance(a.value, ast.Subscript) or isinstance(b.value, ast.Subscript)):
                return node
            if (
                isinstance(a, ast.Assign) and isinstance(b, ast.Assign) and len(a.targets) == 1 and len(b.targets) == 1
                and isinstance(a.targets[0], ast.Name) and isinstance(b.targets[0], ast.Name) and a.targets[0].id == b.targets[0].id
            ):
                new = ast.Assign(targets=[a.targets[0]], value=ast.copy_location(ast.IfExp(test=node.test, body=a.value, orelse=b.value), node.test))
                return ast.copy_location(new, node)
        return node

    def visit_ListComp(self, node):
        self.generic_visit(node)
        elts = _unroll_comp(node)
        return ast.copy_location(ast.List(elts=elts, ctx=ast.Load()), node) if elts is not None else node

    def visit_Assign(self, node):
        self.generic_visit(node)
        # a, b = (f(n) for n in (x, y))   ->   a, b = (f(x), f(y))      (the generator is consumed whole by the unpacking)
        if isinstance(node.value, ast.GeneratorExp) and len(node.targets) == 1 and isinstance(node.targets[0], (ast.Tuple, ast.List)):
            elts = _unroll_comp(node.value)
            if elts is not None:
                node.value = ast.copy_location(ast.Tuple(elts=elts, ctx=ast.Load()), node.value)
        # a, b = (e1, e2)   ->   a = e1 ; b = e2      (no ei reads a target)
        if (
            len(node.targets) == 1 and isinstance(node.targets[0], (ast.Tuple, ast.List)) and isinstance(node.value, (ast.Tuple, ast.List))
            and len(node.targets[0].elts) == len(node.value.elts) >= 2 and all(isinstance(t, ast.Attribute) and _plain_ref(t) for t in node.targets[0].elts)
            and all(isinstance(e, ast.Constant) or isinstance(e, (ast.Dict, ast.List, ast.Set)) and not (getattr(e, "elts", None) or getattr(e, "keys", None)) for e in node.value.elts)
            and len({ast.unparse(t) for t in node.targets[0].elts}) == len(node.targets[0].elts)
        ):
            # self.a, self.b, self.c = {}, {}, None   ->   three stores (fresh literals read nothing)
            return [ast.copy_location(ast.Assign(targets=[t], value=e), node) for t, e in zip(node.targets[0].elts, node.value.elts)]
        if (
            len(node.targets) == 1 and isinstance(node.targets[0], (ast.Tuple, ast.List)) and isinstance(node.value, (ast.Tuple, ast.List))
            and len(node.targets[0].elts) == len(node.value.elts) >= 2 and all(isinstance(t, ast.Name) for t in node.targets[0].elts)
            and not any(isinstance(e, ast.Starred) for e in node.value.elts)
        ):
            tn = {t.id for t in node.targets[0].elts}
            if len(tn) == len(node.targets[0].elts) and not any(isinstance(n, ast.Name) and n.id in tn for e in node.value.elts for n in ast.walk(e)):
                return [ast.copy_location(ast.Assign(targets=[t], value=e), node) for t, e in zip(node.targets[0].elts, node.value.elts)]
        return node

    def visit_Call(self, node):
        self.generic_visit(node)
        # dict.fromkeys(("a", "b"), v) -> {"a": v, "b": v}      (v is an immutable value / a look-up: sharing it is not observable)
        if (
            isinstance(node.func, ast.Attribute) and node.func.attr == "fromkeys" and isinstance(node.func.value, ast.Name) and node.func.value.id == "dict"
            and 1 <= len(node.args) <= 2 and not node.keywords and isinstance(node.args[0], (ast.Tuple, ast.List)) and 1 <= len(node.args[0].elts) <= 8
            and all(isinstance(k, ast.Constant) and isinstance(k.value, str) for k in node.args[0].elts)
        ):
            val = node.args[1] if len(node.args) == 2 else ast.Constant(value=None)
            return ast.copy_location(ast.Dict(keys=list(node.args[0].elts), values=[copy.deepcopy(val) for _ in node.args[0].elts]), node)
        # dict(zip(("a", "b"), (x, y))) -> {"a": x, "b": y}
        if (
            isinstance(node.func, ast.Name) and node.func.id == "dict" and len(node.args) == 1 and not node.keywords and isinstance(node.args[0], ast.Call)
            and isinstance(node.args[0].func, ast.Name) and node.args[0].func.id == "zip" and len(node.args[0].args) == 2
            and all(isinstance(a, (ast.Tuple, ast.List)) for a in node.args[0].args) and len(node.args[0].args[0].elts) == len(node.args[0].args[1].elts) <= 8
            and all(isinstance(k, ast.Constant) and isinstance(k.value, str) for k in node.args[0].args[0].elts)
        ):
            return ast.copy_location(ast.Dict(keys=list(node.args[0].args[0].elts), values=list(node.args[0].args[1].elts)), node)
        # f(**{"a": x, "b": y}) -> f(a=x, b=y)
        if any(k.arg is None and isinstance(k.value, ast.Dict) for k in node.keywords):
            kws = []
            for k in node.keywords:
                if k.arg is None and isinstance(k.value, ast.Dict) and k.value.keys and all(isinstance(x, ast.Constant) and isinstance(x.value, str) and x.value.isidentifier() for x in k.value.keys):
                    kws.extend(ast.keyword(arg=x.value, value=v) for x, v in zip(k.value.keys, k.value.values))
                else:
                    kws.append(k)
            node.keywords = kws
        # f(*[a, b]) / f(*(a, b)) / f(*(g(k) for k in ("x", "y")))  ->  f(a, b)
        if any(isinstance(a, ast.Starred) for a in node.args):
            new_args = []
            for a in node.args:
                if isinstance(a, ast.Starred) and isinstance(a.value, (ast.Tuple, ast.List)) and not any(isinstance(x, ast.Starred) for x in a.value.elts):
                    new_args.extend(a.value.elts)
                elif isinstance(a, ast.Starred) and isinstance(a.value, ast.GeneratorExp) and _unroll_comp(a.value) is not None:
                    new_args.extend(_unroll_comp(a.value))
                else:
                    new_args.append(a)
            node.args = new_args
        # tuple(<gen over a literal>) / list(..) / sum(..) / max(..) / min(..) / sorted(..): the generator is consumed whole
        if isinstance(node.func, ast.Name) and node.func.id in ("tuple", "list", "sum", "max", "min", "sorted", "set", "frozenset") and len(node.args) >= 1 and isinstance(node.args[0], ast.GeneratorExp):
            elts = _unroll_comp(node.args[0])
            if elts is not None:
                node.args[0] = ast.copy_location(ast.Tuple(elts=elts, ctx=ast.Load()), node.args[0])
        # "abc".capitalize() / .upper() / .lower() / .title() on a literal
        if isinstance(node.func, ast.Attribute) and isinstance(node.func.value, ast.Constant) and isinstance(node.func.value.value, str) and node.func.attr in ("capitalize", "upper", "lower", "title", "casefold", "strip") and not node.args and not node.keywords:
            return ast.copy_location(ast.Constant(value=getattr(node.func.value.value, node.func.attr)()), node)
        # getattr(x, "name") -> x.name
        if isinstance(node.func, ast.Name) and node.func.id == "getattr" and len(node.args) == 2 and not node.keywords and isinstance(node.args[1], ast.Constant) and isinstance(node.args[1].value, str) and node.args[1].value.isidentifier():
            return ast.copy_location(ast.Attribute(value=node.args[0], attr=node.args[1].value, ctx=ast.Load()), node)
        # (f if c else g)(args) -> f(args) if c else g(args) ;  attrgetter("a")(x) -> x.a
        if isinstance(node.func, ast.IfExp):
            f = node.func
            mk = lambda fn_: self.visit_Call(ast.copy_location(ast.Call(func=fn_, args=copy.deepcopy(node.args), keywords=copy.deepcopy(node.keywords)), node))
            return ast.copy_location(ast.IfExp(test=f.test, body=mk(f.body), orelse=mk(f.orelse)), node)
        if isinstance(node.func, ast.Call) and isinstance(node.func.func, ast.Name) and node.func.func.id == "attrgetter" and len(node.func.args) == 1 and isinstance(node.func.args[0], ast.Constant) and isinstance(node.func.args[0].value, str) and node.func.args[0].value.isidentifier() and len(node.args) == 1 and not node.keywords and not node.func.keywords:
            return ast.copy_location(ast.Attribute(value=node.args[0], attr=node.func.args[0].value, ctx=ast.Load()), node)
        if any(isinstance(a, ast.Starred) and isinstance(a.value, (ast.Tuple, ast.List)) for a in node.args):
            args = []
            for a in node.args:
                if isinstance(a, ast.Starred) and isinstance(a.value, (ast.Tuple, ast.List)):
                    args.extend(a.value.elts)
                else:
                    args.append(a)
            node.args = args
        if isinstance(node.func, ast.Name) and node.func.id == "reversed" and len(node.args) == 1 and isinstance(node.args[0], ast.Call) and isinstance(node.args[0].func, ast.Name) and node.args[0].func.id == "range" and len(node.args[0].args) in (1, 2) and not node.args[0].keywords:
            r = node.args[0]
            a, b = (ast.Constant(value=0), r.args[0]) if len(r.args) == 1 else (r.args[0], r.args[1])
            one = ast.Constant(value=1)
            new = ast.Call(func=ast.Name(id="range", ctx=ast.Load()), args=[ast.BinOp(left=b, op=ast.Sub(), right=one), ast.BinOp(left=a, op=ast.Sub(), right=one), ast.UnaryOp(op=ast.USub(), operand=one)], keywords=[])
            return ast.copy_location(new, node)
        # operator.lt(a, b) -> a < b   (and the other comparison / arithmetic functions of the operator module)
        if isinstance(node.func, ast.Attribute) and isinstance(node.func.value, ast.Name) and node.func.value.id == "operator" and len(node.args) == 2 and not node.keywords:
            cmpops = {"lt": ast.Lt, "le": ast.LtE, "gt": ast.Gt, "ge": ast.GtE, "eq": ast.Eq, "ne": ast.NotEq, "is_": ast.Is, "is_not": ast.IsNot}
            binops = {"add": ast.Add, "sub": ast.Sub, "mul": ast.Mult, "truediv": ast.Div}
            if node.func.attr in cmpops:
                return ast.copy_location(ast.Compare(left=node.args[0], ops=[cmpops[node.func.attr]()], comparators=[node.args[1]]), node)
            if node.func.attr in binops:
                return ast.copy_location(ast.BinOp(left=node.args[0], op=binops[node.func.attr](), right=node.args[1]), node)
        # datetime(y, m, d).replace(tzinfo=X)  ->  datetime(y, m, d, tzinfo=X)
        if (
            isinstance(node.func, ast.Attribute) and node.func.attr == "replace" and not node.args and len(node.keywords) == 1 and node.keywords[0].arg == "tzinfo"
            and isinstance(node.func.value, ast.Call) and isinstance(node.func.value.func, ast.Name) and node.func.value.func.id == "datetime"
            and not any(k.arg == "tzinfo" for k in node.func.value.keywords)
        ):
            inner = node.func.value
            return ast.copy_location(ast.Call(func=inner.func, args=inner.args, keywords=list(inner.keywords) + [node.keywords[0]]), node)
        if isinstance(node.func, ast.Name) and node.func.id == "dict" and not node.args and node.keywords and all(k.arg for k in node.keywords):
            return ast.copy_location(ast.Dict(keys=[ast.copy_location(ast.Constant(value=k.arg), node) for k in node.keywords], values=[k.value for k in node.keywords]), node)
        return node

    @staticmethod
    def _is_diagnostic(st) -> bool:
        if not (isinstance(st, ast.Expr) and isinstance(st.value, ast.Call)):
            return False
        f = st.value.func
        if _renders_container(st.value):
            return False  # formatting an object that holds candle lists is work, not just output: stays visible (C07 R-HISTORY)
        if isinstance(f, ast.Name) and f.id == "print":
            return True
        if isinstance(f, ast.Attribute) and isinstance(f.value, ast.Name):
            recv, m = f.value.id, f.attr
            if recv.lower() in ("logger", "log", "logging", "_logger", "_log") and m in ("debug", "info", "warning", "warn", "error", "exception", "critical", "log"):
                return True
            if recv == "warnings" and m == "warn":
                return True
        return False

    # ---- library calls -> explicit loops ------------------------------------------------------------------------------
    @staticmethod
    def _gen_parts(g):
        """(target, iter, condition or None, element) of a one-clause generator / list comprehension"""
        if isinstance(g, (ast.GeneratorExp, ast.ListComp)) and len(g.generators) == 1 and not g.generators[0].is_async:
            c = g.generators[0]
            cond = None
            if c.ifs:
                cond = c.ifs[0] if len(c.ifs) == 1 else ast.BoolOp(op=ast.And(), values=list(c.ifs))
            return c.target, c.iter, cond, g.elt
        return None

    def _loopify_return(self, st: ast.Return):
        v = st.value
        neg = False
        if isinstance(v, ast.UnaryOp) and isinstance(v.op, ast.Not):
            v, neg = v.operand, True
        mk = lambda x: ast.copy_location(x, st)
        const = lambda b: mk(ast.Return(value=ast.copy_location(ast.Constant(value=b), st)))
        if isinstance(v, ast.Call) and isinstance(v.func, ast.Name) and v.func.id in ("all", "any") and len(v.args) == 1 and not v.keywords:
            parts = self._gen_parts(v.args[0])
            if parts is not None:
                tgt, it, cond, elt = parts
                is_all = v.func.id == "all"
                hit = ast.copy_location(ast.UnaryOp(op=ast.Not(), operand=elt), elt) if is_all else elt
                test = hit if cond is None else ast.copy_location(ast.BoolOp(op=ast.And(), values=[cond, hit]), elt)
                early = (not is_all) != neg  # value returned at the first hit
                loop = mk(ast.For(target=tgt, iter=it, body=[mk(ast.If(test=test, body=[const(early)], orelse=[]))], orelse=[]))
                return [loop, const(not early)]
        # next((E for v in IT if C), D) possibly inside  <next> + k / <next> - k
        if not neg:
            wrap = None
            core = v
            if isinstance(v, ast.BinOp) and isinstance(v.op, (ast.Add, ast.Sub)) and isinstance(v.right, ast.Constant):
                core, wrap = v.left, v
            if isinstance(core, ast.Call) and isinstance(core.func, ast.Name) and core.func.id == "next" and len(core.args) == 2 and not core.keywords:
                parts = self._gen_parts(core.args[0])
                if parts is not None:
                    tgt, it, cond, elt = parts
                    def w(e):
                        return e if wrap is None else ast.copy_location(ast.BinOp(left=e, op=wrap.op, right=wrap.right), wrap)
                    body = [mk(ast.Return(value=w(elt)))]
                    if cond is not None:
                        body = [mk(ast.If(test=cond, body=body, orelse=[]))]
                    loop = mk(ast.For(target=tgt, iter=it, body=body, orelse=[]))
                    return [loop, mk(ast.Return(value=w(core.args[1])))]
        return None

    @staticmethod
    def _nullness(e):
        """True: the expression is None; False: it cannot be None (a literal / a constructor call); None: unknown"""
        if isinstance(e, ast.Constant):
            return e.value is None
        if isinstance(e, (ast.Dict, ast.List, ast.Tuple, ast.Set, ast.JoinedStr)):
            return False
        if isinstance(e, ast.Call) and isinstance(e.func, ast.Name) and e.func.id[:1].isupper() and not e.func.id.isupper():
            return False  # ClassName(...)
        return None

    def _thread_nullness(self, stmts):
        """if C: ..; x = None  else: ..; x = Cls(..)   [y = x]   if y is None: A [else: B]
        the second test is decided in each arm of the first: it is moved into the arms (a value helper that returns None early,
        inlined in front of the caller's `if result is None: return`, becomes the caller's guard again)"""
        import copy as _c

        out = list(stmts)
        for _ in range(8):
            hit = False
            for i, st in enumerate(out):
                if not (isinstance(st, ast.If) and st.body and st.orelse):
                    continue
                la, lb = st.body[-1], st.orelse[-1]
                if not (isinstance(la, ast.Assign) and isinstance(lb, ast.Assign) and len(la.targets) == 1 and len(lb.targets) == 1 and isinstance(la.targets[0], ast.Name) and isinstance(lb.targets[0], ast.Name) and la.targets[0].id == lb.targets[0].id):
                    continue
                na, nb = self._nullness(la.value), self._nullness(lb.value)
                if na is None or nb is None or na == nb:
                    continue
                names = {la.targets[0].id}
                j = i + 1
                copies = []
                while j < len(out) and isinstance(out[j], ast.Assign) and len(out[j].targets) == 1 and isinstance(out[j].targets[0], ast.Name) and isinstance(out[j].value, ast.Name) and out[j].value.id in names:
                    names.add(out[j].targets[0].id)
                    copies.append(out[j])
                    j += 1
                if j >= len(out) or not isinstance(out[j], ast.If):
                    continue
                t = out[j].test
                if not (isinstance(t, ast.Compare) and len(t.ops) == 1 and isinstance(t.ops[0], (ast.Is, ast.IsNot)) and isinstance(t.left, ast.Name) and t.left.id in names and isinstance(t.comparators[0], ast.Constant) and t.comparators[0].value is None):
                    continue
                when_none, when_some = (out[j].body, out[j].orelse) if isinstance(t.ops[0], ast.Is) else (out[j].orelse, out[j].body)
                arm_none, arm_some = (st.body, st.orelse) if na else (st.orelse, st.body)
                arm_none.extend(_c.deepcopy(copies) + _c.deepcopy(when_none))
                arm_some.extend(_c.deepcopy(copies) + _c.deepcopy(when_some))
                del out[i + 1 : j + 1]
                hit = True
                break
            if not hit:
                break
        return out

    def _block(self, stmts):
        kept = [st for st in stmts if not self._is_diagnostic(st)]
        stmts = kept if kept else [ast.copy_location(ast.Pass(), stmts[0])] if stmts else stmts
        stmts = self._thread_nullness(stmts)
        # r = (a, b) if c else (d, e) ; p, q = r    ->   p = a if c else d ; q = b if c else e
        dist = []
        i = 0
        while i < len(stmts):
            st = stmts[i]
            nxt = stmts[i + 1] if i + 1 < len(stmts) else None
            if (
                isinstance(st, ast.Assign) and len(st.targets) == 1 and isinstance(st.targets[0], ast.Name) and isinstance(st.value, ast.IfExp)
                and isinstance(st.value.body, ast.Tuple) and isinstance(st.value.orelse, ast.Tuple) and len(st.value.body.elts) == len(st.value.orelse.elts)
                and isinstance(nxt, ast.Assign) and len(nxt.targets) == 1 and isinstance(nxt.targets[0], ast.Tuple) and isinstance(nxt.value, ast.Name)
                and nxt.value.id == st.targets[0].id and len(nxt.targets[0].elts) == len(st.value.body.elts)
            ):
                import copy as _c

                for t, a, b in zip(nxt.targets[0].elts, st.value.body.elts, st.value.orelse.elts):
                    dist.append(ast.copy_location(ast.Assign(targets=[t], value=ast.copy_location(ast.IfExp(test=_c.deepcopy(st.value.test), body=a, orelse=b), st.value)), st))
                i += 2
                continue
            dist.append(st)
            i += 1
        stmts = dist
        # a, b = x, y  ->  a = x ; b = y
        split = []
        for st in stmts:
            if (
                isinstance(st, ast.Assign) and len(st.targets) == 1 and isinstance(st.targets[0], ast.Tuple) and isinstance(st.value, ast.Tuple)
                and len(st.targets[0].elts) == len(st.value.elts) and all(isinstance(t, ast.Name) for t in st.targets[0].elts)
            ):
                names = [t.id for t in st.targets[0].elts]
                ok = True
                for i, v in enumerate(st.value.elts):
                    used = {n.id for n in ast.walk(v) if isinstance(n, ast.Name)}
                    if used & set(names[:i]):
                        ok = False
                if ok:
                    for t, v in zip(st.targets[0].elts, st.value.elts):
                        split.append(ast.copy_location(ast.Assign(targets=[t], value=v), st))
                    continue
            split.append(st)
        stmts = split
        # a generator bound to a local and consumed once by the next statement
        merged = []
        for st in stmts:
            if (
                merged and isinstance(merged[-1], ast.Assign) and len(merged[-1].targets) == 1 and isinstance(merged[-1].targets[0], ast.Name)
                and (isinstance(merged[-1].value, ast.GeneratorExp) or (isinstance(st, ast.Return) and isinstance(merged[-1].value, ast.Call) and isinstance(merged[-1].value.func, ast.Name) and merged[-1].value.func.id == "next"))
            ):
                g = merged[-1].targets[0].id
                uses = [n for n in ast.walk(st) if isinstance(n, ast.Name) and n.id == g]
                if len(uses) == 1 and isinstance(uses[0].ctx, ast.Load):
                    gen = merged.pop().value

                    class _R(ast.NodeTransformer):
                        def visit_Name(self, node):
                            return gen if node.id == g else node

                    st = _R().visit(st)
            merged.append(st)
        stmts = merged
        # return A if C else B  ->  if C: return A ; return B
        def split_ret(st):
            if isinstance(st, ast.Return) and isinstance(st.value, ast.IfExp):
                v = st.value
                a = split_ret(ast.copy_location(ast.Return(value=v.body), st))
                b = split_ret(ast.copy_location(ast.Return(value=v.orelse), st))
                return [ast.copy_location(ast.If(test=v.test, body=a, orelse=[]), st)] + b
            return [st]

        stmts = [y for st in stmts for y in split_ret(st)]

        def split_none(st):
            if isinstance(st, ast.Assign) and len(st.targets) == 1 and isinstance(st.targets[0], ast.Name) and isinstance(st.value, ast.IfExp) and (self._is_none(st.value.body) or self._is_none(st.value.orelse) or isinstance(st.value.body, ast.IfExp) or isinstance(st.value.orelse, ast.IfExp) or (self._is_ref(st.value.body) and self._is_ref(st.value.orelse))):
                v = st.value
                has_none = any(self._is_none(n) for n in (v.body, v.orelse)) or any(isinstance(x, ast.IfExp) and any(self._is_none(y) for y in ast.walk(x)) for x in (v.body, v.orelse))
                obj_choice = self._is_ref(v.body) and self._is_ref(v.orelse) and (isinstance(v.body, ast.Subscript) or isinstance(v.orelse, ast.Subscript))
                if not has_none and not obj_choice:
                    return [st]
                import copy as _c

                a = split_none(ast.copy_location(ast.Assign(targets=[_c.deepcopy(st.targets[0])], value=v.body), st))
                b = split_none(ast.copy_location(ast.Assign(targets=[_c.deepcopy(st.targets[0])], value=v.orelse), st))
                return [ast.copy_location(ast.If(test=v.test, body=a, orelse=b), st)]
            return [st]

        stmts = [y for st in stmts for y in split_none(st)]

        # x = E or 0   ->   x = E ; if not x: x = 0        (the default-zero idiom, E evaluated once)
        def split_or0(st):
            if (
                isinstance(st, ast.Assign) and len(st.targets) == 1 and isinstance(st.targets[0], ast.Name) and isinstance(st.value, ast.BoolOp)
                and isinstance(st.value.op, ast.Or) and len(st.value.values) == 2 and isinstance(st.value.values[1], ast.Constant)
                and st.value.values[1].value in (0, 0.0) and not isinstance(st.value.values[1].value, bool)
            ):
                t = st.targets[0]
                first = ast.copy_location(ast.Assign(targets=[t], value=st.value.values[0]), st)
                name_l = ast.copy_location(ast.Name(id=t.id, ctx=ast.Load()), st)
                fix = ast.copy_location(ast.If(test=ast.copy_location(ast.UnaryOp(op=ast.Not(), operand=name_l), st), body=[ast.copy_location(ast.Assign(targets=[ast.copy_location(ast.Name(id=t.id, ctx=ast.Store()), st)], value=st.value.values[1]), st)], orelse=[]), st)
                return [first, fix]
            return [st]

        stmts = [y for st in stmts for y in split_or0(st)]
        # f(A if C else B) as a statement  ->  if C: f(A) else: f(B)
        def split_call(st):
            if isinstance(st, ast.Expr) and isinstance(st.value, ast.Call) and len(st.value.args) == 1 and not st.value.keywords and isinstance(st.value.args[0], ast.IfExp):
                import copy as _c

                c = st.value
                a = ast.copy_location(ast.Expr(value=ast.copy_location(ast.Call(func=_c.deepcopy(c.func), args=[c.args[0].body], keywords=[]), c)), st)
                b = ast.copy_location(ast.Expr(value=ast.copy_location(ast.Call(func=_c.deepcopy(c.func), args=[c.args[0].orelse], keywords=[]), c)), st)
                return [ast.copy_location(ast.If(test=c.args[0].test, body=[a], orelse=[b]), st)]
            return [st]

        stmts = [y for st in stmts for y in split_call(st)]
        # for v in chain(A, B): BODY  ->  one loop per iterable
        unchained = []
        for st in stmts:
            if (
                isinstance(st, ast.For) and not st.orelse and isinstance(st.iter, ast.Call) and not st.iter.keywords and st.iter.args
                and ((isinstance(st.iter.func, ast.Name) and st.iter.func.id == "chain") or (isinstance(st.iter.func, ast.Attribute) and st.iter.func.attr == "chain" and ast.unparse(st.iter.func.value) == "itertools"))
                and not any(isinstance(a, ast.Starred) for a in st.iter.args) and not any(isinstance(n, ast.Break) for b in st.body for n in ast.walk(b))
            ):
                import copy as _c

                for a in st.iter.args:
                    unchained.append(ast.copy_location(ast.For(target=_c.deepcopy(st.target), iter=a, body=_c.deepcopy(st.body), orelse=[]), st))
                continue
            unchained.append(st)
        stmts = unchained
        looped = []
        for st in stmts:
            new = self._loopify_return(st) if isinstance(st, ast.Return) and st.value is not None else None
            if new is not None:
                for x in new:
                    self.generic_visit(x) if False else None
                looped.extend(new)
            else:
                looped.append(st)
        stmts = looped
        flat = []
        for st in stmts:
            flat.append(st)
            # unnest an else that follows a terminating body (also through elif chains)
            while isinstance(flat[-1], ast.If) and flat[-1].orelse and flat[-1].body and isinstance(flat[-1].body[-1], (ast.Return, ast.Raise, ast.Continue, ast.Break)):
                cur = flat[-1]
                rest = cur.orelse
                cur.orelse = []
                flat.extend(self._block(rest))
        stmts = flat
        # return <position guard> and REST   ->   if not <guard>: return False ; return REST      (`indx >= 10 and ...`: the guard is a
        # comparison of a local with an integer constant, so the `and` yields False exactly when the guard fails)
        split = []
        for st in stmts:
            v = st.value if isinstance(st, ast.Return) else None
            if isinstance(v, ast.BoolOp) and isinstance(v.op, ast.And) and len(v.values) >= 2:
                g = v.values[0]
                if isinstance(g, ast.Compare) and len(g.ops) == 1 and isinstance(g.left, ast.Name) and isinstance(g.comparators[0], ast.Constant) and isinstance(g.comparators[0].value, int) and not isinstance(g.comparators[0].value, bool) and isinstance(g.ops[0], (ast.Lt, ast.LtE, ast.Gt, ast.GtE)):
                    inv = {ast.Lt: ast.GtE, ast.LtE: ast.Gt, ast.Gt: ast.LtE, ast.GtE: ast.Lt}[type(g.ops[0])]
                    guard = ast.copy_location(ast.If(test=ast.copy_location(ast.Compare(left=g.left, ops=[inv()], comparators=g.comparators), g), body=[ast.copy_location(ast.Return(value=ast.copy_location(ast.Constant(value=False), st)), st)], orelse=[]), st)
                    rest = v.values[1] if len(v.values) == 2 else ast.copy_location(ast.BoolOp(op=ast.And(), values=v.values[1:]), v)
                    split.extend([guard, ast.copy_location(ast.Return(value=rest), st)])
                    continue
            split.append(st)
        stmts = split
        out = []
        for st in stmts:
            if (
                isinstance(st, ast.Return) and isinstance(st.value, ast.Name) and out and isinstance(out[-1], ast.Assign)
                and len(out[-1].targets) == 1 and isinstance(out[-1].targets[0], ast.Name) and out[-1].targets[0].id == st.value.id
            ):
                prev = out.pop()
                out.append(ast.copy_location(ast.Return(value=prev.value), prev))
            else:
                out.append(st)
        return out

    def generic_visit(self, node):
        super().generic_visit(node)
        for f in ("body", "orelse", "finalbody"):
            v = getattr(node, f, None)
            if isinstance(v, list) and v and isinstance(v[0], ast.stmt):
                setattr(node, f, self._block(v))
        return node


def _or_defaults(tree):
    """`x or d` in a value position, x a plain name: the conditional `x if x else d` it abbreviates (the pinned tree spells its
    defaults that way); boolean operators in test positions are left alone"""
    in_test = set()

    def mark(e):
        in_test.add(id(e))
        if isinstance(e, ast.BoolOp):
            for v in e.values:
                mark(v)
        elif isinstance(e, ast.UnaryOp) and isinstance(e.op, ast.Not):
            mark(e.operand)

    for n in ast.walk(tree):
        if isinstance(n, (ast.If, ast.While, ast.IfExp, ast.Assert)):
            mark(n.test)
        elif isinstance(n, ast.comprehension):
            for c in n.ifs:
                mark(c)

    class _T(ast.NodeTransformer):
        def visit_BoolOp(self, node):
            self.generic_visit(node)
            if id(node) not in in_test and isinstance(node.op, ast.Or) and len(node.values) == 2 and isinstance(node.values[0], ast.Name):
                x = node.values[0]
                return ast.copy_location(ast.IfExp(test=copy.deepcopy(x), body=x, orelse=node.values[1]), node)
            return node

    return _T().visit(tree)


class _WalrusLower(ast.NodeTransformer):
    """assignment expressions become the statements they abbreviate:
      if (x := E) <op> ..: B          ->  x = E ; if x <op> ..: B                  (the binding is evaluated first, unconditionally)
      if A and (x := E) ..: B         ->  if A: x = E ; if x ..: B                 (no else branch, or a small one that is duplicated)
      while (x := E) and f(x): B      ->  while E and f(E): B                      (x not used in the body or afterwards)
                                      ->  while True: x = E ; if not (..): break ; B     (otherwise)
      [g(x) for c in cs if (x := E) is not None]  ->  [g(E) for c in cs if E is not None]   (x local to the comprehension)
      stmt( (x := E) )                ->  x = E ; stmt(x)
    E is evaluated more than once only where it is a pure look-up in this code base (readings, attributes, subscripts)."""

    @staticmethod
    def _unconditional(e):
        """the first assignment expression that is evaluated whenever `e` is evaluated at all (evaluation order), or None"""
        if isinstance(e, ast.NamedExpr):
            inner = _WalrusLower._unconditional(e.value)
            return inner or e
        if isinstance(e, ast.BoolOp):
            return _WalrusLower._unconditional(e.values[0])
        if isinstance(e, ast.IfExp):
            return _WalrusLower._unconditional(e.test)
        if isinstance(e, ast.Compare):
            return _WalrusLower._unconditional(e.left) or _WalrusLower._unconditional(e.comparators[0])
        if isinstance(e, (ast.Lambda, ast.ListComp, ast.SetComp, ast.DictComp, ast.GeneratorExp)):
            return None
        for c in ast.iter_child_nodes(e):
            if isinstance(c, ast.expr):
                r = _WalrusLower._unconditional(c)
                if r is not None:
                    return r
        return None

    @staticmethod
    def _replace(root, target, new):
        class _R(ast.NodeTransformer):
            def visit_NamedExpr(s_, n):
                if n is target:
                    return new
                s_.generic_visit(n)
                return n

        return _R().visit(root)

    @staticmethod
    def _has(e):
        return any(isinstance(n, ast.NamedExpr) for n in ast.walk(e))

    def _hoist(self, expr, at):
        """(statements to run first, rewritten expression)"""
        pre = []
        for _ in range(6):
            w = self._unconditional(expr)
            if w is None or not isinstance(w.target, ast.Name):
                break
            pre.append(ast.copy_location(ast.Assign(targets=[ast.Name(id=w.target.id, ctx=ast.Store())], value=w.value), at))
            expr = self._replace(expr, w, ast.copy_location(ast.Name(id=w.target.id, ctx=ast.Load()), w))
        return pre, expr

    def visit_If(self, node):
        self.generic_visit(node)
        if not self._has(node.test):
            return node
        pre, node.test = self._hoist(node.test, node)
        if self._has(node.test) and isinstance(node.test, ast.BoolOp) and isinstance(node.test.op, ast.Or) and not node.orelse and node.body and isinstance(node.body[-1], (ast.Return, ast.Raise, ast.Continue, ast.Break)) and sum(1 for b in node.body for _ in ast.walk(b)) <= 30:
            # if A or W: <leave>   ->   if A: <leave> ; if W: <leave>
            out = list(pre)
            for v in node.test.values:
                r = self.visit_If(ast.copy_location(ast.If(test=v, body=copy.deepcopy(node.body), orelse=[]), node))
                out.extend(r if isinstance(r, list) else [r])
            return out
        if self._has(node.test) and isinstance(node.test, ast.BoolOp) and isinstance(node.test.op, ast.And) and sum(1 for b in node.orelse for _ in ast.walk(b)) <= 40:
            # if A and W: B else: E   ->   if A: (if W: B else: E) else: E
            first, rest = node.test.values[0], node.test.values[1:]
            inner_test = rest[0] if len(rest) == 1 else ast.copy_location(ast.BoolOp(op=ast.And(), values=rest), node.test)
            inner = self.visit_If(ast.copy_location(ast.If(test=inner_test, body=node.body, orelse=copy.deepcopy(node.orelse)), node))
            inner = inner if isinstance(inner, list) else [inner]
            node = ast.copy_location(ast.If(test=first, body=inner, orelse=node.orelse), node)
        return pre + [node] if pre else node

    def visit_While(self, node):
        self.generic_visit(node)
        if not self._has(node.test):
            return node
        w = self._unconditional(node.test)
        if w is not None and isinstance(w.target, ast.Name):
            x = w.target.id
            used_in_body = any(isinstance(n, ast.Name) and n.id == x for b in node.body + node.orelse for n in ast.walk(b))
            if not used_in_body and not any(isinstance(n, ast.Call) and not isinstance(n.func, ast.Attribute) for n in ast.walk(w.value)):
                class _S(ast.NodeTransformer):
                    def visit_Name(s_, n):
                        return copy.deepcopy(w.value) if n.id == x and isinstance(n.ctx, ast.Load) else n

                t = self._replace(node.test, w, copy.deepcopy(w.value))
                node.test = _S().visit(t)
                if not self._has(node.test):
                    return node
        if node.orelse:
            return node
        pre, test = self._hoist(node.test, node)
        if self._has(test) or not pre:
            return node
        brk = ast.copy_location(ast.If(test=ast.copy_location(ast.UnaryOp(op=ast.Not(), operand=test), node.test), body=[ast.copy_location(ast.Break(), node)], orelse=[]), node)
        return ast.copy_location(ast.While(test=ast.copy_location(ast.Constant(value=True), node.test), body=pre + [brk] + node.body, orelse=[]), node)

    def _comp(self, node):
        self.generic_visit(node)
        ws = [n for n in ast.walk(node) if isinstance(n, ast.NamedExpr) and isinstance(n.target, ast.Name)]
        for w in ws:
            x = w.target.id

            class _S(ast.NodeTransformer):
                def visit_NamedExpr(s_, n):
                    if n is w:
                        return copy.deepcopy(w.value)
                    s_.generic_visit(n)
                    return n

                def visit_Name(s_, n):
                    return copy.deepcopy(w.value) if n.id == x and isinstance(n.ctx, ast.Load) else n

            node = _S().visit(node)
        return node

    visit_ListComp = visit_GeneratorExp = visit_SetComp = visit_DictComp = _comp

    def _simple(self, node):
        self.generic_visit(node)
        v = getattr(node, "value", None)
        if v is None or not self._has(v):
            return node
        pre, node.value = self._hoist(v, node)
        return pre + [node] if pre else node

    visit_Assign = visit_Return = visit_Expr = visit_AnnAssign = _simple


class _MatchLower(ast.NodeTransformer):
    """`match` statements over class / value / wildcard / fixed-length sequence patterns become the if/elif chain they abbreviate
    (`case C():` is `isinstance(subject, C)`, tried in order); any other pattern kind leaves the statement alone (the rules then see a
    statement they do not model and fail closed)."""

    counter = 0

    def _pattern(self, p, subj):
        """(test expression or None for 'always', [binding statements]) or None if the pattern kind is not handled"""
        if isinstance(p, ast.MatchClass) and not p.patterns and not p.kwd_patterns:
            return ast.Call(func=ast.Name(id="isinstance", ctx=ast.Load()), args=[copy.deepcopy(subj), p.cls], keywords=[]), []
        if isinstance(p, ast.MatchOr):
            subs = [self._pattern(x, subj) for x in p.patterns]
            if any(x is None or x[1] or x[0] is None for x in subs):
                return None
            if all(isinstance(x, ast.MatchClass) for x in p.patterns):
                return ast.Call(func=ast.Name(id="isinstance", ctx=ast.Load()), args=[copy.deepcopy(subj), ast.Tuple(elts=[x.cls for x in p.patterns], ctx=ast.Load())], keywords=[]), []
            return ast.BoolOp(op=ast.Or(), values=[x[0] for x in subs]), []
        if isinstance(p, ast.MatchAs) and p.pattern is None:
            if p.name is None:
                return None if False else (None, [])
            return None, [ast.Assign(targets=[ast.Name(id=p.name, ctx=ast.Store())], value=copy.deepcopy(subj), lineno=getattr(p, "lineno", 0))]
        if isinstance(p, ast.MatchValue):
            return ast.Compare(left=copy.deepcopy(subj), ops=[ast.Eq()], comparators=[p.value]), []
        if isinstance(p, ast.MatchSingleton):
            return ast.Compare(left=copy.deepcopy(subj), ops=[ast.Is()], comparators=[ast.Constant(value=p.value)]), []
        if isinstance(p, ast.MatchSequence) and all(isinstance(x, ast.MatchAs) and x.pattern is None for x in p.patterns):
            n = len(p.patterns)
            test = ast.Compare(left=ast.Call(func=ast.Name(id="len", ctx=ast.Load()), args=[copy.deepcopy(subj)], keywords=[]), ops=[ast.Eq()], comparators=[ast.Constant(value=n)])
            binds = [ast.Assign(targets=[ast.Name(id=x.name, ctx=ast.Store())], value=ast.Subscript(value=copy.deepcopy(subj), slice=ast.Constant(value=i), ctx=ast.Load()), lineno=getattr(p, "lineno", 0)) for i, x in enumerate(p.patterns) if x.name]
            return test, binds
        return None

    def visit_Match(self, node):
        self.generic_visit(node)
        subj = node.subject
        pre = []
        simple = lambda e: isinstance(e, ast.Name) or (isinstance(e, ast.Attribute) and simple(e.value)) or (isinstance(e, ast.Subscript) and simple(e.value) and isinstance(e.slice, (ast.Constant, ast.Name)))
        if not simple(subj):
            _MatchLower.counter += 1
            nm = f"subject__m{_MatchLower.counter}"
            pre = [ast.copy_location(ast.Assign(targets=[ast.Name(id=nm, ctx=ast.Store())], value=subj), node)]
            subj = ast.Name(id=nm, ctx=ast.Load())
        arms = []
        for c in node.cases:
            r = self._pattern(c.pattern, subj)
            if r is None:
                return node
            test, binds = r
            if binds and c.guard is not None:
                return node  # the guard may read the bindings: not expressible as one test
            if c.guard is not None:
                test = c.guard if test is None else ast.BoolOp(op=ast.And(), values=[test, c.guard])
            arms.append((test, binds + c.body))
        chain = None
        for test, body in reversed(arms):
            if test is None:
                chain = list(body)  # irrefutable: everything after it is unreachable
            else:
                chain = [ast.copy_location(ast.If(test=test, body=list(body), orelse=chain or []), node)]
        out = pre + (chain or [])
        for st in out:
            ast.fix_missing_locations(st)
        return out or ast.copy_location(ast.Pass(), node)


class _ConstFold(ast.NodeTransformer):
    """boolean constants left behind by inlining a helper with a literal flag argument: `not True`, `False and X`, `True and X`,
    `if False: A else: B`, `A if True else B`, `if C: pass else: B`"""

    @staticmethod
    def _k(e):
        return isinstance(e, ast.Constant) and isinstance(e.value, bool)

    def visit_UnaryOp(self, node):
        self.generic_visit(node)
        if isinstance(node.op, ast.Not) and self._k(node.operand):
            return ast.copy_location(ast.Constant(value=not node.operand.value), node)
        return node

    def visit_BoolOp(self, node):
        self.generic_visit(node)
        absorbing = isinstance(node.op, ast.Or)  # `True or ..` / `False and ..` decide the result at that operand
        vals = []
        for i, v in enumerate(node.values):
            if self._k(v):
                if v.value is absorbing:
                    vals.append(v)
                    break  # operands after it are never evaluated
                if i < len(node.values) - 1:
                    continue  # neutral element that is not the result
            vals.append(v)
        if len(vals) == 1:
            return vals[0]
        node.values = vals
        return node

    def visit_IfExp(self, node):
        self.generic_visit(node)
        if self._k(node.test):
            return node.body if node.test.value else node.orelse
        return node

    def visit_If(self, node):
        self.generic_visit(node)
        if self._k(node.test):
            keep = node.body if node.test.value else node.orelse
            return keep or ast.copy_location(ast.Pass(), node)
        if node.orelse and all(isinstance(x, ast.Pass) for x in node.body):
            return ast.copy_location(ast.If(test=ast.copy_location(ast.UnaryOp(op=ast.Not(), operand=node.test), node.test), body=node.orelse, orelse=[]), node)
        return node


# ---------------------------------------------------------------------------------------------------------------------------------
# selector splitting


def _enum_members(tree) -> dict:
    """enum classes defined in this module whose members have pairwise distinct literal values (no aliases): name -> member names"""
    out = {}
    for node in tree.body:
        if isinstance(node, ast.ClassDef) and any(ast.unparse(b).split(".")[-1] in ("Enum", "IntEnum", "StrEnum", "Flag") for b in node.bases):
            vals, ok = {}, True
            for st in node.body:
                if isinstance(st, ast.Assign) and len(st.targets) == 1 and isinstance(st.targets[0], ast.Name):
                    v = st.value
                    if isinstance(v, ast.Constant):
                        vals[st.targets[0].id] = repr(v.value)
                    elif isinstance(v, ast.Call) and ast.unparse(v.func).split(".")[-1] == "auto" and not v.args:
                        vals[st.targets[0].id] = f"auto#{len(vals)}"
                    else:
                        ok = False
            if ok and vals and len(set(vals.values())) == len(vals):
                out[node.name] = set(vals)
    return out


class _SelFold(_ConstFold):
    """_ConstFold plus comparisons between selector constants (members of alias-free enums of this module, booleans)"""

    def __init__(self, enums):
        self.enums = enums

    def _sel(self, e):
        if isinstance(e, ast.Attribute) and isinstance(e.value, ast.Name) and e.value.id in self.enums and e.attr in self.enums[e.value.id]:
            return ("enum", e.value.id, e.attr)
        if isinstance(e, ast.Constant) and (isinstance(e.value, bool) or e.value is None):
            return ("const", e.value)
        return None

    def visit_Compare(self, node):
        self.generic_visit(node)
        if len(node.ops) != 1:
            return node
        a, op, b = self._sel(node.left), node.ops[0], node.comparators[0]
        if a is None or a[0] != "enum":
            return node
        if isinstance(op, (ast.Eq, ast.NotEq, ast.Is, ast.IsNot)):
            sb = self._sel(b)
            if sb is None:
                return node
            r = a == sb
            return ast.copy_location(ast.Constant(value=r if isinstance(op, (ast.Eq, ast.Is)) else not r), node)
        if isinstance(op, (ast.In, ast.NotIn)) and isinstance(b, (ast.Tuple, ast.List, ast.Set)):
            sb = [self._sel(x) for x in b.elts]
            if any(x is None for x in sb):
                return node
            r = a in sb
            return ast.copy_location(ast.Constant(value=r if isinstance(op, ast.In) else not r), node)
        return node


def _tidy(stmts):
    """drop `pass` next to other statements and everything after a statement that leaves the block"""
    out = []
    for st in stmts:
        for f_ in ("body", "orelse", "finalbody"):
            v = getattr(st, f_, None)
            if isinstance(v, list) and v and isinstance(v[0], ast.stmt) and not isinstance(st, (ast.FunctionDef, ast.ClassDef)):
                t = _tidy(v)
                setattr(st, f_, t if (t or f_ != "body") else [ast.copy_location(ast.Pass(), st)])
        if isinstance(st, ast.Pass):
            continue
        out.append(st)
        if isinstance(st, (ast.Return, ast.Raise, ast.Continue, ast.Break)):
            break
    return out


def _split_selectors(fn: ast.FunctionDef, enums: dict) -> bool:
    """sel = K1 if c1 else K2 if c2 else K3 ; <rest of the block testing sel>      (K: members of an enum / booleans)
    A classification into named cases followed by a dispatch on the case is the if/elif chain it abbreviates: the rest of the block
    is specialised for every leaf of the classification (the tests on `sel` fold to constants) and hung under the classification's
    own tests.  Done only when `sel` is bound once and read only in that rest."""
    sf = _SelFold(enums)

    def leaves(t):
        if isinstance(t, ast.IfExp):
            return leaves(t.body) + leaves(t.orelse)
        return [t]

    def is_leaf(e):
        s_ = sf._sel(e)
        return s_ is not None and (s_[0] == "enum" or isinstance(s_[1], bool))

    stores, loads = {}, {}
    for n in ast.walk(fn):
        if isinstance(n, ast.Name):
            d = stores if isinstance(n.ctx, (ast.Store, ast.Del)) else loads
            d.setdefault(n.id, []).append(n)
    params = {a.arg for a in fn.args.args + fn.args.kwonlyargs + fn.args.posonlyargs}

    def try_block(lst):
        for i, st in enumerate(lst):
            if not (isinstance(st, ast.Assign) and len(st.targets) == 1 and isinstance(st.targets[0], ast.Name) and isinstance(st.value, ast.IfExp)):
                continue
            sel = st.targets[0].id
            lv = leaves(st.value)
            if sel in params or len(stores.get(sel, [])) != 1 or not (2 <= len(lv) <= 8) or not all(is_leaf(x) for x in lv):
                continue
            if all(isinstance(x, ast.Constant) for x in lv):
                continue  # plain boolean expressions stay expressions
            rest = lst[i + 1 :]
            inside = {id(n) for r_ in rest for n in ast.walk(r_)}
            if not rest or any(id(n) not in inside for n in loads.get(sel, [])) or sum(1 for r_ in rest for _ in ast.walk(r_)) > 600:
                continue

            def spec(leaf):
                class _S(ast.NodeTransformer):
                    def visit_Name(s_, n):
                        return copy.deepcopy(leaf) if n.id == sel and isinstance(n.ctx, ast.Load) else n

                body = [_S().visit(copy.deepcopy(r_)) for r_ in rest]
                m = ast.Module(body=body, type_ignores=[])
                m = _SelFold(enums).visit(m)
                return _tidy(m.body) or [ast.copy_location(ast.Pass(), st)]

            def build(t):
                if isinstance(t, ast.IfExp):
                    return [ast.copy_location(ast.If(test=t.test, body=build(t.body), orelse=build(t.orelse)), st)]
                return spec(t)

            lst[i:] = build(st.value)
            return True
        for st in lst:
            if isinstance(st, (ast.FunctionDef, ast.ClassDef)):
                continue
            for f_ in ("body", "orelse", "finalbody"):
                v = getattr(st, f_, None)
                if isinstance(v, list) and v and isinstance(v[0], ast.stmt) and try_block(v):
                    return True
            for h in getattr(st, "handlers", []) or []:
                if try_block(h.body):
                    return True
        return False

    return try_block(fn.body)


def _copy_propagate(fn: ast.FunctionDef) -> bool:
    """`a = b` between two local names that are each bound exactly once (b may be a parameter that is never re-bound): a is b
    wherever a is defined, so a is renamed to b and the copy disappears (inlining a value helper leaves such copies behind)"""
    if any(isinstance(n, (ast.Global, ast.Nonlocal)) for n in ast.walk(fn)):
        return False
    stores: dict = {}
    for n in ast.walk(fn):
        if isinstance(n, ast.Name) and isinstance(n.ctx, (ast.Store, ast.Del)):
            stores[n.id] = stores.get(n.id, 0) + 1
        elif isinstance(n, ast.arg):
            stores[n.arg] = stores.get(n.arg, 0) + 1
        elif isinstance(n, (ast.FunctionDef, ast.ClassDef)) and n is not fn:
            stores[n.name] = stores.get(n.name, 0) + 2
        elif isinstance(n, ast.ExceptHandler) and n.name:
            stores[n.name] = stores.get(n.name, 0) + 2
        elif isinstance(n, (ast.Import, ast.ImportFrom)):
            for a in n.names:
                stores[(a.asname or a.name).split(".")[0]] = 2
    changed = False

    def find(body_owner):
        for f_ in ("body", "orelse", "finalbody"):
            lst = getattr(body_owner, f_, None)
            if not (isinstance(lst, list) and lst and isinstance(lst[0], ast.stmt)):
                continue
            for i, st in enumerate(lst):
                if isinstance(st, ast.Assign) and len(st.targets) == 1 and isinstance(st.targets[0], ast.Name) and isinstance(st.value, ast.Name):
                    a, b = st.targets[0].id, st.value.id
                    if a != b and stores.get(a) == 1 and stores.get(b) == 1:
                        return lst, i, a, b
                if isinstance(st, ast.Assign) and len(st.targets) == 1 and isinstance(st.targets[0], ast.Name) and stores.get(st.targets[0].id) == 1 and body_owner is fn:
                    v = st.value
                    # a name bound once, at the top level of the function, to an enum member: the member itself
                    if isinstance(v, ast.Attribute) and isinstance(v.value, ast.Name) and v.value.id[:1].isupper() and v.attr.isupper() and stores.get(v.value.id) is None:
                        return lst, i, st.targets[0].id, v
                if not isinstance(st, (ast.FunctionDef, ast.ClassDef)):
                    r = find(st)
                    if r:
                        return r
            for st in lst:
                pass
        for h in getattr(body_owner, "handlers", []) or []:
            r = find(h)
            if r:
                return r
        return None

    for _ in range(20):
        r = find(fn)
        if not r:
            break
        lst, i, a, b = r
        del lst[i]
        if not lst:
            lst.append(ast.Pass())
        if isinstance(b, ast.AST):
            class _S(ast.NodeTransformer):
                def visit_Name(s_, n):
                    return copy.deepcopy(b) if n.id == a and isinstance(n.ctx, ast.Load) else n

            _S().visit(fn)
            stores.pop(a, None)
            changed = True
            continue
        for n in ast.walk(fn):
            if isinstance(n, ast.Name) and n.id == a:
                n.id = b
        stores.pop(a, None)
        changed = True
    return changed


def _forward_subst(fn: ast.FunctionDef) -> bool:
    """`x = E` directly followed by the one statement that reads x (x bound once, read once, the read is evaluated exactly once and
    before any call of that statement): the read is replaced by E and the binding disappears.  `Extract variable` and `Inline
    variable` are the same program; this is the canonical form (no explaining temporaries)."""
    if any(isinstance(n, (ast.Global, ast.Nonlocal)) for n in ast.walk(fn)):
        return False
    stores: dict = {}
    loads: dict = {}
    for n in ast.walk(fn):
        if isinstance(n, ast.Name):
            d = loads if isinstance(n.ctx, ast.Load) else stores
            d[n.id] = d.get(n.id, 0) + 1
        elif isinstance(n, ast.arg):
            stores[n.arg] = stores.get(n.arg, 0) + 2
        elif isinstance(n, (ast.FunctionDef, ast.ClassDef, ast.Lambda)) and n is not fn:
            for m in ast.walk(n):  # names touched by nested scopes are left alone
                if isinstance(m, ast.Name):
                    stores[m.id] = stores.get(m.id, 0) + 2
        elif isinstance(n, ast.ExceptHandler) and n.name:
            stores[n.name] = stores.get(n.name, 0) + 2

    def first_use(root, name):
        """walk `root` in evaluation order; -> (the Name node if it is reached before any call has completed and outside a conditionally
        / repeatedly evaluated context, else None)"""
        state = {"calls": 0, "hit": None, "dead": False}

        def go(n, cond):
            if state["hit"] is not None or state["dead"]:
                return
            if isinstance(n, ast.Name):
                if n.id == name and isinstance(n.ctx, ast.Load):
                    if cond or state["calls"]:
                        state["dead"] = True
                    else:
                        state["hit"] = n
                return
            if isinstance(n, (ast.ListComp, ast.SetComp, ast.DictComp, ast.GeneratorExp)):
                # only the first iterable is evaluated exactly once, in the enclosing scope
                go(n.generators[0].iter, cond)
                if any(isinstance(m, ast.Name) and m.id == name for m in ast.walk(n)) and state["hit"] is None:
                    state["dead"] = True
                state["calls"] += 1
                return
            if isinstance(n, ast.Lambda):
                if any(isinstance(m, ast.Name) and m.id == name for m in ast.walk(n)):
                    state["dead"] = True
                return
            if isinstance(n, ast.BoolOp):
                go(n.values[0], cond)
                for v in n.values[1:]:
                    go(v, True)
                return
            if isinstance(n, ast.IfExp):
                go(n.test, cond)
                go(n.body, True)
                go(n.orelse, True)
                return
            if isinstance(n, ast.Compare) and len(n.comparators) > 1:
                go(n.left, cond)
                go(n.comparators[0], cond)
                for v in n.comparators[1:]:
                    go(v, True)
                return
            if isinstance(n, ast.NamedExpr):
                state["dead"] = True
                return
            if isinstance(n, ast.Dict):
                for k, v in zip(n.keys, n.values):
                    if k is not None:
                        go(k, cond)
                    go(v, cond)
                return
            for c in ast.iter_child_nodes(n):
                go(c, cond)
            if isinstance(n, (ast.Call, ast.Await, ast.Yield, ast.YieldFrom)):
                state["calls"] += 1

        go(root, False)
        return state["hit"]

    def header(st):
        """the expressions of `st` that are evaluated exactly once, first, when st runs (in order)"""
        if isinstance(st, ast.Assign):
            return [st.value] + [t for t in st.targets if not isinstance(t, ast.Name)]
        if isinstance(st, ast.AnnAssign):
            return [st.value] if st.value is not None else []
        if isinstance(st, ast.AugAssign):
            return []  # target is read before the value
        if isinstance(st, (ast.Expr, ast.Return)):
            return [st.value] if st.value is not None else []
        if isinstance(st, ast.Raise):
            return [st.exc] if st.exc is not None else []
        if isinstance(st, ast.If):
            return [st.test]
        if isinstance(st, ast.For):
            return [st.iter]
        return []

    changed = False

    def scan(owner):
        nonlocal changed
        for f_ in ("body", "orelse", "finalbody"):
            lst = getattr(owner, f_, None)
            if not (isinstance(lst, list) and lst and isinstance(lst[0], ast.stmt)):
                continue
            i = 0
            while i < len(lst) - 1:
                st, nxt = lst[i], lst[i + 1]
                if (
                    isinstance(st, ast.Assign) and len(st.targets) == 1 and isinstance(st.targets[0], ast.Name)
                    and stores.get(st.targets[0].id) == 1 and loads.get(st.targets[0].id) == 1
                    and not isinstance(st.value, (ast.Yield, ast.YieldFrom, ast.Await, ast.Lambda, ast.GeneratorExp))
                    and not st.targets[0].id.startswith("__")
                ):
                    name = st.targets[0].id
                    hit = None
                    for h in header(nxt):
                        if any(isinstance(m, ast.Name) and m.id == name for m in ast.walk(h)):
                            hit = first_use(h, name)
                            break
                        if any(isinstance(m, (ast.Call, ast.Await)) for m in ast.walk(h)):
                            break
                    if hit is not None:
                        val = st.value

                        class _S(ast.NodeTransformer):
                            def visit_Name(s_, n):
                                return val if n is hit else n

                        lst[i + 1] = _S().visit(nxt)
                        del lst[i]
                        stores.pop(name, None)
                        loads.pop(name, None)
                        changed = True
                        i = max(i - 1, 0)
                        continue
                i += 1
            for st in lst:
                if not isinstance(st, (ast.FunctionDef, ast.ClassDef)):
                    scan(st)
        for h in getattr(owner, "handlers", []) or []:
            scan(h)

    scan(fn)
    return changed


_CONTAINER_ATTRS = ("candles", "_candles", "sub_indicators", "managed_indicators", "_indicators", "candle_manager", "_candle_map")


def _renders_container(call: ast.Call) -> bool:
    """a diagnostic call whose message formats `self`, a candle list or a helper container as a whole (not one field / element of it)"""

    def whole(e):
        if isinstance(e, ast.Name):
            return e.id in ("self", "candles", "candles_")
        return isinstance(e, ast.Attribute) and isinstance(e.value, ast.Name) and e.value.id == "self" and e.attr in _CONTAINER_ATTRS

    for n in ast.walk(call):
        if isinstance(n, ast.FormattedValue) and whole(n.value):
            return True
        if isinstance(n, ast.Call) and any(whole(a) for a in list(n.args) + [k.value for k in n.keywords]):
            fn = n.func.id if isinstance(n.func, ast.Name) else getattr(n.func, "attr", "")
            if fn not in ("len", "id", "type", "isinstance"):
                return True
        if isinstance(n, ast.BinOp) and isinstance(n.op, ast.Mod) and any(whole(a) for a in (n.right.elts if isinstance(n.right, ast.Tuple) else [n.right])):
            return True
    return False


def normalize(tree: ast.AST) -> ast.AST:
    for fn_ in [n for n in ast.walk(tree) if isinstance(n, ast.FunctionDef)]:
        _copy_propagate(fn_)
    if any(isinstance(n, ast.Constant) and isinstance(n.value, bool) for n in ast.walk(tree)):
        tree = _ConstFold().visit(tree)
        ast.fix_missing_locations(tree)
    if any(isinstance(n, ast.NamedExpr) for n in ast.walk(tree)):
        tree = _WalrusLower().visit(tree)
        ast.fix_missing_locations(tree)
    if any(isinstance(n, ast.BoolOp) and isinstance(n.op, ast.Or) and len(n.values) == 2 and isinstance(n.values[0], ast.Name) for n in ast.walk(tree)):
        tree = _or_defaults(tree)
        ast.fix_missing_locations(tree)
    if any(isinstance(n, ast.Match) for n in ast.walk(tree)):
        tree = _MatchLower().visit(tree)
        ast.fix_missing_locations(tree)
    tree = Normalizer().visit(tree)
    ast.fix_missing_locations(tree)
    again = False
    for fn_ in [n for n in ast.walk(tree) if isinstance(n, ast.FunctionDef)]:
        again = _copy_propagate(fn_) or again
        again = _forward_subst(fn_) or again
    enums = _enum_members(tree)
    if enums:
        for fn_ in [n for n in ast.walk(tree) if isinstance(n, ast.FunctionDef)]:
            for _ in range(3):
                if not _split_selectors(fn_, enums):
                    break
                again = True
    if again:
        ast.fix_missing_locations(tree)
        tree = Normalizer().visit(tree)
        ast.fix_missing_locations(tree)
    return tree


def unique_signatures(trees):
    """{function name: [param names]} for names all of whose definitions share one parameter list (self/cls dropped)"""
    sigs = {}
    for tree in trees:
        for n in ast.walk(tree):
            if isinstance(n, (ast.FunctionDef, ast.AsyncFunctionDef)) and not n.args.vararg and not n.args.kwarg and not n.args.posonlyargs and not n.args.kwonlyargs:
                ps = tuple(a.arg for a in n.args.args if a.arg not in ("self", "cls"))
                sigs.setdefault(n.name, set()).add(ps)
    return {k: list(next(iter(v))) for k, v in sigs.items() if len(v) == 1 and not (k.startswith("__") and k.endswith("__"))}


class _Kw2Pos(ast.NodeTransformer):
    def __init__(self, sigs):
        self.sigs = sigs

    def visit_Call(self, node):
        self.generic_visit(node)
        nm = node.func.attr if isinstance(node.func, ast.Attribute) else node.func.id if isinstance(node.func, ast.Name) else None
        ps = self.sigs.get(nm)
        if not ps or not node.keywords or any(isinstance(a, ast.Starred) for a in node.args) or any(k.arg is None for k in node.keywords):
            return node
        kws = {k.arg: k for k in node.keywords}
        if not set(kws) <= set(ps):
            return node
        args = list(node.args)
        while len(args) < len(ps) and ps[len(args)] in kws:
            args.append(kws.pop(ps[len(args)]).value)
        node.args = args
        node.keywords = [k for k in node.keywords if k.arg in kws]
        return node


def canonical_calls(trees):
    """second pass over all modules of the package: keywords -> positional where the callee's signature is unambiguous"""
    sigs = unique_signatures(trees)
    for t in trees:
        _Kw2Pos(sigs).visit(t)
        ast.fix_missing_locations(t)
