"""R-OWN (who may write candle data / reading dicts), R-PURGE pieces shared by C08, C13, C14."""
from __future__ import annotations

import ast

from .core import Result, finding, norm_construct
from .model import Repo
from .structure import attr_stores, call_name, call_target, calls_in, subscript_stores

OHLCV = ("open", "high", "low", "close", "volume", "timestamp")


def check_own(prop: str, res: Result, repo: Repo):
    """stores to Candle.open/high/low/close/volume/timestamp and to the reading dicts occur only in their owners"""
    rule = "R-OWN"
    ct = repo.cls("hexital.core.candlestick_type", "CandlestickType")
    allf = repo.all_functions()
    residual = getattr(repo, "residual", {}) or {}

    def only_called_from(fi, pred, depth=0) -> bool:
        """a helper outside the pinned decomposition (it survived inlining) that is referenced only by functions satisfying `pred`
        (or by other such helpers) acts on their behalf"""
        if fi.name not in residual or depth > 4:
            return False
        users = [g for g in allf if g is not fi and any((isinstance(n, ast.Name) and n.id == fi.name) or (isinstance(n, ast.Attribute) and n.attr == fi.name) for n in ast.walk(g.node))]
        return bool(users) and all(pred(g) or only_called_from(g, pred, depth + 1) for g in users)

    collapse_p = lambda g: g.cls is not None and g.cls.name == "CandleManager" and g.name == "collapse_candles"
    for fi in allf:
        in_candle = fi.cls is not None and fi.cls.name == "Candle" and fi.module.name == "hexital.core.candle"
        is_convert = fi.cls is not None and fi.name == "convert_candle" and repo.is_subclass(fi.cls, ct)
        is_collapse = collapse_p(fi) or only_called_from(fi, collapse_p)
        for st, t in attr_stores(fi.node):
            if t.attr not in OHLCV:
                continue
            if isinstance(t.value, ast.Name) and t.value.id == "self" and fi.cls is not None and fi.cls.name in ("Hexital", "CandleManager", "Indicator") and t.attr == "timestamp":
                continue
            allowed = in_candle or is_convert or (is_collapse and t.attr == "timestamp")
            if isinstance(t.value, ast.Name) and t.value.id == "self" and not in_candle:
                # an object storing its own attribute of that name (e.g. Hexital.timeframe) is not candle data
                if fi.cls is not None and t.attr not in fi.cls.class_attrs and t.attr not in repo.all_fields(fi.cls):
                    allowed = False
                else:
                    continue
            if allowed:
                res.ok(rule, {"site": f"{fi.where} {norm_construct(st)}", "owner": fi.qualname})
            else:
                res.fail(rule, finding(prop, rule, fi, st, f"candle field .{t.attr} is written outside candle/candlestick/collapse code"))
        for st, t in subscript_stores(fi.node):
            base = ast.unparse(t.value)
            if base in ("self.sub_indicators", "self.managed_indicators", "self._indicators") and not in_candle:
                continue  # the indicator's / Hexital's own registry of helper objects, not candle readings
            if base.endswith(".indicators") or base.endswith(".sub_indicators"):
                ok = (fi.cls is not None and fi.cls.name == "Indicator" and fi.name == "_set_reading") or (fi.name == "_calculate_reading")
                if not ok and fi.qualname == "Managed.set_reading":
                    # the store of _set_reading written out in its only other caller: accepted when the evaluated contract of
                    # Managed.set_reading holds (exactly one reading, under the managed series' own name, on the target candle)
                    from .helpersem import verdict

                    ok = verdict(repo, "Managed.set_reading")[0] == "ok" and ast.unparse(t.slice) == "self.name"
                if ok:
                    res.ok(rule, {"site": f"{fi.where} {norm_construct(st)}", "owner": fi.qualname})
                else:
                    res.fail(rule, finding(prop, rule, fi, st, "a candle's reading dict is written outside Indicator._set_reading / a formula's own reviewed write"))
        for c in calls_in(fi.node):
            if call_name(c) in ("pop", "clear", "update", "setdefault", "popitem") and isinstance(c.func, ast.Attribute):
                base = ast.unparse(c.func.value)
                if base.endswith(".indicators") or base.endswith(".sub_indicators"):
                    if fi.cls is not None and fi.cls.name == "CandleManager" and fi.name == "purge" and call_name(c) == "pop":
                        res.ok(rule, {"site": f"{fi.where} {norm_construct(c)}", "owner": "CandleManager.purge"})
                    else:
                        res.fail(rule, finding(prop, rule, fi, c, "readings are removed/changed outside CandleManager.purge"))
        for st, t in attr_stores(fi.node):
            if t.attr in ("indicators", "sub_indicators") and not (isinstance(t.value, ast.Name) and t.value.id == "self" and fi.cls is not None and fi.cls.name != "Candle"):
                if in_candle:
                    res.ok(rule, {"site": f"{fi.where} {norm_construct(st)}", "owner": fi.qualname})
                else:
                    res.fail(rule, finding(prop, rule, fi, st, "a candle's reading dict is replaced outside the Candle class"))


def check_manager_purge(prop: str, res: Result, repo: Repo):
    """CandleManager.purge removes exactly the names it is given"""
    rule = "R-PURGE-EXACT"
    pg = repo.method("hexital.core.candle_manager", "CandleManager", "purge")
    params = [p for p in pg.params if p != "self"]
    loopvars = {}
    for n in ast.walk(pg.node):
        if isinstance(n, ast.For) and isinstance(n.target, ast.Name):
            loopvars[n.target.id] = ast.unparse(n.iter)
    defs = {n.targets[0].id: n.value for n in ast.walk(pg.node) if isinstance(n, ast.Assign) and len(n.targets) == 1 and isinstance(n.targets[0], ast.Name)}

    def from_param(txt, depth=0) -> bool:
        """the iterable is the parameter itself, or a local built only from it (`(x,) if isinstance(x, str) else x`, `{x}`, `set(x)` ...)"""
        if txt in params:
            return True
        if depth > 2:
            return False
        try:
            e = defs[txt] if txt in defs else ast.parse(txt, mode="eval").body
        except SyntaxError:
            return False
        if isinstance(e, ast.Name) and e.id == txt and txt not in defs:
            return False
        names = {n.id for n in ast.walk(e) if isinstance(n, ast.Name)}
        return bool(names & set(params)) and names <= set(params) | {"str", "isinstance", "set", "list", "tuple", "frozenset"} and not any(isinstance(n, (ast.Call,)) and call_name(n) not in ("isinstance", "set", "list", "tuple", "frozenset") for n in ast.walk(e))

    pops = [c for c in calls_in(pg.node) if call_name(c) == "pop"]
    if not pops:
        res.fail(rule, finding(prop, rule, pg, pg.node, "CandleManager.purge no longer pops names from the reading dicts", construct="purge: pops"))
    for c in pops:
        key = ast.unparse(c.args[0]) if c.args else "?"
        exact = key in params or (key in loopvars and from_param(loopvars[key]))
        if exact and len(c.args) == 2:
            res.ok(rule, {"site": f"{pg.where} {norm_construct(c)}", "key": key}, nontrivial=norm_construct(c))
        else:
            res.fail(rule, finding(prop, rule, pg, c, "purge removes a key that is not exactly one of the names it was given"))
    for n in ast.walk(pg.node):
        bad = None
        if isinstance(n, ast.Call) and call_name(n) in ("startswith", "endswith", "find", "match", "search"):
            bad = n
        elif isinstance(n, ast.Compare) and any(isinstance(o, (ast.In, ast.NotIn)) for o in n.ops) and not any(isinstance(o, ast.In) and ast.unparse(n.comparators[0]) in params for o in n.ops):
            bad = n
        elif isinstance(n, (ast.DictComp,)):
            bad = n
        elif isinstance(n, ast.Delete):
            bad = n
        if bad is not None:
            res.fail(rule, finding(prop, rule, pg, bad, "purge selects entries by pattern / rebuilds the dicts: entries of other indicators whose names merely resemble the purged one are removed"))


def check_hexital_purge(prop: str, res: Result, repo: Repo):
    """R-SELECT: Hexital.purge / calculate / calculate_index, evaluated (convsem) on a strategy holding indicators named 'A', 'AB' and
    'B': with no name every indicator is operated on, with a name exactly the indicator of that name (not 'AB' for 'A'), with an
    unknown name none"""
    from . import convsem as cs

    rule = "R-SELECT"
    for nm in ("purge", "calculate", "calculate_index"):
        m = repo.method("hexital.core.hexital", "Hexital", nm)
        bad = None
        for asked in (None, "A", "AB", "B", "ZZ", ""):
            it = cs.Interp(repo, "hexital.core.hexital", "Hexital")
            hit = []
            inds = {}
            for n_ in ("A", "AB", "B"):
                o = cs.ObjV(f"indicator {n_}", {"name": n_}, "Indicator")
                for meth in ("purge", "calculate", "calculate_index", "recalculate"):
                    o.attrs[meth] = (lambda a, k, n__=n_, mm=meth: hit.append(n__))
                inds[n_] = o
            selfo = cs.ObjV("self", {"_indicators": inds, "_candles": {}}, "Hexital")
            fn = it.method(nm)
            params = [p_.arg for p_ in fn.args.args[1:]]
            kwargs = {"name": asked} if "name" in params else {}
            if "index" in params:
                kwargs["index"] = -1
            try:
                it.call_function(fn, [], kwargs, bound_first=selfo)
            except cs.Undecided as ex:
                res.errors.append(f"{m.where} {rule} Hexital.{nm}: cannot evaluate the selection for name={asked!r} ({ex}); the rule cannot decide it")
                bad = "undecided"
                break
            except cs.Raised as ex:
                bad = f"raises {ex.what} for name={asked!r}"
                break
            want = ["A", "AB", "B"] if asked is None else [asked] if asked in inds else []
            if sorted(hit) != sorted(want):
                bad = f"with name={asked!r} operates on {sorted(hit)}; expected {want} (indicators registered: 'A', 'AB', 'B')"
                break
        # names that are also indicator codes ('ROC' is ROC's default name): still exactly that one, not every ROC
        for asked in (() if bad else ("ROC", "EMA_3", "EMA")):
            it = cs.Interp(repo, "hexital.core.hexital", "Hexital")
            hit = []
            inds = {}
            for n_, cls_ in (("ROC", "ROC"), ("ROC_5", "ROC"), ("EMA_3", "EMA")):
                o = cs.ObjV(f"indicator {n_}", {"name": n_}, cls_)
                for meth in ("purge", "calculate", "calculate_index", "recalculate"):
                    o.attrs[meth] = (lambda a, k, n__=n_: hit.append(n__))
                inds[n_] = o
            selfo = cs.ObjV("self", {"_indicators": inds, "_candles": {}}, "Hexital")
            fn = it.method(nm)
            params = [p_.arg for p_ in fn.args.args[1:]]
            kwargs = {"name": asked} if "name" in params else {}
            if "index" in params:
                kwargs["index"] = -1
            try:
                it.call_function(fn, [], kwargs, bound_first=selfo)
            except (cs.Undecided, cs.Raised):
                break  # (the plain-name scenarios above decided the rule)
            want = [asked] if asked in inds else []
            if sorted(hit) != sorted(want):
                bad = f"with name={asked!r} operates on {sorted(hit)}; expected {want} (registered: ROC 'ROC', ROC 'ROC_5', EMA 'EMA_3')"
                break
        if bad is None:
            res.ok(rule, {"site": m.where, "selection": "all when no name is given, exactly the named indicator otherwise (9 names evaluated)"}, nontrivial=f"Hexital.{nm}")
        elif bad != "undecided":
            res.fail(rule, finding(prop, rule, m, m.node, f"Hexital.{nm} {bad}: an operation aimed at one indicator touches others (or misses it)", construct=f"Hexital.{nm}: selection"))
    rm = repo.method("hexital.core.hexital", "Hexital", "remove_indicator")
    seq = [call_target(c) for c in calls_in(rm.node)]
    if seq[:2] == ["self.purge", "self._indicators.pop"]:
        res.ok(rule, {"site": rm.where, "order": "purge(name) -> _indicators.pop(name)"})
    else:
        res.fail(rule, finding(prop, rule, rm, rm.node, "remove_indicator must purge the indicator's readings and then drop it", construct="remove_indicator: " + " -> ".join(seq)))


def _purge_names_by_evaluation(repo: Repo):
    """Indicator.purge evaluated (convsem) on a composite with helpers three levels deep in both registries: the names handed to the
    manager.  -> (set of names | None when undecided, expected set)"""
    from . import convsem as cs

    def node(name, subs=(), managed=()):
        o = cs.ObjV(f"indicator {name}", {"name": name, "sub_indicators": {}, "managed_indicators": {}}, "Indicator")
        for c in subs:
            o.attrs["sub_indicators"][c.attrs["name"]] = c
        for i, c in enumerate(managed):
            o.attrs["managed_indicators"][f"label{i}"] = c  # filed under a local label, not under the series' name
        return o

    leaf1, leaf2, leaf3 = node("T_first_second"), node("T_data_smooth"), node("T_aux")
    mid1, mid2 = node("T_first", subs=[leaf1]), node("T_data", subs=[leaf2], managed=[leaf3])
    top = node("T", subs=[mid1], managed=[mid2])
    expected = {"T", "T_first", "T_first_second", "T_data", "T_data_smooth", "T_aux"}
    got = []
    mgr = cs.ObjV("manager", {}, "CandleManager")
    mgr.attrs["purge"] = lambda a, k: got.append(a[0] if a else next(iter(k.values()), None))
    for o in (top, mid1, mid2, leaf1, leaf2, leaf3):
        o.attrs["_candles"] = mgr
        o.attrs["candle_manager"] = mgr
    it = cs.Interp(repo, "hexital.core.indicator", "Indicator")
    try:
        it.call_function(it.method("purge"), [], {}, bound_first=top)
    except (cs.Undecided, cs.Raised, RecursionError):
        return None, expected
    if len(got) != 1:
        return None, expected
    try:
        return set(got[0]), expected
    except TypeError:
        return None, expected


def purge_depth(repo: Repo):
    """abstract evaluation of Indicator.purge's name set: returns ('inf'|int, evidence text, function)"""
    pg = repo.method("hexital.core.indicator", "Indicator", "purge")
    ind = repo.indicator_base()
    _got, _want = _purge_names_by_evaluation(repo)
    if _got is not None:
        fn_ = ind.methods.get("_purge_names") or pg
        if _got == _want:
            return "inf", "evaluated on a composite three levels deep (sub and managed helpers, managed ones filed under local labels): the manager is handed exactly the names of all six series", fn_
        missing, extra = sorted(_want - _got), sorted(_got - _want)
        return 0, f"evaluated on a composite three levels deep: the manager is handed {sorted(_got)}; missing {missing}, unexpected {extra}", fn_
    # the expression handed to the manager
    mcalls = [c for c in calls_in(pg.node) if call_target(c).endswith("_candles.purge") or call_target(c).endswith("candle_manager.purge")]
    if len(mcalls) != 1 or not mcalls[0].args:
        return 0, "purge does not hand a name set to the candle manager", pg
    arg = mcalls[0].args[0]
    # direct set expression (depth 1 form) or a helper method
    def analyse_fn(fn, seen):
        txt = ast.unparse(fn.node)
        own = "self.name" in txt
        regs = ("self.sub_indicators" in txt, "self.managed_indicators" in txt)
        rec = any(call_name(c) == fn.name and not (isinstance(c.func, ast.Attribute) and ast.unparse(c.func.value) == "self") for c in calls_in(fn.node))
        return own, regs, rec
    if isinstance(arg, ast.Call) and isinstance(arg.func, ast.Attribute) and ast.unparse(arg.func.value) == "self":
        helper = repo.find_method(ind, arg.func.attr)
        if helper is None:
            return 0, f"helper {arg.func.attr} not found", pg
        own, regs, rec = analyse_fn(helper, set())
        if own and all(regs) and rec:
            return "inf", f"{helper.qualname} collects self.name and recurses over sub_indicators and managed_indicators", helper
        if own and all(regs):
            return 1, f"{helper.qualname} collects children one level deep", helper
        return 0, f"{helper.qualname} does not collect own name and both helper registries", helper
    txt = ast.unparse(arg)
    if "self.name" in txt and "self.sub_indicators" in txt and "self.managed_indicators" in txt:
        return 1, "purge collects own name and direct children", pg
    if "self.name" in txt:
        return 0, "purge removes only the indicator's own name", pg
    return 0, "purge name set not understood", pg


def _is_raw_copy_comp(node, source_txt: str) -> bool:
    """[c.raw_copy() for c in <source>] / generator of the same"""
    if isinstance(node, (ast.ListComp, ast.GeneratorExp)) and len(node.generators) == 1 and not node.generators[0].ifs:
        g = node.generators[0]
        elt = node.elt
        return (
            isinstance(elt, ast.Call)
            and isinstance(elt.func, ast.Attribute)
            and elt.func.attr == "raw_copy"
            and not elt.args
            and ast.unparse(elt.func.value) == ast.unparse(g.target)
            and ast.unparse(g.iter).replace(" ", "") == source_txt.replace(" ", "")
        )
    return False


def check_raw_copies(prop: str, res: Result, repo: Repo, want=("method", "append", "validate"), raw_required=True):
    """R-ALIAS: Candle objects reach a non-default candle manager only as fresh *raw* copies (Candle.raw_copy):
    a plain deep copy would carry converted values and tags into a manager that collapses before it converts, and a
    shared object would let one timeframe's collapse rewrite another's candles"""
    rule = "R-ALIAS"
    if "method" in want:
        ci = repo.cls("hexital.core.candle", "Candle")
        m = ci.methods.get("raw_copy")
        if m is None:
            res.fail(rule, finding(prop, rule, ci, ci.node, "Candle.raw_copy (fresh copy with raw values, no tag, no readings) is missing", construct="Candle.raw_copy"))
        else:
            from . import convsem as cs

            FIELDS = ("open", "high", "low", "close", "volume", "timestamp")
            bad = None
            for label, converted in (("a converted, tagged candle with readings", True), ("an unconverted candle with readings", False)):
                cur = {f: 11.0 + i_ for i_, f in enumerate(FIELDS)}
                raw = {f: (0 if f == "volume" else 1.0 + i_) for i_, f in enumerate(FIELDS)}  # (a raw volume of 0 is legitimate)
                readings, helper = {"EMA_10": cs.Sym("a reading", "float")}, {"EMA_10_h": cs.Sym("a helper reading", "float")}
                saved = dict(raw)
                saved.update({"clean_values": {}, "indicators": {"stale": cs.Sym("a stale reading", "float")}, "sub_indicators": {}})
                attrs = dict(cur)
                attrs.update({"clean_values": saved if converted else {}, "indicators": readings, "sub_indicators": helper, "_tag": "Heikin-Ashi" if converted else None})
                selfo = cs.ObjV("the candle", attrs, "Candle")
                before = {k: (dict(v) if isinstance(v, dict) else v) for k, v in attrs.items()}
                it = cs.Interp(repo, "hexital.core.candle", "Candle")
                try:
                    got = it.call_function(it.method("raw_copy"), [], {}, bound_first=selfo)
                except cs.Undecided as ex:
                    res.errors.append(f"{m.where} {rule} Candle.raw_copy: cannot evaluate the copy of {label} ({ex}); the rule cannot decide it")
                    bad = "undecided"
                    break
                except cs.Raised as ex:
                    bad = f"raises {ex.what} on {label}"
                    break
                want_f = raw if converted else cur
                if not isinstance(got, cs.ObjV) or got is selfo:
                    bad = f"returns {got!r} for {label}, not a new candle object"
                elif any(got.attrs.get(f) != want_f[f] or type(got.attrs.get(f)) is not type(want_f[f]) for f in FIELDS):
                    f_ = next(f for f in FIELDS if got.attrs.get(f) != want_f[f] or type(got.attrs.get(f)) is not type(want_f[f]))
                    bad = f"the copy of {label} has {f_} = {got.attrs.get(f_)!r}, expected the {'raw (pre-conversion)' if converted else 'own'} value {want_f[f_]!r}"
                elif got.attrs.get("clean_values") != {} or got.attrs.get("indicators") != {} or got.attrs.get("sub_indicators") != {} or got.attrs.get("_tag") is not None:
                    bad = f"the copy of {label} still carries saved values / readings / a conversion tag ({ {k: got.attrs.get(k) for k in ('clean_values', 'indicators', 'sub_indicators', '_tag')}!r})"
                elif any(got.attrs.get(k) is attrs[k] for k in ("clean_values", "indicators", "sub_indicators")):
                    bad = f"the copy of {label} shares a dict with the original"
                elif {k: (dict(v) if isinstance(v, dict) else v) for k, v in selfo.attrs.items()} != before:
                    bad = f"raw_copy changes the candle it copies ({label})"
                if bad:
                    break
            if bad is None:
                res.ok(rule, {"site": m.where, "raw_copy": "evaluated on a converted and an unconverted candle: a new object with the raw prices, no saved values, no readings, no tag; the original untouched"}, nontrivial="raw_copy")
            elif bad != "undecided":
                res.fail(rule, finding(prop, rule, m, m.node, f"Candle.raw_copy: {bad}; a timeframe manager collapses before it converts, so its copies must be raw, untagged and without readings", construct="Candle.raw_copy body"))
    if "append" in want:
        from .props.c19 import eval_append

        ap = repo.method("hexital.core.candle_manager", "CandleManager", "append")
        n_ok = 0
        for kind, label, status, msg in eval_append(repo):
            if "Candle" not in label:
                continue  # (the encodings are R-DISPATCH's business)
            if status == "ok":
                n_ok += 1
            elif status == "undecided":
                res.errors.append(f"{ap.where} {rule} CandleManager.append: cannot evaluate what is stored for {label} ({msg}); the rule cannot decide it")
            else:
                res.fail(rule, finding(prop, rule, ap, ap.node, msg + " (a non-default manager must hold fresh, un-converted copies; the default manager adopts the originals)", construct=f"CandleManager.append: {label} ({kind})"))
        if n_ok:
            res.ok(rule, {"site": ap.where, "why": f"{n_ok} scenarios: the default manager adopts the candles; every other manager extends with candle.raw_copy() of each"}, nontrivial="append:raw_copy")
    if "validate" in want:
        vi = repo.method("hexital.core.hexital", "Hexital", "_validate_indicators")
        loops = [n for n in vi.node.body if isinstance(n, ast.For)]
        ctor = [(lp, c) for lp in loops for c in calls_in(lp) if call_name(c) == "CandleManager"]
        if len(ctor) == 1:
            c = ctor[0][1]
            first = c.args[0] if c.args else next((k.value for k in c.keywords if k.arg == "candles"), None)
            plain = first is not None and any(isinstance(n, ast.Call) and call_name(n) == "deepcopy" for n in ast.walk(first)) and "DEFAULT_CANDLES" in ast.unparse(first)
            if first is not None and (_is_raw_copy_comp(first, "self._candles[DEFAULT_CANDLES].candles") or (plain and not raw_required)):
                res.ok(rule, {"site": f"{vi.where} {norm_construct(first)}", "why": "each new timeframe manager gets its own raw copies of the base candles"}, nontrivial="validate:raw_copy")
            else:
                res.fail(rule, finding(prop, rule, vi, first if first is not None else c, "a new timeframe manager must be built from [candle.raw_copy() for candle in <base candles>] evaluated for that manager: shared or already converted candles corrupt its buckets"))
        else:
            res.fail(rule, finding(prop, rule, vi, vi.node, "the binding loop must create a missing timeframe manager with one CandleManager(...) call", construct="_validate_indicators: CandleManager(...)"))


def lasting_effect_sites(repo: Repo, eff, fn):
    """effect sites of fn that outlive a call.  A collecting parameter (`def f(self, acc=None): if acc is None: acc = set() ...
    child.f(acc)`) is a fresh object per outside call: the parameter defaults to None and only the function itself (the recursion)
    ever passes it, so writes through it are not kept anywhere"""
    a_ = fn.node.args
    none_default = {p_.arg for p_, d_ in zip(a_.args[len(a_.args) - len(a_.defaults):], a_.defaults) if isinstance(d_, ast.Constant) and d_.value is None}
    passed_outside = set()
    for g in repo.all_functions():
        if g.node is fn.node:
            continue
        for c_ in calls_in(g.node):
            if call_name(c_) == fn.name:
                params_ = [x.arg for x in a_.args if x.arg not in ("self", "cls")]
                passed_outside |= set(params_[: len(c_.args)]) | {k.arg for k in c_.keywords if k.arg}
    # the parameter is re-bound to a fresh container when it is None, before anything is written through it
    fresh_when_none = set()
    for st in fn.node.body:
        if isinstance(st, ast.If) and isinstance(st.test, ast.Compare) and len(st.test.ops) == 1 and isinstance(st.test.ops[0], ast.Is) and isinstance(st.test.left, ast.Name) and isinstance(st.test.comparators[0], ast.Constant) and st.test.comparators[0].value is None:
            for b in st.body:
                if isinstance(b, ast.Assign) and len(b.targets) == 1 and isinstance(b.targets[0], ast.Name) and b.targets[0].id == st.test.left.id and (isinstance(b.value, (ast.Set, ast.List, ast.Dict)) or isinstance(b.value, ast.Call) and call_name(b.value) in ("set", "list", "dict")):
                    fresh_when_none.add(st.test.left.id)
        elif isinstance(st, ast.Assign) and len(st.targets) == 1 and isinstance(st.targets[0], ast.Name) and isinstance(st.value, ast.IfExp):
            t = st.value.test
            nm = st.targets[0].id
            if isinstance(t, ast.Compare) and len(t.ops) == 1 and isinstance(t.left, ast.Name) and t.left.id == nm and isinstance(t.comparators[0], ast.Constant) and t.comparators[0].value is None:
                arm = st.value.body if isinstance(t.ops[0], ast.Is) else st.value.orelse
                if isinstance(arm, (ast.Set, ast.List, ast.Dict)) or isinstance(arm, ast.Call) and call_name(arm) in ("set", "list", "dict"):
                    fresh_when_none.add(nm)
    benign = (none_default & fresh_when_none) - passed_outside
    return [(root, node, w) for root, node, w in eff.effect_sites(fn) if root not in benign and not any(f"parameter '{b}'" in w for b in benign)]


def check_purge_paths(prop: str, res: Result, repo: Repo):
    """R-PURGE: Indicator.purge hands its name set to the manager on every path (no early return that leaves entries behind) and the
    name collection keeps nothing between calls"""
    from .effects import Effects
    from .structure import normal_exit, path_calls, stmt_paths

    rule = "R-PURGE"
    pg = repo.method("hexital.core.indicator", "Indicator", "purge")
    # the name set holds names of series (the indicator's own and its helpers' `.name`s): the keys under which a composite files its
    # managed helpers ("signal", "dx", ...) are labels, not series, and may be another indicator's name
    pn_ = repo.indicator_base().methods.get("_purge_names")
    if pn_ is not None:
        def _registry(e):
            return any(isinstance(x, ast.Attribute) and x.attr in ("managed_indicators", "sub_indicators") for x in ast.walk(e))

        for n_ in ast.walk(pn_.node):
            keys_used = None
            if isinstance(n_, ast.Starred) and _registry(n_.value) and not any(isinstance(x, ast.Call) and call_name(x) in ("values", "_purge_names") for x in ast.walk(n_.value)):
                keys_used = n_
            elif isinstance(n_, (ast.For, ast.comprehension)) and _registry(n_.iter) and not any(isinstance(x, ast.Call) and call_name(x) in ("values", "items") for x in ast.walk(n_.iter)):
                keys_used = n_.iter
            elif isinstance(n_, ast.Call) and call_name(n_) in ("keys",) and _registry(n_):
                keys_used = n_
            if keys_used is not None:
                res.fail(rule, finding(prop, rule, pn_, keys_used, "the purge name set takes the KEYS of a helper registry: managed helpers are filed under local labels ('signal', 'dx', 'STOCH_d' ...), which are not series of this indicator: purging it also removes the readings of any other indicator that happens to be called like one of those labels"))
    n = 0
    for p in stmt_paths(pg.node.body):
        if not normal_exit(p):
            continue
        n += 1
        if any(call_target(c).endswith("_candles.purge") or call_target(c).endswith("candle_manager.purge") for c in path_calls(p)):
            res.ok(rule, {"site": pg.where, "path": n, "why": "reaches the manager's purge"})
        else:
            res.fail(rule, finding(prop, rule, pg, pg.node, "a path through Indicator.purge returns without purging (e.g. a 'nothing calculated yet' shortcut): entries of the indicator or its helpers stay on the candles", construct=f"Indicator.purge: path {n} without manager purge"))
    depth, why, fn = purge_depth(repo)
    eff = Effects(repo)
    if fn is not None and fn.name != "purge":
        e = eff.effect(fn)
        sites_ = lasting_effect_sites(repo, eff, fn)
        if e and sites_:
            for root, node, w in sites_[:2]:
                res.fail(rule, finding(prop, rule, fn, node, f"the purge name set is kept between calls ({w}; e.g. a mutable default argument or a cache on the object): a later purge of another indicator also removes these names"))
        else:
            res.ok(rule, {"site": fn.where, "why": "name collection is stateless"})
        # the name set is computed from the live registries on every call: no other object state (a cached copy) may feed it
        allowed = {"name", "sub_indicators", "managed_indicators", fn.name}
        for n in ast.walk(fn.node):
            if isinstance(n, ast.Attribute) and isinstance(n.value, ast.Name) and n.value.id == "self" and isinstance(n.ctx, ast.Load) and n.attr not in allowed:
                res.fail(rule, finding(prop, rule, fn, n, f"the purge name set is read from object state (self.{n.attr}) instead of being collected from the helper registries at call time: helpers registered after that state was filled are never purged"))
        for a in fn.node.args.defaults + [d for d in fn.node.args.kw_defaults if d is not None]:
            if isinstance(a, (ast.List, ast.Dict, ast.Set)) or (isinstance(a, ast.Call) and call_name(a) in ("set", "list", "dict")):
                res.fail(rule, finding(prop, rule, fn, a, "mutable default argument in the purge name collection: the set is shared by every call in the process"))
