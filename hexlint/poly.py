"""Polynomial / Herbrand value-numbering domain.

A value is a fraction of multivariate polynomials with Fraction coefficients over
*atoms*.  Atoms are tuples ``(tag, *args)``; args are str / int / Fraction / Frac /
tuples of those.  Reductions (sum/min/max over a bound offset) are atoms in a
canonical form, so two syntactically different but algebraically equal expressions
get equal normal forms.  No evaluation of repository code, no solver: equality is
"cross-multiplied difference is the zero polynomial".
"""
from __future__ import annotations

import itertools
from fractions import Fraction
from typing import Dict, Iterable, Tuple

Mono = Tuple[Tuple[tuple, int], ...]  # sorted ((atom, exp), ...)


def _akey(a):
    return repr(a)


def _mono_mul(a: Mono, b: Mono) -> Mono:
    d: Dict[tuple, int] = dict(a)
    for at, e in b:
        d[at] = d.get(at, 0) + e
    return tuple(sorted(((k, v) for k, v in d.items() if v != 0), key=lambda kv: _akey(kv[0])))


class Poly:
    __slots__ = ("t", "_k")

    def __init__(self, terms: Dict[Mono, Fraction] | None = None):
        self.t = {m: c for m, c in (terms or {}).items() if c != 0}
        self._k = None

    # -- construction
    @staticmethod
    def const(c) -> "Poly":
        return Poly({(): Fraction(c)})

    @staticmethod
    def atom(a: tuple) -> "Poly":
        return Poly({((a, 1),): Fraction(1)})

    def is_zero(self):
        return not self.t

    def is_const(self):
        return all(m == () for m in self.t)

    def const_value(self) -> Fraction:
        return self.t.get((), Fraction(0))

    def __add__(self, o: "Poly") -> "Poly":
        d = dict(self.t)
        for m, c in o.t.items():
            d[m] = d.get(m, 0) + c
        return Poly(d)

    def __neg__(self):
        return Poly({m: -c for m, c in self.t.items()})

    def __sub__(self, o):
        return self + (-o)

    def __mul__(self, o: "Poly") -> "Poly":
        d: Dict[Mono, Fraction] = {}
        for m1, c1 in self.t.items():
            for m2, c2 in o.t.items():
                m = _mono_mul(m1, m2)
                d[m] = d.get(m, 0) + c1 * c2
        return Poly(d)

    def scale(self, c) -> "Poly":
        c = Fraction(c)
        return Poly({m: v * c for m, v in self.t.items()})

    def key(self):
        if self._k is None:
            self._k = tuple(sorted(((m, c) for m, c in self.t.items()), key=lambda mc: repr(mc[0])))
        return self._k

    def __eq__(self, o):
        return isinstance(o, Poly) and self.key() == o.key()

    def __hash__(self):
        return hash(self.key())

    def atoms(self) -> set:
        out = set()
        for m in self.t:
            for a, _ in m:
                out.add(a)
        return out

    def __repr__(self):
        if not self.t:
            return "0"
        parts = []
        for m, c in self.key():
            ms = "*".join(show_atom(a) + (f"^{e}" if e != 1 else "") for a, e in m)
            if not ms:
                parts.append(str(c))
            elif c == 1:
                parts.append(ms)
            elif c == -1:
                parts.append("-" + ms)
            else:
                parts.append(f"{c}*{ms}")
        return " + ".join(parts).replace("+ -", "- ")


class Frac:
    """num/den, lightly normalised.  Structural hash/eq; use `same()` for algebraic equality."""

    __slots__ = ("n", "d", "_k")

    def __init__(self, n: Poly, d: Poly | None = None):
        d = d if d is not None else Poly.const(1)
        if d.is_zero():
            raise ZeroDivisionError("symbolic zero denominator")
        if n.is_zero():
            d = Poly.const(1)
        elif d.is_const():
            n = n.scale(1 / d.const_value())
            d = Poly.const(1)
        elif len(d.t) == 1:
            (dm, dc), = d.t.items()
            n = n.scale(1 / dc)
            dmd = dict(dm)
            # cancel common atom powers
            for a in list(dmd):
                e = min((dict(m).get(a, 0) for m in n.t), default=0)
                e = min(e, dmd[a])
                if e > 0:
                    n = Poly({_mono_div(m, a, e): c for m, c in n.t.items()})
                    dmd[a] -= e
            d = Poly({tuple(sorted(((k, v) for k, v in dmd.items() if v), key=lambda kv: _akey(kv[0]))): Fraction(1)})
        else:
            # make leading coefficient of den positive-1 normalised
            lead = d.key()[0][1]
            if lead != 1:
                n = n.scale(1 / lead)
                d = d.scale(1 / lead)
            if n == d:
                n = d = Poly.const(1)
            elif (-n) == d:
                n, d = Poly.const(-1), Poly.const(1)
        self.n, self.d, self._k = n, d, None

    @staticmethod
    def const(c):
        return Frac(Poly.const(c))

    @staticmethod
    def atom(a):
        return Frac(Poly.atom(a))

    def key(self):
        if self._k is None:
            self._k = (self.n.key(), self.d.key())
        return self._k

    def __eq__(self, o):
        return isinstance(o, Frac) and self.key() == o.key()

    def __hash__(self):
        return hash(self.key())

    def __repr__(self):
        if self.d.is_const():
            return repr(self.n)
        return f"({self.n!r})/({self.d!r})"

    def __add__(self, o):
        if self.d == o.d:
            return Frac(self.n + o.n, self.d)
        return Frac(self.n * o.d + o.n * self.d, self.d * o.d)

    def __neg__(self):
        return Frac(-self.n, self.d)

    def __sub__(self, o):
        return self + (-o)

    def __mul__(self, o):
        return Frac(self.n * o.n, self.d * o.d)

    def __truediv__(self, o):
        return Frac(self.n * o.d, self.d * o.n)

    def same(self, o: "Frac") -> bool:
        return (self.n * o.d - o.n * self.d).is_zero()

    def is_const(self):
        return self.n.is_const() and self.d.is_const()

    def const_value(self) -> Fraction:
        return self.n.const_value() / self.d.const_value()

    def is_zero(self):
        return self.n.is_zero()

    def atoms(self) -> set:
        return self.n.atoms() | self.d.atoms()

    def is_poly(self):
        return self.d.is_const()


def _mono_div(m: Mono, a, e) -> Mono:
    d = dict(m)
    d[a] -= e
    return tuple(sorted(((k, v) for k, v in d.items() if v), key=lambda kv: _akey(kv[0])))


ZERO = Frac.const(0)
ONE = Frac.const(1)


def C(c) -> Frac:
    return Frac.const(c)


def A(*atom) -> Frac:
    return Frac.atom(tuple(atom))


# ---------------------------------------------------------------------------
# atom pretty printing


def show_atom(a) -> str:
    tag = a[0]
    if tag == "t":
        return "t"
    if tag == "cfg":
        return a[1]
    if tag == "bv":
        return f"o{a[1]}"
    if tag == "rd":
        return f"{a[1]}[{a[2]!r}]"
    if tag == "fn":
        return f"{a[1]}({', '.join(repr(x) for x in a[2:])})"
    if tag == "pow":
        return f"({a[1]!r})**({a[2]!r})"
    if tag == "sum":
        return f"Σ[{show_atom(a[1])}<{a[2]!r}]({a[3]!r})"
    if tag == "red":
        return f"{a[1]}[{show_atom(a[2])}<{a[3]!r}{',clamp' if a[5] else ''}]({a[4]!r})"
    if tag == "ite":
        return f"ite({a[1]!r}, {a[2]!r}, {a[3]!r})"
    if tag == "sym":
        return str(a[1])
    return repr(a)


# ---------------------------------------------------------------------------
# generic traversal / substitution


def all_atoms(x, acc=None) -> set:
    """every atom occurring anywhere inside a Frac / atom / tuple (deep)."""
    acc = set() if acc is None else acc
    if isinstance(x, Frac):
        for a in x.atoms():
            if a not in acc:
                acc.add(a)
                all_atoms(a, acc)
    elif isinstance(x, tuple):
        for y in x:
            all_atoms(y, acc)
    return acc


def subst(x, mp: dict):
    """substitute atoms -> Frac (deep, rebuilding derived atoms through their constructors)."""
    if isinstance(x, Frac):
        return _subst_frac(x, mp)
    if isinstance(x, tuple):
        return tuple(subst(y, mp) for y in x)
    return x


def _subst_poly(p: Poly, mp) -> Frac:
    out = ZERO
    for m, c in p.t.items():
        term = C(c)
        for a, e in m:
            r = _subst_atom(a, mp)
            if e >= 0:
                for _ in range(e):
                    term = term * r
            else:
                for _ in range(-e):
                    term = term / r
        out = out + term
    return out


def _subst_frac(f: Frac, mp) -> Frac:
    if not mp:
        return f
    n = _subst_poly(f.n, mp)
    if f.d.is_const():
        return n / C(f.d.const_value())
    return n / _subst_poly(f.d, mp)


def _subst_atom(a, mp) -> Frac:
    if a in mp:
        return mp[a]
    tag = a[0]
    if tag in ("t", "cfg", "bv", "sym"):
        return Frac.atom(a)
    if tag == "rd":
        return mk_rd(a[1], _subst_frac(a[2], mp))
    if tag == "fn":
        return mk_fn(a[1], *[subst(x, mp) for x in a[2:]])
    if tag == "pow":
        return mk_pow(_subst_frac(a[1], mp), _subst_frac(a[2], mp))
    if tag == "sum":
        mp2 = {k: v for k, v in mp.items() if k != a[1]}
        return mk_sum(a[1], _subst_frac(a[2], mp2), _subst_frac(a[3], mp2))
    if tag == "red":
        mp2 = {k: v for k, v in mp.items() if k != a[2]}
        return mk_red(a[1], a[2], _subst_frac(a[3], mp2), _subst_frac(a[4], mp2), a[5])
    if tag == "ite":
        c = subst(a[1], mp)
        c = _fold_cond(c)
        # a branch that the substituted condition rules out is not evaluated (it may divide by the very value the condition guards)
        if c is True:
            return _subst_frac(a[2], mp)
        if c is False:
            return _subst_frac(a[3], mp)
        return mk_ite(c, _subst_frac(a[2], mp), _subst_frac(a[3], mp))
    # unknown atom: rebuild args generically
    return Frac.atom(tuple(subst(y, mp) if isinstance(y, (Frac, tuple)) else y for y in a))


# ---------------------------------------------------------------------------
# constructors with normalisation

_fresh = itertools.count()


def fresh_bv():
    return ("bv", f"#{next(_fresh)}")


def mk_rd(name: str, pos: Frac) -> Frac:
    return Frac.atom(("rd", name, pos))


def _lead_sign_norm(f: Frac):
    """return (sign, g) with f = sign*g and g's leading numerator coefficient positive."""
    if f.is_zero():
        return 1, f
    lead = f.n.key()[0][1]
    if lead < 0:
        return -1, -f
    return 1, f


def mk_fn(name: str, *args) -> Frac:
    if name in ("float",):
        return args[0]
    if name == "abs":
        (x,) = args
        if x.is_const():
            return C(abs(x.const_value()))
        _, g = _lead_sign_norm(x)
        ats = g.atoms()
        # abs of an abs/sqrt-like atom stays
        if g.is_poly() and len(g.n.t) == 1:
            (m, c), = g.n.t.items()
            if len(m) == 1 and m[0][1] == 1 and m[0][0][0] == "fn" and m[0][0][1] in ("abs", "sqrt"):
                return g
        return Frac.atom(("fn", "abs", g))
    if name in ("max", "min"):
        flat = []
        for x in args:
            a = _single_atom(x)
            if a is not None and a[0] == "fn" and a[1] == name:
                flat.extend(a[2:])
            else:
                flat.append(x)
        uniq = sorted(set(flat), key=repr)
        if all(u.is_const() for u in uniq):
            vals = [u.const_value() for u in uniq]
            return C(max(vals) if name == "max" else min(vals))
        if len(uniq) == 1:
            return uniq[0]
        return Frac.atom(("fn", name, *uniq))
    if name == "int":
        (x,) = args
        if x.is_const():
            return C(int(x.const_value()))
        return Frac.atom(("fn", "int", x))
    if name == "sqrt":
        (x,) = args
        if x.is_const() and x.const_value() in (0, 1):
            return x
        return Frac.atom(("fn", "sqrt", x))
    return Frac.atom(("fn", name, *args))


def _single_atom(x: Frac):
    if x.is_poly() and len(x.n.t) == 1:
        (m, c), = x.n.t.items()
        if c == 1 and len(m) == 1 and m[0][1] == 1:
            return m[0][0]
    return None


def mk_pow(base: Frac, exp: Frac) -> Frac:
    if exp.is_const():
        e = exp.const_value()
        if e.denominator == 1 and abs(e) <= 12:
            out = ONE
            for _ in range(abs(int(e))):
                out = out * base
            return out if e >= 0 else ONE / out
    if base.is_const() and base.const_value() == 1:
        return ONE
    # pow(b, u+v) with constant part: split off integer constants
    if exp.is_poly():
        c0 = exp.n.t.get((), Fraction(0)) / exp.d.const_value()
        if c0 != 0 and c0.denominator == 1 and abs(c0) <= 12:
            rest = exp - C(c0)
            return mk_pow(base, C(c0)) * mk_pow(base, rest)
    return Frac.atom(("pow", base, exp))


def _neg_cond(c):
    if c is True:
        return False
    if c is False:
        return True
    if c[0] == "not":
        return c[1]
    if c[0] == "cmp":
        op, d = c[1], c[2]
        if op == "<":
            return ("cmp", "<=", -d)
        if op == "<=":
            return ("cmp", "<", -d)
        if op == "==":
            return ("cmp", "!=", d)
        if op == "!=":
            return ("cmp", "==", d)
    if c[0] == "and":
        return ("or",) + tuple(_neg_cond(x) for x in c[1:])
    if c[0] == "or":
        return ("and",) + tuple(_neg_cond(x) for x in c[1:])
    return ("not", c)


def _fold_cond(c):
    """constant-fold a condition after substitution"""
    if isinstance(c, tuple) and c:
        if c[0] == "cmp" and isinstance(c[2], Frac) and c[2].is_const():
            v = c[2].const_value()
            return {"<": v < 0, "<=": v <= 0, "==": v == 0, "!=": v != 0}.get(c[1], c)
        if c[0] == "not":
            x = _fold_cond(c[1])
            return (not x) if isinstance(x, bool) else ("not", x)
        if c[0] in ("and", "or"):
            xs = [_fold_cond(x) for x in c[1:]]
            if c[0] == "and":
                if any(x is False for x in xs):
                    return False
                xs = [x for x in xs if x is not True]
                return True if not xs else (xs[0] if len(xs) == 1 else ("and",) + tuple(xs))
            if any(x is True for x in xs):
                return True
            xs = [x for x in xs if x is not False]
            return False if not xs else (xs[0] if len(xs) == 1 else ("or",) + tuple(xs))
    return c


def _canon_polarity(cond):
    """(cond', swapped): one representative of {c, not c}: strict / equality comparisons, conjunctions, un-negated atoms"""
    if isinstance(cond, tuple):
        if cond[0] == "not" or (cond[0] == "cmp" and cond[1] in ("<=", "!=")) or cond[0] == "or":
            return _neg_cond(cond), True
    return cond, False


def mk_ite(cond, a: Frac, b: Frac) -> Frac:
    if a == b or a.same(b):
        return a
    if cond is True:
        return a
    if cond is False:
        return b
    cond, swapped = _canon_polarity(cond)
    if swapped:
        a, b = b, a
    if isinstance(cond, tuple) and cond[0] == "and":
        cond = ("and",) + tuple(sorted(set(cond[1:]), key=repr))
    # clamp idioms:  (0 if x < 0 else x)  ==  max(x, 0)   ;   (x if x > 0 else 0) == max(x, 0)
    if isinstance(cond, tuple) and cond[0] == "cmp" and cond[1] in ("<", "<="):
        d = cond[2]
        if a.is_zero() and b == d:
            return mk_fn("max", d, ZERO)
        if b.is_zero() and a == -d:
            return mk_fn("max", -d, ZERO)
        # (abs(x) if x < 0 else 0) == max(-x, 0)
        sa = _single_atom(a)
        if b.is_zero() and sa is not None and sa[0] == "fn" and sa[1] == "abs" and len(sa) == 3 and (sa[2] == d or sa[2] == -d):
            return mk_fn("max", -d, ZERO)

    return Frac.atom(("ite", cond, a, b))


def depends_on(x, var) -> bool:
    return var in all_atoms(x) or (isinstance(x, Frac) and var in x.atoms())


def _split_mono(m: Mono, var):
    dep, indep = [], []
    for a, e in m:
        if a == var or var in all_atoms(a):
            dep.append((a, e))
        else:
            indep.append((a, e))
    return tuple(dep), tuple(indep)


def _bv_depth(x) -> int:
    d = -1
    for a in all_atoms(x):
        if a[0] == "bv" and isinstance(a[1], int):
            d = max(d, a[1])
    return d


def mk_sum(var, count: Frac, body: Frac) -> Frac:
    """Σ_{var=0}^{count-1} body(var), canonical:
    * distributed over + ; var-independent factors pulled out; Σ 1 = count
    * orientation-invariant: body(var) and body(count-1-var) give the same atom
    * bound variable renamed to ('bv', depth)
    """
    if not body.d.is_const() and depends_on(Frac(body.d), var):
        # denominator depends on the bound variable: keep the quotient opaque
        q = Frac.atom(("fn", "quot", Frac(body.n), Frac(body.d)))
        return mk_sum(var, count, q)
    den = Frac(body.d)
    out = ZERO
    for m, c in body.n.t.items():
        dep, indep = _split_mono(m, var)
        coef = Frac(Poly({indep: c}))
        if not dep:
            out = out + coef * count
            continue
        inner = Frac(Poly({dep: Fraction(1)}))
        out = out + coef * _canon_sum_atom(var, count, inner)
    return out / den


def _pos_orientation(inner: Frac, var):
    """+1 / -1 if every reading position inside `inner` moves forward / backward with var, else 0"""
    signs = set()
    for a in all_atoms(inner):
        if a[0] == "rd" and var in all_atoms(a[2]) | a[2].atoms():
            v = linear_view(a[2])
            if v is None or var not in v[0]:
                return 0
            signs.add(1 if v[0][var] > 0 else -1)
    if len(signs) == 1:
        return signs.pop()
    return 0


def _canon_sum_atom(var, count, inner: Frac) -> Frac:
    if _pos_orientation(inner, var) > 0:
        # canonical orientation: offsets count back from the newest element (positions t - o)
        nv = fresh_bv()
        flipped = subst(inner, {var: count - ONE - Frac.atom(nv)})
        if _pos_orientation(flipped, nv) < 0:
            return mk_sum(nv, count, flipped)
    depth = _bv_depth(inner) + 1
    depth = max(depth, _bv_depth(count) + 1)
    cv = ("bv", depth)
    fwd = subst(inner, {var: Frac.atom(cv)})
    rev = subst(inner, {var: count - ONE - Frac.atom(cv)})
    # the reversed form may have become a polynomial again (e.g. (count-1-o)*x): only use it
    # for orientation choice when it is still a single monomial with coefficient 1
    cands = [fwd]
    if _pos_orientation(inner, var) == 0 and rev.is_poly() and len(rev.n.t) == 1 and list(rev.n.t.values())[0] == 1:
        cands.append(rev)
    best = min(cands, key=repr)
    return Frac.atom(("sum", cv, count, best))


def mk_red(kind: str, var, count: Frac, body: Frac, clamp: bool) -> Frac:
    """min/max/argoffmax/argoffmin reduction over offsets var in [0,count)."""
    depth = max(_bv_depth(body), _bv_depth(count)) + 1
    cv = ("bv", depth)
    fwd = subst(body, {var: Frac.atom(cv)})
    if kind in ("max", "min"):
        rev = subst(body, {var: count - ONE - Frac.atom(cv)})
        o = _pos_orientation(body, var)
        best = fwd if o < 0 else (rev if o > 0 else min([fwd, rev], key=repr))
    else:
        best = fwd  # argoff reductions are orientation sensitive (offset from t)
    if count.is_const() and count.const_value() == 1 and kind in ("max", "min"):
        return subst(best, {cv: ZERO})
    return Frac.atom(("red", kind, cv, count, best, clamp))


def linear_view(f: Frac):
    """if f is an affine polynomial over atoms return ({atom: coef}, const) else None."""
    if not f.is_poly():
        return None
    coefs, const = {}, Fraction(0)
    dv = f.d.const_value()
    for m, c in f.n.t.items():
        c = c / dv
        if m == ():
            const += c
        elif len(m) == 1 and m[0][1] == 1:
            coefs[m[0][0]] = coefs.get(m[0][0], 0) + c
        else:
            return None
    return coefs, const
