"""C01 — incremental appends give exactly the batch result (structural preconditions of the induction)."""
from __future__ import annotations

from ..core import Result, register
from ..driver import check_append_order, check_calculate_driver, check_merge, check_resume, check_state
from ..rules_calc import check_positions, check_writes
from .common import shipped_analyses


def formula_functions(repo):
    out = []
    for ci in repo.shipped():
        for name, m in ci.methods.items():
            if name in ("_calculate_reading",) or (name.startswith("_") and name not in ("_initialise", "_validate_fields", "_generate_name", "__init__", "__post_init__") and m.kind == "method"):
                out.append(m)
    out.append(repo.method("hexital.core.indicator", "Managed", "set_reading"))
    for n in ("_set_reading", "prev_reading", "prev_exists", "reading", "reading_period", "candles_sum", "_calculate_sub_indicators", "_find_calc_index"):
        out.append(repo.method("hexital.core.indicator", "Indicator", n))
    return out


@register("C01")
def run(repo, tier) -> Result:
    res = Result("C01", tier)
    res.explanation = (
        "Schedule independence on the base timeframe follows by induction on the candle position t from four structural facts, each decided here for "
        "every indicator and every input: (i) _calculate_reading(t) reads only positions in [0,t] (R-WRAP, R-CAUSAL: abstract interpretation + polyhedra "
        "entailment) and writes only index t of its own series (R-WRITE); (ii) formula code keeps no state outside the candles (R-STATE); (iii) the sweep "
        "starts at the resume index, skips present readings and the resume scan never skips an unmarked position (R-SWEEP, R-SKIP, R-RESUME), sub-indicators "
        "run before/after the parent (R-SUBS); (iv) append = manager tasks then calculate (R-ORDER) and a merge into the open bucket restores raw values and "
        "wipes the bucket's readings, tag and saved values (R-MERGE). Equality of readings on collapsing timeframes additionally needs C03's walk invariant, "
        "which is not decided."
    )
    res.assumptions = ["integer period-like parameters >= 2", "no trimming (inductive warm-up bound)", "input contiguity", "collapsed candle list itself schedule independent (C03, not decided here)"]
    cas = shipped_analyses(repo, res)
    res.universe = {"classes": [ca.ci.name for ca in cas]}
    res.rule("R-WRAP", floor=40)
    res.rule("R-CAUSAL", floor=60)
    res.rule("R-STATE", floor=25)
    check_positions("C01", res, repo, cas)
    check_writes("C01", res, repo, cas)
    check_state("C01", res, repo, formula_functions(repo))
    check_calculate_driver("C01", res, repo, want=("R-SKIP", "R-SWEEP", "R-SUBS"))
    check_resume("C01", res, repo.method("hexital.core.indicator", "Indicator", "_find_calc_index"), "self.candles", "membership", repo=repo)
    check_append_order("C01", res, repo, parts=("indicator", "hexital", "manager"))
    check_merge("C01", res, repo)
    from ..driver import check_merge_callers

    check_merge_callers("C01", res, repo)
    # collapsing timeframes: incremental == batch rests on the walk being the same function of the stream however it is chunked
    from ..framework_rules import check_candle_geometry_pure
    from ..manager_rules import check_collapse, check_epoch

    check_candle_geometry_pure("C01", res, repo)
    check_epoch("C01", res, repo)
    check_collapse("C01", res, repo, want=("R-INTERVAL", "R-CONSERVE", "R-INVARIANT", "R-FILLPATH"))
    # "with or without gap filling": the fill step is a function of the rebuilt list alone and complete on every pass
    from ..manager_rules import check_fill

    check_fill("C01", res, repo)
    from ..contracts import check_all

    check_all("C01", res, repo)
    # pattern / movement functions wrapped as indicators (Amorph) are formulas too
    from ..analysis_scope import analysis_universe
    from ..framework_rules import check_regkey
    from ..rules_analysis import check_amorph, check_function

    for _name, _fi in sorted(analysis_universe(repo).items()):
        check_function("C01", res, repo, _fi, want=("R-WRAP", "R-CAUSAL", "R-NORM"))
    check_amorph("C01", res, repo)
    check_regkey("C01", res, repo)
    return res
