"""C02 — readings of closed candles are final: no look-ahead, no repainting."""
from __future__ import annotations

import ast

from ..analysis_scope import analysis_universe
from ..core import Result, finding, norm_construct, register
from ..driver import check_calculate_driver, check_resume
from ..rules_analysis import check_amorph, check_function
from ..rules_calc import check_positions, check_writes
from ..structure import attr_stores, call_name, calls_in
from .common import shipped_analyses


def check_collapse_targets(prop, res, repo):
    """collapse only ever merges into the last bucket and only re-labels the candle being placed"""
    fi = repo.method("hexital.core.candle_manager", "CandleManager", "collapse_candles")
    fn = fi.node
    from ..manager_rules import collapse_roles

    R, _ = collapse_roles(fi)
    ACC = R["acc"]
    aliases = {}
    for n in ast.walk(fn):
        if isinstance(n, ast.Assign) and len(n.targets) == 1 and isinstance(n.targets[0], ast.Name):
            aliases.setdefault(n.targets[0].id, []).append(ast.unparse(n.value))
    merges = [c for c in calls_in(fn) if call_name(c) == "merge"]
    if not merges:
        res.errors.append("collapse_candles: no merge call found (anchor vanished)")
    for c in merges:
        recv = ast.unparse(c.func.value)
        srcs = aliases.get(recv, [recv])
        if all(s.replace(" ", "") == f"{ACC}[-1]" for s in srcs):
            res.ok("R-LASTBUCKET", {"site": f"{fi.where} {norm_construct(c)}", "receiver": f"{recv} = candles_[-1]"}, nontrivial=norm_construct(c))
        else:
            res.fail("R-LASTBUCKET", finding(prop, "R-LASTBUCKET", fi, c, f"merge target {recv} is not the last bucket (candles_[-1]): an earlier, closed bucket would be changed"))
    for st, t in attr_stores(fn):
        if t.attr != "timestamp":
            continue
        recv = ast.unparse(t.value)
        srcs = aliases.get(recv, [recv])
        ok = all(s.replace(" ", "") in ("self.candles.pop(0)", f"{ACC}[0]") for s in srcs)
        if ok:
            res.ok("R-LASTBUCKET", {"site": f"{fi.where} {norm_construct(st)}", "target": f"{recv} (the candle being placed)"})
        else:
            res.fail("R-LASTBUCKET", finding(prop, "R-LASTBUCKET", fi, st, f"timestamp of {recv} is rewritten: only the candle popped in this iteration (or the first one) may be re-labelled"))


@register("C02")
def run(repo, tier) -> Result:
    res = Result("C02", tier)
    res.explanation = (
        "A reading of candle i cannot depend on later candles iff every positional read performed while calculating index t lies in [0, t] "
        "(a negative position is Python's way of reading the newest candle). All 27 shipped _calculate_reading bodies are abstractly interpreted "
        "into guarded paths; each read site must discharge pos >= 0 (R-WRAP) and pos <= t (R-CAUSAL) from its dominating facts (reading_period, "
        "prev_exists with the inductive warm-up bound, explicit comparisons, clamps) in the polyhedra domain. The same two rules are applied to "
        "every movement/pattern function (reachable through Amorph). Written-once: every write targets index t and an own series (R-WRITE), the "
        "sweep skips present readings (R-SKIP), the resume scan marks by key membership (R-RESUME), and collapse merges only into the last bucket."
    )
    res.assumptions = ["integer period-like parameters >= 2", "no trimming between the seed of a recurrence and its use (inductive warm-up bound)", "input contiguity"]
    cas = shipped_analyses(repo, res)
    res.universe = {"classes": [ca.ci.name for ca in cas], "analysis_functions": sorted(analysis_universe(repo))}
    res.rule("R-WRAP", floor=60, what="positional reads in calc + analysis scope")
    res.rule("R-CAUSAL", floor=100)
    res.rule("R-WRITE", floor=10)
    check_positions("C02", res, repo, cas)
    check_writes("C02", res, repo, cas)
    for k, fi in sorted(analysis_universe(repo).items()):
        check_function("C02", res, repo, fi, want=("R-WRAP", "R-CAUSAL", "R-NORM"))
    check_amorph("C02", res, repo)
    check_calculate_driver("C02", res, repo, want=("R-SKIP", "R-SWEEP"))
    check_resume("C02", res, repo.method("hexital.core.indicator", "Indicator", "_find_calc_index"), "self.candles", "membership", repo=repo)
    check_collapse_targets("C02", res, repo)
    # closed buckets stay what they are: the walk and the fill step do the same thing on every pass (a fill candle that appears later
    # between two closed buckets repaints history)
    from ..manager_rules import check_collapse, check_fill

    check_collapse("C02", res, repo, want=("R-CONSERVE", "R-FILLPATH"))
    # labels of closed buckets are re-derived on every pass (the first candle is re-anchored): they stay what they were only if the
    # grid has one fixed origin
    from ..manager_rules import check_epoch

    check_epoch("C02", res, repo)
    # a merge wipes the readings of the bucket it changed: only calculate() (the resume scan) finds that bucket again
    from ..driver import check_append_order

    check_append_order("C02", res, repo, parts=("indicator", "hexital"))
    check_fill("C02", res, repo)
    from ..contracts import check_all

    check_all("C02", res, repo)
    # a closed candle is final only if every merge into the open bucket ends in the wiped, re-convertible state, and nothing derived
    # from its prices is cached across merges
    from ..driver import check_merge
    from ..framework_rules import check_candle_geometry_pure

    check_merge("C02", res, repo)
    check_candle_geometry_pure("C02", res, repo)
    return res
