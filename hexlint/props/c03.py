"""C03 — timeframe collapsing equals right-closed, right-labelled OHLCV resampling (structural clauses)."""
from __future__ import annotations

from ..core import Result, register
from ..manager_rules import check_collapse, check_epoch, check_merge_values
from .c02 import check_collapse_targets


@register("C03")
def run(repo, tier) -> Result:
    res = Result("C03", tier)
    res.explanation = (
        "Decided for all timestamps: (R-VN-MERGE) the post-state of Candle.merge is (open kept, max high, min low, summed volume, last close, label untouched) by value numbering; "
        "(R-INTERVAL) the collapse walk is abstractly interpreted once with a symbolic window (S, S+tf]: for every branch that places the popped candle, the label it is filed under (the stored timestamp, or the label the merge target "
        "is required to carry) satisfies label - tf < ts <= label and lies on the bucket grid, proved in the polyhedra domain with the axioms rd(ts) <= ts < rd(ts)+tf and on_tf(ts) <=> rd(ts) = ts; "
        "(R-INVARIANT) the predicate 'label(last bucket) in {start_time, end_time} and end_time == start_time + tf' holds on entry and is re-established by every branch (inductive invariant by predicate abstraction); under it and the "
        "precondition ts > label(last) - tf (true for non-decreasing streams and for re-collapsing [old buckets + new candles], by R-INTERVAL's lower bound) (R-TOTAL) every path into `raise InvalidCandleOrder` is infeasible and "
        "(R-MONOTONE) every appended label is strictly greater than the last label; (R-CONSERVE) every normal path merges or appends the popped candle exactly once and every exit stores the rebuilt list; (R-LASTBUCKET) merges go into the last "
        "bucket only; (R-EPOCH) round_down_timestamp / on_timeframe are floor-division / modulo of the same elapsed-time expression, unit table S/T/H/D; (R-ALIAS) each timeframe of a Hexital collapses its own deep copy. "
        "By induction over the walk and over appends, every candle lands in its right-closed bucket, buckets are strictly increasing and aggregate by merge."
    )
    res.assumptions = ["timestamps are whole seconds (clean_timestamp is the identity on the axis)", "non-decreasing timestamps", "timestamps present (a first candle without timestamp makes collapse return early: noted, outside the quantifier)"]
    check_merge_values("C03", res, repo)
    check_collapse("C03", res, repo, want=("R-INTERVAL", "R-CONSERVE", "R-INVARIANT"))
    check_collapse_targets("C03", res, repo)
    check_epoch("C03", res, repo)
    from ..driver import check_append_order, check_merge_callers

    check_merge_callers("C03", res, repo)
    check_append_order("C03", res, repo, parts=("manager", "hexital"))
    # buckets are built from all raw candles of their window: nothing is trimmed away before the walk has run
    from ..driver import check_tasks_order

    check_tasks_order("C03", res, repo, need=(("collapse", "trim"),))
    # Hexital.candles(timeframe): a new timeframe manager must collapse its own deep copy of the base candles
    from .c08 import check_binding

    check_binding(res, repo, prop="C03", raw_required=False)  # C03 only needs "its own copy" (no candlestick type in its quantifier)
    res.rule("R-INTERVAL", floor=6)
    res.rule("R-VN-MERGE", floor=6)
    # "volume = sum of volumes of the candles that fall in it": the converters hand every slot over unchanged
    from .c19 import check_converters

    check_converters("C03", res, repo, rule="R-INPUT")
    # which manager adopts the caller's candles and which collapses copies hangs on the manager's name / registry key
    from ..framework_rules import check_regkey

    check_regkey("C03", res, repo)
    return res
