"""C04/C05/C06 — indicators match their definitions (value numbering against spec/refs.py)."""
from __future__ import annotations

from ..core import Result, register
from ..rules_calc import check_positions, check_taint, check_wire
from ..rules_vn import compare_class, load_refs
from .common import shipped_analyses

GROUPS = {
    "C04": ["SMA", "EMA", "RMA", "WMA", "VWMA", "HMA"],
    "C05": ["TR", "ATR", "StandardDeviation", "BBANDS", "KC", "Donchian", "HighestLowest", "HighLowAverage", "Supertrend", "StandardDeviationThreshold", "Counter"],
    "C06": ["RSI", "MACD", "ROC", "STOCH", "TSI", "AROON", "ADX", "OBV", "VWAP", "RMA", "EMA"],
}
EXPL = (
    "For each class of the group, the helper wiring (_initialise, interpreted into a composition tree) and every guarded return path of _calculate_reading (abstractly interpreted into a fraction of "
    "multivariate polynomials over readings x[t-k], own previous reading, helper readings and config; sums/min/max as canonical, orientation-invariant reduction atoms) are compared with a reference "
    "definition transcribed from the property statement (spec/refs.py, lowered by the same front end, never executed): equal guards, equal values (cross-multiplied difference is the zero polynomial), equal "
    "managed-series state and driven helpers on every compatible pair of paths. Equality is algebraic, so hoisting alpha, `a-(b-c)/p` vs `a+(c-b)/p`, reversed ranges, inlined candles_sum do not matter; a changed window, weight, "
    "constant, sign, guard or branch does. Slots the statement leaves open are marked unspecified and not compared. Floating-point error ('within rounding') and the range clause are not decided."
)


def _run(prop, repo, tier):
    res = Result(prop, tier)
    res.explanation = EXPL
    res.assumptions = ["exact arithmetic (floating-point rounding not modelled)", "helper classes are compared in their own group; a parent is compared relative to its helpers' readings"]
    load_refs(repo)
    by_name = {ci.name: ci for ci in repo.shipped()}
    cas = []
    for n in GROUPS[prop]:
        if n not in by_name:
            res.errors.append(f"class {n} no longer shipped (INDICATOR_MAP)")
            continue
        compare_class(prop, res, repo, by_name[n])
        from ..indic import analyse_class

        cas.append(analyse_class(repo, by_name[n]))
    check_wire(prop, res, repo, cas)
    # the state a formula carries lives in helper series: they must be the instance's own (named after it), or a second instance of
    # the class feeds on this one's state
    from .c13 import check_namespace

    check_namespace(prop, res, repo, cas)
    # the formulas are compared relative to the accessor summaries; the summaries are contracts of the helpers
    from ..contracts import check_all
    from ..driver import check_round_by

    check_all(prop, res, repo)
    # 'up to the error the configured rounding can introduce': both drivers round to the indicator's own round_value
    check_round_by(prop, res, repo)
    # the movement helpers the formulas call are used through contracts (window, tie rule); check them against their bodies
    from .c17 import check_movement_contracts

    check_movement_contracts(prop, res, repo)
    from ..framework_rules import check_helper_config

    check_helper_config(prop, res, repo)
    # readings stored under a name are the readings of the indicator registered under it now: removing an indicator removes its readings
    # (a later indicator with the same name would otherwise skip the stale entries), and chained inputs are calculated first
    from ..framework_rules import check_registry_order
    from ..ownership import check_hexital_purge

    check_hexital_purge(prop, res, repo)
    check_registry_order(prop, res, repo)
    # inputs (price fields, derived candle measures, other indicators' readings, dotted dict fields) all come through one resolver
    from .c20 import check_resolver_shape

    check_resolver_shape(res, repo, prop=prop)
    # 'position independent': after an append every indicator resumes through calculate() (which back-fills whatever is missing)
    from ..driver import check_append_order

    check_append_order(prop, res, repo, parts=("indicator", "hexital"))
    # the formulas are definitions over the candle fields as given: the row converters hand every slot over unchanged
    from .c19 import check_converters

    check_converters(prop, res, repo, rule="R-INPUT")
    # a merged bucket loses its readings (volume-weighted formulas read the volume a merge changes)
    from ..driver import check_merge

    check_merge(prop, res, repo)
    from ..framework_rules import check_config_passthrough

    check_config_passthrough(prop, res, repo)
    from ..framework_rules import check_config_stable

    check_config_stable(prop, res, repo)
    res.universe = {"classes": GROUPS[prop]}
    return res, cas


@register("C04")
def run04(repo, tier):
    res, cas = _run("C04", repo, tier)
    # position independence: no absolute position in a value or in a branch of a moving average
    check_taint("C04", res, repo, cas, branches_too=True)
    check_positions("C04", res, repo, cas, want=("R-WRAP",))
    res.rule("R-VN", floor=15)
    return res


@register("C05")
def run05(repo, tier):
    res, cas = _run("C05", repo, tier)
    res.rule("R-VN", floor=25)
    return res


@register("C06")
def run06(repo, tier):
    res, cas = _run("C06", repo, tier)
    res.rule("R-VN", floor=25)
    return res
