"""C07 — work per appended candle is constant."""
from __future__ import annotations

import ast

from ..analysis_scope import analyse_function, analysis_universe, public_context
from ..core import Result, finding, norm_construct, register
from ..driver import check_calculate_driver, check_resume, check_span
from ..rules_calc import _count_bounded, check_bound
from ..structure import CallGraph, call_name, calls_in
from .common import shipped_analyses

HISTORY_BUILTIN = ("deepcopy",)


def history_loops(fi):
    """loop constructs in fi that iterate over a whole candle list"""
    out = []
    for n in ast.walk(fi.node):
        its = []
        if isinstance(n, ast.For):
            its.append(n.iter)
        elif isinstance(n, ast.comprehension):
            its.append(n.iter)
        elif isinstance(n, ast.While):
            if "candles" in ast.unparse(n.test):
                out.append(n)
            continue
        for it in its:
            # a position normalised with absindex(i, len(candles)) is a position, not a length: only a bound that is itself len(..) counts
            class _Strip(ast.NodeTransformer):
                def visit_Call(s_, c):
                    s_.generic_visit(c)
                    if call_name(c) == "absindex":
                        return ast.copy_location(ast.Name(id="__pos__", ctx=ast.Load()), c)
                    return c

            import copy as _copy

            txt = ast.unparse(_Strip().visit(_copy.deepcopy(it)))
            core = it
            while isinstance(core, ast.Call) and call_name(core) in ("reversed", "enumerate", "list", "iter") and core.args:
                core = core.args[0]
            if isinstance(core, ast.Call) and call_name(core) == "range" and "len(" in txt and "candles" in txt:
                out.append(n)
            elif isinstance(core, (ast.Name, ast.Attribute)) and ast.unparse(core).split(".")[-1] in ("candles", "candles_"):
                out.append(n)
            elif (isinstance(core, ast.Subscript) and isinstance(core.slice, ast.Slice) and isinstance(core.value, (ast.Name, ast.Attribute))
                  and ast.unparse(core.value).split(".")[-1] in ("candles", "candles_")
                  and (core.slice.lower is None or (isinstance(core.slice.lower, ast.Constant) and core.slice.lower.value in (0, None)))
                  and not (isinstance(core.slice.upper, ast.Constant) and isinstance(core.slice.upper.value, int))):
                # a prefix slice `candles[:i]` / `candles[:]`: everything from the oldest candle up to a position
                out.append(n)
    return out


HOLDER_CLASSES = ("Indicator", "CandleManager", "Hexital")
HOLDER_ATTRS = ("candles", "_candles", "sub_indicators", "managed_indicators", "_indicators", "candle_manager", "_candle_map")


def render_sites(repo, fi):
    """expressions in fi whose text rendering walks a candle history: str()/repr()/format()/f-string/%-format/print/log of an object that holds
    candle lists (an indicator, a manager, a Hexital, or one of their candle / helper containers).  Renderings inside a `raise` end the operation."""
    holder_self = fi.cls is not None and any(c.name in HOLDER_CLASSES for c in repo.mro(fi.cls))

    def holder(e):
        if isinstance(e, ast.Name):
            return (e.id == "self" and holder_self) or e.id in ("candles", "candles_")
        if isinstance(e, ast.Attribute) and isinstance(e.value, ast.Name) and e.value.id == "self" and holder_self:
            return e.attr in HOLDER_ATTRS
        return False

    in_raise = set()
    for n in ast.walk(fi.node):
        if isinstance(n, ast.Raise):
            in_raise |= {id(x) for x in ast.walk(n)}
    out = []
    for n in ast.walk(fi.node):
        if id(n) in in_raise:
            continue
        if isinstance(n, ast.FormattedValue) and holder(n.value):
            out.append(n.value)
        elif isinstance(n, ast.Call):
            cn = call_name(n)
            args = list(n.args) + [k.value for k in n.keywords]
            if cn in ("str", "repr", "format", "print", "ascii") or (isinstance(n.func, ast.Attribute) and n.func.attr in ("format", "debug", "info", "warning", "error", "warn", "critical", "exception", "pformat", "dumps")):
                out += [a for a in args if holder(a)]
        elif isinstance(n, ast.BinOp) and isinstance(n.op, ast.Mod) and isinstance(n.left, (ast.Constant, ast.JoinedStr)) and isinstance(getattr(n.left, "value", ""), str):
            rs = n.right.elts if isinstance(n.right, ast.Tuple) else [n.right]
            out += [a for a in rs if holder(a)]
    return out


@register("C07")
def run(repo, tier) -> Result:
    res = Result("C07", tier)
    res.explanation = (
        "Per-append indicator work is bounded by the configuration iff (R-BOUND) every loop/reduction/slice reachable from a calculation has a trip count "
        "bounded by a config-linear expression (no candle position, no len(candles); clamped windows are bounded by proving K - count >= 0 in the polyhedra domain), "
        "(R-SPAN) every helper recompute range has length 1 or passes the caller's range through, (R-HISTORY) no function that walks a whole candle list is "
        "reachable from calculate()/_calculate_reading/the analysis functions in the resolved call graph, and (R-SWEEP/R-SKIP/R-RESUME) the driver sweep starts at a "
        "newest-first resume scan that stops at the first marked candle and skips present readings. collapse/trim are O(n) per append today and lie outside the "
        "property's observation scope (indicator, analysis and utils code); reported as a note."
    )
    res.assumptions = ["integer period-like parameters >= 2", "length/lookback arguments of analysis functions are configuration"]
    cas = shipped_analyses(repo, res)
    res.rule("R-BOUND", floor=30, what="loops/reductions in calc + analysis scope")
    res.rule("R-SPAN", floor=8)
    check_bound("C07", res, repo, cas)
    for k, fi in sorted(analysis_universe(repo).items()):
        fa = analyse_function(repo, fi)
        for s in fa.sites("loop"):
            count = s.data.get("count")
            if count is None:
                # an iteration whose length the analysis cannot express (slice of a range, reversed(...), generator of unknown source)
                res.fail("R-BOUND", finding("C07", "R-BOUND", fi, s.node, f"{s.data.get('what')} over {s.data.get('iter')!r}: no bound in terms of the configuration can be derived for this iteration (e.g. `[-n:]` with n == 0 is the whole history)"))
                continue
            facts, extra = public_context(s)
            ok, why = _count_bounded(count, facts, extra)
            if ok:
                res.ok("R-BOUND", {"site": f"{fi.module.relpath}:{s.line} {s.data.get('what')}", "trips": repr(count)[:120], "bound": why}, nontrivial=f"{fi.name}:{s.line}")
            else:
                res.fail("R-BOUND", finding("C07", "R-BOUND", fi, s.node, f"trip count {repr(count)[:120]} {why}: work grows with the history length"))
        for s in list(fa.sites("whole-list-iter")) + list(fa.sites("loop-stmt")):
            res.fail("R-BOUND", finding("C07", "R-BOUND", fi, s.node, "loop over the whole candle list / unbounded loop in an analysis function"))
    check_span("C07", res, repo)
    check_calculate_driver("C07", res, repo, want=("R-SKIP", "R-SWEEP"), sweep_mode="bounded")
    # resume scan: newest-first, stops at the first marked candle (NEW-ONLY)
    fci = repo.method("hexital.core.indicator", "Indicator", "_find_calc_index")
    n_err = len(res.errors)
    sa = check_resume("C07", res, fci, "self.candles", "membership", repo=repo)
    if sa is not None:
        from ..driver import resume_rework_bounded
        from ..resume import case_text

        bad, asc = resume_rework_bounded(sa)
        for c in bad:
            res.fail("R-BOUND", finding("C07", "R-BOUND", fci, c.node, f"resume scan case {case_text(c)}: resumes more than one candle before the first candle without a reading: every append re-visits (and, for helpers, recomputes) a stretch of history", construct=f"resume rework {case_text(c)}"[:190]))
        for lp in asc:
            res.fail("R-BOUND", finding("C07", "R-BOUND", fci, lp, "the resume scan walks the list oldest-first: every append walks the whole history before it reaches the new candle"))
        if not bad and not asc:
            res.ok("R-BOUND", {"site": fci.where, "why": "newest-first scan; every case resumes at m or m-1 (constant re-work)"}, nontrivial="resume:bounded")
    # (a resume scan the analysis cannot model stays an analysis error: it is not evidence of unbounded work)
    # R-HISTORY over the call graph
    cg = CallGraph(repo)
    roots = [cg.key(repo.method("hexital.core.indicator", "Indicator", "calculate")), cg.key(repo.method("hexital.core.indicator", "Managed", "set_reading"))]
    for ca in cas:
        if ca.fn is not None:
            roots.append(cg.key(ca.fn))
    for fi in analysis_universe(repo).values():
        roots.append(cg.key(fi))
    # _initialise builds the helper indicators once, on the first calculate(): not per-candle work
    reach = cg.reachable(roots, stop=lambda f: f.name == "_initialise")
    res.universe = {"classes": [ca.ci.name for ca in cas], "call_graph_functions": len(cg.funcs), "reachable_from_calc_scope": len(reach)}
    allowed = {
        cg.key(fci): "NEW-ONLY resume scan (checked by R-RESUME)",
        cg.key(repo.method("hexital.core.indicator", "Indicator", "calculate")): "the sweep itself: starts at the resume index and skips present readings (R-SWEEP, R-SKIP)",
    }
    for k in sorted(reach):
        fi = cg.funcs[k]
        if fi.name == "_initialise" or fi.name in ("__init__", "__post_init__"):
            continue  # one-shot construction of helpers (first calculate only)
        for e in render_sites(repo, fi):
            res.fail("R-HISTORY", finding("C07", "R-HISTORY", fi, e, f"{fi.qualname} renders `{ast.unparse(e)}` as text on the per-candle calculation path: the text of an indicator / manager includes every helper's candle list, so the work grows with the history"))
        hl = history_loops(fi)
        deep = [c for c in calls_in(fi.node) if call_name(c) in HISTORY_BUILTIN and "candles" in ast.unparse(c)]
        if (hl or deep) and k not in allowed:
            for n in hl + deep:
                res.fail("R-HISTORY", finding("C07", "R-HISTORY", fi, n if not isinstance(n, ast.comprehension) else n.iter, f"{fi.qualname} walks a whole candle list and is reachable from the per-candle calculation path"))
        else:
            res.ok("R-HISTORY", {"function": k, "why": allowed.get(k, "no whole-list loop")}, nontrivial=k if k in allowed else None)
    res.note("collapse_candles/trim_candles/fill_missing_candles rebuild or scan the candle list on every append (O(n)); outside the property's stated observation scope")
    return res
