"""C08 — indicators inside a Hexital behave like standalone ones (R-TABLE, manager binding, R-ALIAS, R-REBIND, R-OWN)."""
from __future__ import annotations

import ast

from ..core import Result, finding, norm_construct, register
from ..driver import check_append_order
from ..model import AnalysisError, ClassInfo, FuncInfo
from ..ownership import check_own
from ..structure import call_name, call_target, calls_in
from .c14 import check_rebind


def emitted_name(repo, ci: ClassInfo) -> str:
    f = repo.all_fields(ci).get("_name")
    if f is not None and f.has_default and isinstance(f.default, ast.Constant) and f.default.value:
        return f.default.value
    return ci.name


def check_table(res, repo):
    rule = "R-TABLE"
    imap = repo.indicator_map()
    settings = repo.method("hexital.core.indicator", "Indicator", "settings")
    # the writer: {"indicator": self._name if self._name else type(self).__name__}
    from ..structure import canon_ifexp

    _w1 = any(canon_ifexp(e) == ("self._name", "self._name", "type(self).__name__") for e in ast.walk(settings.node) if isinstance(e, ast.IfExp))
    _w2 = any(isinstance(e, ast.BoolOp) and isinstance(e.op, ast.Or) and [ast.unparse(v) for v in e.values] == ["self._name", "type(self).__name__"] for e in ast.walk(settings.node))
    if not (_w1 or _w2):
        res.errors.append("Indicator.settings no longer emits `self._name if self._name else type(self).__name__` (writer of the table changed; re-derive the rule)")
    for ci in repo.shipped():
        if ci.name == "Amorph":
            continue
        name = emitted_name(repo, ci)
        if imap.get(name) is ci:
            res.ok(rule, {"class": ci.name, "settings emits": name, "INDICATOR_MAP[name]": ci.name}, nontrivial=ci.name)
        else:
            res.fail(rule, finding("C08", rule, ci, ci.node, f"settings emits 'indicator': {name!r} but INDICATOR_MAP[{name!r}] is {'missing' if name not in imap else imap[name].name}: the dict form cannot be loaded back", construct=f"{ci.name}: emitted name {name}"))
    amap = {}
    for mp in ("PATTERN_MAP", "MOVEMENT_MAP"):
        amap.update(repo.dict_literal("hexital.analysis", mp))
    seen = set()
    for key, fn in amap.items():
        if not isinstance(fn, FuncInfo) or fn.name in seen:
            continue
        seen.add(fn.name)
        if amap.get(fn.name) is fn:
            res.ok(rule, {"analysis": fn.name, "Amorph.settings emits": fn.name}, nontrivial=fn.name)
        else:
            res.fail(rule, finding("C08", rule, fn, fn.node, f"Amorph.settings emits 'analysis': {fn.name!r} (the function's __name__) but the analysis maps have no such key", construct=f"analysis key {fn.name}"))
    # every other key settings can emit must be an accepted __init__ parameter
    skip = set()
    for n in ast.walk(settings.node):
        if isinstance(n, ast.Compare) and isinstance(n.ops[0], ast.In):
            coll = n.comparators[0]
            if isinstance(coll, ast.Call) and call_name(coll) in ("frozenset", "set", "tuple", "list") and len(coll.args) == 1:
                coll = coll.args[0]
            if isinstance(coll, (ast.List, ast.Tuple, ast.Set)):
                skip |= {e.value for e in coll.elts if isinstance(e, ast.Constant)}
        # a single excluded name:  name == "candles"
        if isinstance(n, ast.Compare) and len(n.ops) == 1 and isinstance(n.ops[0], ast.Eq) and isinstance(n.comparators[0], ast.Constant) and isinstance(n.comparators[0].value, str) and isinstance(n.left, ast.Name):
            pass
    from .. import convsem as cs

    def emitted(ci, fields, with_timeframe):
        """the keys Indicator.settings emits for an instance of ci whose every field holds a value (evaluated; None: undecided)"""
        it = cs.Interp(repo, "hexital.core.indicator", "Indicator")
        attrs = {}
        for f in fields:
            attrs[f] = cs.Sym(f"value of {f}", "obj")
        attrs.update({"candles": [], "sub_indicators": {}, "managed_indicators": {}, "_name": ci.name, "timeframe": "T5" if with_timeframe else None,
                      "candlestick_type": cs.ObjV("a candlestick type", {"minimal_name": "HA"}, "CandlestickType"), "_candles": cs.ObjV("manager", {}, "CandleManager")})
        selfo = cs.ObjV(f"a {ci.name}", attrs, "Indicator")
        try:
            out = it.call_function(it.method("settings"), [], {}, bound_first=selfo)
        except (cs.Undecided, cs.Raised):
            return None
        return set(out) if isinstance(out, dict) else None

    for ci in repo.shipped():
        if ci.name == "Amorph":
            continue
        fields = repo.all_fields(ci)
        keys = [emitted(ci, fields, tf) for tf in (False, True)]
        if all(k is not None for k in keys):
            bad = sorted(k for k in (keys[0] | keys[1]) - {"indicator"} if k not in fields or not fields[k].init)
        else:
            bad = [f for f, fi in fields.items() if not f.startswith("_") and f not in skip and not fi.init]
        if bad:
            res.fail(rule, finding("C08", rule, ci, ci.node, f"settings would emit {bad}, which __init__ does not accept", construct=f"{ci.name}: non-init public fields {bad}"))
        else:
            res.ok(rule, {"class": ci.name, "emitted keys are init parameters": sorted(f for f, fi in fields.items() if not f.startswith('_') and f not in skip)})
    # the emitted settings carry every configured value: fields are skipped by name or because they are None, never because they
    # are falsy (round_value=0, count_value=0 / False, multiplier 0.0 are configuration)
    ist = repo.indicator_base().methods.get("settings")
    if ist is not None:
        for lp in [n for n in ast.walk(ist.node) if isinstance(n, ast.For) and isinstance(n.target, ast.Tuple) and len(n.target.elts) == 2 and isinstance(n.target.elts[1], ast.Name)]:
            val = lp.target.elts[1].id

            def truthy_use(t):
                if isinstance(t, ast.Name) and t.id == val:
                    return True
                if isinstance(t, ast.UnaryOp) and isinstance(t.op, ast.Not):
                    return truthy_use(t.operand)
                if isinstance(t, ast.BoolOp):
                    return any(truthy_use(v) for v in t.values)
                return False

            for n in ast.walk(lp):
                if isinstance(n, ast.If) and truthy_use(n.test) and len(n.body) == 1 and isinstance(n.body[0], ast.Continue):
                    res.fail(rule, finding("C08", rule, ist, n, f"Indicator.settings skips a field because its value is falsy (`{ast.unparse(n.test)[:80]}`): configured zeros / False (round_value=0, count_value=0, smoothing 0 ...) are not emitted, so an indicator rebuilt from its own settings is configured differently"))
    am = repo.cls("hexital.indicators.amorph", "Amorph")
    ams = am.methods.get("settings")
    if ams is None:
        res.errors.append("Amorph.settings vanished")
    else:
        t = ast.unparse(ams.node)
        if "_analysis_kwargs" in t and "self._analysis_method.__name__" in t:
            res.ok(rule, {"site": ams.where, "why": "emits the analysis name and the analysis keyword arguments"}, nontrivial="Amorph.settings")
        else:
            res.fail(rule, finding("C08", rule, ams, ams.node, "Amorph.settings does not emit the analysis keyword arguments (they live in _analysis_kwargs, which the underscore filter drops)", construct="Amorph.settings: kwargs"))
    bi = repo.method("hexital.core.hexital", "Hexital", "_build_indicator")
    # the reader: class looked up in INDICATOR_MAP under the popped "indicator" key, analysis in PATTERN_MAP | MOVEMENT_MAP under the popped "analysis" key
    asg = {}
    for n in ast.walk(bi.node):
        if isinstance(n, ast.Assign) and len(n.targets) == 1 and isinstance(n.targets[0], ast.Name):
            asg.setdefault(n.targets[0].id, []).append(n.value)

    def popped(name, key, depth=0):
        """the local holds the value taken out of the raw dict under `key` (pop / get / subscript), possibly through a copy"""
        for v in asg.get(name, []):
            if isinstance(v, ast.Name) and v.id != name and depth < 3 and popped(v.id, key, depth + 1):
                return True
            if isinstance(v, ast.Call) and call_name(v) in ("pop", "get") and v.args and isinstance(v.args[0], ast.Constant) and v.args[0].value == key:
                return True
            if isinstance(v, ast.Subscript) and isinstance(v.slice, ast.Constant) and v.slice.value == key:
                return True
        return False

    def _union_expr(v):
        return isinstance(v, ast.BinOp) and isinstance(v.op, ast.BitOr) and {ast.unparse(v.left), ast.unparse(v.right)} == {"PATTERN_MAP", "MOVEMENT_MAP"}

    def is_union(name):
        if name == "<union>":
            return True
        return any(isinstance(v, ast.BinOp) and isinstance(v.op, ast.BitOr) and {ast.unparse(v.left), ast.unparse(v.right)} == {"PATTERN_MAP", "MOVEMENT_MAP"} for v in asg.get(name, []))

    # lookups: M[k] or M.get(k)
    lookups = []
    for n in ast.walk(bi.node):
        if isinstance(n, ast.Subscript) and isinstance(n.slice, ast.Name) and (isinstance(n.value, ast.Name) or _union_expr(n.value)):
            lookups.append((n.value.id if isinstance(n.value, ast.Name) else "<union>", n.slice.id))
        elif isinstance(n, ast.Call) and call_name(n) == "get" and isinstance(n.func, ast.Attribute) and n.args and isinstance(n.args[0], ast.Name) and (isinstance(n.func.value, ast.Name) or _union_expr(n.func.value)):
            lookups.append((n.func.value.id if isinstance(n.func.value, ast.Name) else "<union>", n.args[0].id))
    found_ind = any(m == "INDICATOR_MAP" and popped(k, "indicator") for m, k in lookups)
    found_an = any(is_union(m) and popped(k, "analysis") for m, k in lookups)
    for ok_, need in ((found_ind, 'INDICATOR_MAP[<popped "indicator" name>]'), (found_an, '(PATTERN_MAP | MOVEMENT_MAP)[<popped "analysis" name>]')):
        if ok_:
            res.ok(rule, {"reader": "_build_indicator", "looks up": need})
        else:
            res.errors.append(f"_build_indicator no longer contains `{need}` (reader of the table changed; re-derive the rule)")


def binding_by_evaluation(repo, raw_required=True):
    """Hexital._validate_indicators evaluated (convsem) on a strategy with a default and a 'T5' manager and four indicators
    (no timeframe, 'T5', 'H1', 'H1' again): who gets which manager, how the missing one is built and registered.
    -> None (undecided) or a list of problems (empty: the binding holds)"""
    from .. import convsem as cs

    it = cs.Interp(repo, "hexital.core.hexital", "Hexital")
    try:
        default = it.module_const("DEFAULT_CANDLES")
    except cs.Undecided:
        return None
    if default is cs._MISSING:
        return None
    base = []
    for i in range(2):
        c_ = cs.ObjV(f"base candle {i}", {}, "Candle")
        c_.attrs["raw_copy"] = (lambda c__: (lambda a, k: cs.ObjV("raw copy", {"of": c__}, "Candle")))(c_)
        base.append(c_)
    m0 = cs.ObjV("default manager", {"candles": base, "name": default, "timeframe": None}, "CandleManager")
    m1 = cs.ObjV("T5 manager", {"candles": [], "name": "T5", "timeframe": "T5"}, "CandleManager")
    created = []

    def new_manager(a, k):
        kw = dict(k)
        if a:
            kw.setdefault("candles", a[0])
        tf = kw.get("timeframe")
        o = cs.ObjV(f"new manager {len(created)}", {"candles": kw.get("candles"), "timeframe": tf, "name": tf if tf else default, "kwargs": kw}, "CandleManager")
        created.append(o)
        return o

    it.intercept["CandleManager"] = new_manager
    LIFE, CST = cs.Sym("the lifespan", "timedelta"), cs.ObjV("the candlestick type", {}, "CandlestickType")
    selfo = cs.ObjV("self", {"_candles": {default: m0, "T5": m1}, "_indicators": {}, "candles_lifespan": LIFE, "timeframe_fill": False, "candlestick_type": CST, "timeframe": None}, "Hexital")
    inds = []
    for n_, tf in (("A", None), ("B", "T5"), ("C", "H1"), ("D", "H1"), ("E", "H4")):
        # (the members carry settings of their own: what a manager is built with is the strategy's, not the first member's)
        inds.append(cs.ObjV(f"indicator {n_}", {"name": n_, "timeframe": tf, "timeframe_fill": True, "candles_lifespan": cs.Sym("a member's lifespan", "timedelta"), "candlestick_type": None}, "Indicator"))
    try:
        out = it.call_function(it.method("_validate_indicators"), [list(inds)], {}, bound_first=selfo)
    except (cs.Undecided, cs.Raised, RecursionError):
        return None
    problems = []
    if not isinstance(out, dict) or list(out) != ["A", "B", "C", "D", "E"] or any(out[k] is not o for k, o in zip("ABCDE", inds)):
        problems.append(f"the validated indicators are {list(out) if isinstance(out, dict) else out!r}, expected A, B, C, D, E in the given order")
    a, b, c, d, e_ = (o.attrs.get("candle_manager") for o in inds)
    if a is not m0:
        problems.append(f"an indicator without a timeframe is bound to {a!r}, not to the default manager")
    if b is not m1:
        problems.append(f"an indicator on 'T5' is bound to {b!r}, not to the registered 'T5' manager")
    if len(created) != 2:
        problems.append(f"{len(created)} managers are created for the new timeframes 'H1' (two indicators) and 'H4' (one): expected two")
    else:
        n, n4 = created
        if e_ is not n4 or selfo.attrs["_candles"].get("H4") is not n4:
            problems.append(f"the indicator on 'H4' is bound to {e_!r}; expected the second new manager, registered under 'H4'")
        s1, s4 = n.attrs["kwargs"].get("candles"), n4.attrs["kwargs"].get("candles")
        if isinstance(s1, (list, tuple)) and isinstance(s4, (list, tuple)) and (s1 is s4 or any(x is y for x in s1 for y in s4)):
            problems.append("the two new managers are seeded with the same Candle objects: collapsing one timeframe rewrites the other's candles")
        if c is not n or d is not n:
            problems.append(f"the indicators on 'H1' are bound to {c!r} / {d!r}, not both to the new manager")
        reg = selfo.attrs["_candles"]
        if reg.get("H1") is not n or list(reg) != [default, "T5", "H1", "H4"]:
            problems.append(f"the new manager is registered as {[k for k, v in reg.items() if v is n]} (registry keys {list(reg)}), expected under its name 'H1'")
        kw = n.attrs["kwargs"]
        if kw.get("timeframe") != "H1":
            problems.append(f"the new manager collapses to {kw.get('timeframe')!r}, not to the indicator's timeframe 'H1'")
        for key, want in (("candles_lifespan", LIFE), ("timeframe_fill", False), ("candlestick_type", CST)):
            if kw.get(key) is not want:
                problems.append(f"the new manager is created with {key}={kw.get(key)!r} instead of the Hexital-level setting")
        seeded = kw.get("candles")
        if not isinstance(seeded, (list, tuple)) or len(seeded) != len(base) or seeded is base:
            problems.append(f"the new manager is seeded with {seeded!r}: expected its own list with one copy of each base candle")
        elif raw_required and not all(isinstance(x, cs.ObjV) and x.attrs.get("of") is y for x, y in zip(seeded, base)):
            problems.append("the new manager is not seeded with candle.raw_copy() of each base candle (shared or already converted candles corrupt its buckets)")
        elif not raw_required and any(x is y for x, y in zip(seeded, base)):
            problems.append("the new manager shares Candle objects with the default manager")
    return problems


def check_binding(res, repo, prop="C08", raw_required=True):
    rule = "R-BIND"
    vi = repo.method("hexital.core.hexital", "Hexital", "_validate_indicators")
    fn = vi.node
    _sem = binding_by_evaluation(repo, raw_required)
    if _sem is not None:
        if not _sem:
            res.ok(rule, {"site": vi.where, "why": "evaluated on four indicators (no timeframe / registered 'T5' / new 'H1' twice): default and registered managers are reused, one new manager is created, registered under its name, seeded with raw copies and given the Hexital-level settings"}, nontrivial="binding:evaluated")
            res.ok("R-ALIAS", {"site": vi.where, "why": "each new timeframe manager gets its own raw copies of the base candles"}, nontrivial="validate:raw_copy")
        for pr in _sem[:3]:
            res.fail(rule, finding(prop, rule, vi, fn, f"{pr}: members no longer run on the candles a standalone indicator of that timeframe would see", construct=f"binding: {pr[:120]}"))
        return
    loops = [n for n in fn.body if isinstance(n, ast.For)]
    bind_loop = None
    for lp in loops:
        if any(isinstance(s, ast.Assign) and "candle_manager" in ast.unparse(s.targets[0]) for s in ast.walk(lp)):
            bind_loop = lp
    if bind_loop is None:
        res.fail(rule, finding(prop, rule, vi, fn, "no loop assigns candle managers to the indicators any more", construct="_validate_indicators: binding loop"))
        return
    lv = ast.unparse(bind_loop.target)
    # every path through the loop body assigns <lv>.candle_manager
    from ..structure import stmt_paths

    for p in stmt_paths(bind_loop.body):
        assigned = any(isinstance(s, ast.Assign) and any(ast.unparse(t) == f"{lv}.candle_manager" for t in s.targets) for s in p if isinstance(s, ast.AST))
        if assigned:
            res.ok(rule, {"site": vi.where, "why": "path assigns the indicator a manager"})
        else:
            res.fail(rule, finding(prop, rule, vi, bind_loop, "a path through the binding loop leaves an indicator without the Hexital's manager", construct="binding loop path without assignment"))
    ctor = [c for c in calls_in(bind_loop) if call_name(c) == "CandleManager"]
    if len(ctor) != 1:
        res.fail(rule, finding(prop, rule, vi, bind_loop, "the binding loop must create a missing timeframe manager with one CandleManager(...) call", construct="binding loop: CandleManager(...)"))
        return
    c = ctor[0]
    first = c.args[0] if c.args else next((k.value for k in c.keywords if k.arg == "candles"), None)
    from ..ownership import check_raw_copies

    check_raw_copies(prop, res, repo, want=("validate",), raw_required=raw_required)
    kws = {k.arg: ast.unparse(k.value) for k in c.keywords}
    want = {"candles_lifespan": "self.candles_lifespan", "timeframe_fill": "self.timeframe_fill", "candlestick_type": "self.candlestick_type"}
    for k, v in want.items():
        if kws.get(k) == v:
            res.ok(rule, {"site": vi.where, "kw": f"{k}={v}"})
        else:
            res.fail(rule, finding(prop, rule, vi, c, f"a timeframe manager must be created with the Hexital-level {k} ({v})", construct=f"CandleManager kw {k}={kws.get(k)}"))
    from ..structure import canon_ifexp

    tfv = next((k.value for k in c.keywords if k.arg == "timeframe"), None)
    if tfv is not None and (ast.unparse(tfv) == f"{lv}.timeframe" or (isinstance(tfv, ast.IfExp) and canon_ifexp(tfv)[:2] == (f"{lv}.timeframe", f"{lv}.timeframe"))):
        res.ok(rule, {"site": vi.where, "kw": f"timeframe={kws['timeframe']}"})
    else:
        res.fail(rule, finding(prop, rule, vi, c, "the new manager must collapse to the indicator's timeframe", construct=f"CandleManager kw timeframe={kws.get('timeframe')}"))
    # registry: the new manager M is stored under its own name, timeframe indicators look their manager up by their timeframe, the rest use the default
    mvar = next((ast.unparse(st.targets[0]) for st in ast.walk(bind_loop) if isinstance(st, ast.Assign) and st.value is c and isinstance(st.targets[0], ast.Name)), None)
    stores = [st for st in ast.walk(bind_loop) if isinstance(st, ast.Assign) and isinstance(st.targets[0], ast.Subscript) and ast.unparse(st.targets[0].value) == "self._candles"]
    registered = mvar is not None and any(ast.unparse(st.targets[0].slice) in (f"{mvar}.name", kws.get("timeframe", "?")) and ast.unparse(st.value) == mvar for st in stores)
    _ldefs = {}
    for st in ast.walk(bind_loop):
        if isinstance(st, ast.Assign) and len(st.targets) == 1 and isinstance(st.targets[0], ast.Name):
            _ldefs.setdefault(st.targets[0].id, []).append(st.value)

    def _flow(e, depth=0):
        """expressions that can reach the assignment through locals (a registered new manager counts as its registry entry)"""
        if isinstance(e, ast.Name) and depth < 4:
            if e.id == mvar and registered:
                return [f"self._candles[{lv}.timeframe]"]
            out = []
            for d in _ldefs.get(e.id, []):
                out += _flow(d, depth + 1)
            return out or [e.id]
        return [ast.unparse(e).replace("'", '"')]

    bound = [x for st in ast.walk(bind_loop) if isinstance(st, ast.Assign) and any(ast.unparse(t) == f"{lv}.candle_manager" for t in st.targets) for x in _flow(st.value)]
    if registered and mvar is not None:
        bound = [f"self._candles[{lv}.timeframe]" if b == f"self._candles[{mvar}.name]" else b for b in bound]
    if registered and f"self._candles[{lv}.timeframe]" in bound and "self._candles[DEFAULT_CANDLES]" in bound:
        res.ok(rule, {"site": vi.where, "why": "managers are registered and looked up by timeframe; indicators without timeframe use the default manager"}, nontrivial="validate:registry")
    else:
        res.fail(rule, finding(prop, rule, vi, bind_loop, "managers must be registered under their name and looked up by the indicator's timeframe", construct="binding loop: registry"))
    init = repo.method("hexital.core.hexital", "Hexital", "__init__")
    c0 = [c for c in calls_in(init.node) if call_name(c) == "CandleManager"]
    if len(c0) == 1:
        k0 = {k.arg: ast.unparse(k.value) for k in c0[0].keywords}
        want0 = {"candles_lifespan": "self.candles_lifespan", "timeframe": "self.timeframe", "timeframe_fill": "self.timeframe_fill", "candlestick_type": "self.candlestick_type"}
        if all(k0.get(k) == v for k, v in want0.items()):
            res.ok(rule, {"site": init.where, "why": "default manager built with the Hexital-level settings"})
        else:
            res.fail(rule, finding(prop, rule, init, c0[0], "the default manager must be built with the Hexital-level lifespan/timeframe/fill/candlestick type"))
    else:
        res.errors.append("Hexital.__init__ no longer creates exactly one CandleManager")


@register("C08")
def run(repo, tier) -> Result:
    res = Result("C08", tier)
    res.explanation = (
        "Decided clauses: (R-TABLE) writer/reader agreement — every name Indicator.settings / Amorph.settings can emit is a key of the map _build_indicator reads and maps back to the same class/function, every other "
        "emitted key is an __init__ parameter, the analysis kwargs are emitted; (R-BIND) every indicator is assigned a manager on every path, a missing timeframe manager is created with the Hexital-level lifespan/fill/"
        "candlestick type and the indicator's timeframe and registered under it; (R-ALIAS) Candle objects reach a non-default manager only through deepcopy (new manager: a copy made for that manager; append: deepcopy(candles_)); "
        "(R-REBIND) the candle_manager setter unconditionally hands the manager to all helpers; (R-OWN) nothing outside candle/manager/candlestick code writes OHLCV; Hexital.append fans out unconditionally then calculates. "
        "Equality of readings with a standalone twin under all schedules is a comparison of two executions and is not decided."
    )
    res.assumptions = []
    check_table(res, repo)
    check_binding(res, repo)
    check_rebind("C08", res, repo)
    check_own("C08", res, repo)
    check_append_order("C08", res, repo)
    from ..ownership import check_raw_copies

    check_raw_copies("C08", res, repo, want=("method", "append"))
    res.rule("R-TABLE", floor=60)
    res.rule("R-BIND", floor=1)
    from ..framework_rules import check_registry_writers
    from ..ownership import check_manager_purge

    check_registry_writers("C08", res, repo)
    check_manager_purge("C08", res, repo)
    from ..framework_rules import check_regkey, check_registry_order

    check_regkey("C08", res, repo)
    from ..framework_rules import check_config_passthrough

    check_config_passthrough("C08", res, repo)
    check_registry_order("C08", res, repo)
    # removing a member removes what it wrote (helper series included): a later member of the same name starts clean, as a standalone would
    from ..ownership import check_hexital_purge

    check_hexital_purge("C08", res, repo)
    from ..framework_rules import check_settings_kept

    check_settings_kept("C08", res, repo)
    # the members of a Hexital share ONE candlestick-type object over all its managers (a standalone indicator owns its own): anything
    # the converter remembers about one candle list is applied to the others
    from ..framework_rules import check_converter_stateless

    check_converter_stateless("C08", res, repo)
    return res
