"""C09 — calculation is total: exception-source audit of the calc scope."""
from __future__ import annotations

import ast

from ..analysis_scope import analyse_function, analysis_universe
from ..core import Result, finding, norm_construct, register
from ..rules_calc import Signs, check_div, check_sqrt, check_truth, check_wire
from ..sign import SignEnv, nonzero, POS
from .common import shipped_analyses


def check_analysis_divisions(prop, res, repo):
    """divisions inside movement/pattern functions (reachable through Amorph)"""
    for k, fi in sorted(analysis_universe(repo).items()):
        fa = analyse_function(repo, fi)
        for s in fa.sites("div"):
            den = s.data["den"]
            if den.is_const() and den.const_value() != 0:
                res.ok("R-DIV", {"site": f"{fi.module.relpath}:{s.line} {fi.name}", "den": repr(den), "why": "non-zero constant (default window length)"})
                continue
            ats = {a for a in den.atoms()}
            guarded = any(isinstance(c, tuple) and c[0] == "nonempty" for c in s.facts) or any(
                isinstance(c, tuple) and c[0] == "cmp" and c[1] in ("<", "!=") and (c[2] == -den or c[2] == den) for c in s.facts
            )
            if guarded and all(a[0] == "lenf" for a in ats):
                res.ok("R-DIV", {"site": f"{fi.module.relpath}:{s.line} {fi.name}", "den": "len(readings)", "why": "dominated by the `if not readings: return` guard"}, nontrivial=f"{fi.name}:{s.line}")
            elif all(a[0] == "cfg" for a in ats):
                # a length/percentage argument the caller chooses; default values are non-zero constants
                res.ok("R-DIV", {"site": f"{fi.module.relpath}:{s.line} {fi.name}", "den": repr(den), "why": "caller-supplied window length (configuration, defaults are positive constants)"})
            else:
                res.fail("R-DIV", finding(prop, "R-DIV", fi, s.node, f"denominator {den!r} is not provably non-zero"))


def check_amorph_arity(prop, res, repo):
    for k, fi in sorted(analysis_universe(repo).items()):
        a = fi.node.args
        names = [x.arg for x in a.args + a.kwonlyargs]
        if "candles" in names and "index" in names:
            res.ok("R-WIRE", {"site": f"{fi.where} {fi.name}", "why": "accepts candles= and index= keywords (called that way by Amorph)"})
        elif fi.name in ("above", "below"):
            continue
        else:
            res.fail("R-WIRE", finding(prop, "R-WIRE", fi, fi.node, "mapped analysis function does not accept candles=/index= keywords: Amorph raises TypeError", construct=f"def {fi.name}({', '.join(names)})"))


@register("C09")
def run(repo, tier) -> Result:
    res = Result("C09", tier)
    res.explanation = (
        "Exception-source audit of everything reachable from calculate()/append() in indicator code: every construct that can raise or produce a permanent gap "
        "for well-formed input is enumerated from the abstract-interpretation sites and discharged by a rule: each / // % needs a denominator that is a positive "
        "config/constant expression, is dominated by a non-zero test on the same value number, or is non-zero in the sign domain (R-DIV); each sqrt needs a "
        "non-negative argument (R-SQRT); presence of a reading must not be tested by truthiness when its sign domain includes 0 (R-TRUTH: a legitimate 0.0 would read "
        "as missing and turn the output into None for good); every literal helper key / reading name / dotted field must resolve in the composition tree (R-WIRE); a helper reading used in arithmetic under the presence test of a sibling helper of the same kind must have periods provably <= the sibling's, given the ordering `_validate_fields` establishes (R-ORDERED). "
        "Sign summaries of helper classes (TR, ATR, STDEV >= 0; RMA/EMA/SMA/WMA preserve the sign of a non-negative input) are computed inductively."
    )
    res.assumptions = [
        "well-formed candles: 0 < low <= open,close <= high, volume >= 0, finite",
        "input_value of a top-level indicator is a positive price field (defaults)",
        "integer period-like parameters >= 2; multiplier, smoothing > 0",
        "overflow to inf for astronomically large prices is not decided",
    ]
    cas = shipped_analyses(repo, res)
    res.universe = {"classes": [ca.ci.name for ca in cas]}
    signs = Signs(repo)
    res.rule("R-DIV", floor=35, what="divisions in calc + analysis scope")
    res.rule("R-SQRT", floor=1)
    res.rule("R-TRUTH", floor=2)
    res.rule("R-WIRE", floor=100)
    check_div("C09", res, repo, cas, signs)
    from ..rules_calc import check_gap, check_nan

    check_nan("C09", res, repo, cas)
    check_gap("C09", res, repo, cas)
    from ..rules_calc import check_managed_gap

    check_managed_gap("C09", res, repo, cas)
    check_sqrt("C09", res, repo, cas, signs)
    check_truth("C09", res, repo, cas, signs)
    check_wire("C09", res, repo, cas)
    # arithmetic on a helper reading that only a sibling helper's presence test covers: the sibling must be the slower one
    from ..rules_order import check_ordered

    res.rule("R-ORDERED", floor=3, what="helper readings used in arithmetic under another helper's presence test")
    check_ordered("C09", res, repo, cas)
    # the `x != 0` guards in front of the divisions protect them only down to the rounding quantum: every stored reading (helpers
    # included) is rounded, so a decaying average reaches exactly 0 instead of a denormal whose reciprocal overflows to inf
    from ..driver import check_round_by

    check_round_by("C09", res, repo)
    # look-back positions must exist (a negative position wraps, position 0 makes candles_sum answer None): arithmetic on what
    # comes back would raise
    from ..rules_calc import check_positions

    check_positions("C09", res, repo, cas, want=("R-WRAP",))
    # the resolver every formula reads through must not drop a legitimate 0 (volume == 0 -> None -> TypeError in VWAP/OBV)
    from .c20 import truthiness_sites

    _cm = repo.module("hexital.utils.candles")
    homes = {_cm.name: _cm}
    for fn in ("reading_by_index", "reading_by_candle", "reading_period", "candles_sum"):
        _h = repo.func("hexital.utils.candles", fn).module  # public anchors must exist (possibly moved and re-exported)
        homes[_h.name] = _h
    for f in sorted((f for m in homes.values() for f in m.functions.values()), key=lambda f: f.name):
        if f.name in ("reading_count",):
            continue
        sites = truthiness_sites(f.node)
        if not sites:
            res.ok("R-TRUTH", {"function": f.qualname, "why": "no looked-up value in boolean context"})
        for sx in sites:
            res.fail("R-TRUTH", finding("C09", "R-TRUTH", f, sx, "the reading resolver tests a looked-up value by truthiness / `or`: a candle field or reading equal to 0 resolves to None and the formulas raise TypeError"))
    # ... and in the methods of the indicator base class that formulas call (an accessor that treats a 0.0 helper reading as missing
    # turns the output into None after warm-up)
    _ind = repo.indicator_base()
    for _m in sorted(_ind.methods.values(), key=lambda f: f.name):
        if _m.name.startswith("__") or _m.name in ("reading_as_list",):
            continue
        for sx in truthiness_sites(_m.node):
            res.fail("R-TRUTH", finding("C09", "R-TRUTH", _m, sx, "an accessor of the indicator base class tests looked-up readings by truthiness (`all(values)`, `if reading`, `or`): a reading of 0 / 0.0 counts as missing, so a formula built on it returns None after warm-up (a gap)"))
    check_analysis_divisions("C09", res, repo)
    check_amorph_arity("C09", res, repo)
    # totality of the formulas is proved through the helper summaries: the summaries are checked against the helpers' bodies
    from ..contracts import check_all
    from ..manager_rules import check_epoch

    check_all("C09", res, repo)
    check_epoch("C09", res, repo)
    return res
