"""C10 — outputs satisfy their structural invariants (R-AFFINE, R-SIGN, R-FINITE, R-INTERVALS, R-ROUND)."""
from __future__ import annotations

import ast

from .. import poly
from ..absint import BoolV, DictV, NoneV, Num, Opaque, T, show_cond
from ..rules_vn import cased
from ..core import Result, finding, norm_construct, register
from ..driver import check_calculate_driver
from ..indic import analyse_class
from ..poly import A, C, Frac, ONE, ZERO, mk_rd
from ..rules_calc import SELF, Signs, _value_fact
from ..rules_vn import compare_class, load_refs
from ..sign import ANY, NEG, NONNEG, NONPOS, POS, SignEnv, ZERO as SZERO
from ..structure import call_name, calls_in


def _fld(p, name):
    return p.ret.items.get(name) if isinstance(p.ret, DictV) else None


def _nonneg(s):
    return s in (POS, NONNEG, SZERO)


def _vfact(c) -> bool:
    if isinstance(c, tuple) and c:
        if c[0] == "not":
            return _vfact(c[1])
        if c[0] in ("and", "or"):
            return any(_vfact(x) for x in c[1:])
        if c[0] == "truthy":
            return True
    return _value_fact(c)


class _Rec(dict):
    def __init__(self):
        super().__init__()
        self.keys_ = []

    def __getitem__(self, k):
        if k not in self.keys_:
            self.keys_.append(k)
        return ONE


def _involved(fn_expr):
    r = _Rec()
    try:
        fn_expr(r)
    except Exception:
        pass
    return list(r.keys_)


def affine(res, repo, cls, rel_name, fn_expr):
    """on every path where all involved fields are numbers, fn_expr(fields) must be the zero polynomial"""
    ci = {c.name: c for c in repo.shipped()}[cls]
    ca = analyse_class(repo, ci)
    n = 0
    for p in cased(ca.paths):
        if not isinstance(p.ret, DictV):
            continue
        try:
            d = fn_expr({k: v.f for k, v in p.ret.items.items() if isinstance(v, Num)})
        except KeyError:
            # some fields of the identity are set and another is None: allowed while something is still warming up (presence / period
            # facts), not under a condition on the values seen (`if macd and signal:` withholds the histogram when MACD is exactly 0.0)
            inv = _involved(fn_expr)
            have = [k for k in inv if isinstance(p.ret.items.get(k), Num)]
            none = [k for k in inv if isinstance(p.ret.items.get(k), NoneV)]
            if have and none and len(have) + len(none) == len(inv):
                vf = [c for c in p.state.facts if _vfact(c)]
                if vf:
                    res.fail("R-AFFINE", finding("C10", "R-AFFINE", ca.fn, p.node or ca.fn.node, f"{rel_name}: {', '.join(none)} is None while {', '.join(have)} are set, under the value condition [{' & '.join(show_cond(c) for c in vf)[:140]}]: the identity does not hold on such a candle", construct=f"{cls}: {rel_name} withheld under {' & '.join(show_cond(c) for c in vf)}"[:190]))
                else:
                    res.ok("R-AFFINE", {"class": cls, "identity": rel_name, "withheld only under": " & ".join(show_cond(c) for c in p.state.facts)[:120]})
            continue
        n += 1
        if d.is_zero():
            res.ok("R-AFFINE", {"class": cls, "identity": rel_name, "guard": " & ".join(show_cond(c) for c in p.state.facts)[:120]}, nontrivial=f"{cls}:{rel_name}")
        else:
            res.fail("R-AFFINE", finding("C10", "R-AFFINE", ca.fn, p.node or ca.fn.node, f"{rel_name} does not hold identically: difference {repr(d)[:150]}", construct=f"{cls}: {rel_name}"))
    if n == 0:
        res.fail("R-AFFINE", finding("C10", "R-AFFINE", ca.fn or ci, None, f"no path of {cls} produces the fields of `{rel_name}`", construct=f"{cls}: {rel_name} (no path)"))


def ordered(res, repo, signs: Signs, cls, lo, mid, hi):
    ci = {c.name: c for c in repo.shipped()}[cls]
    ca1 = analyse_class(repo, ci)
    ca = signs.analyse(ci)
    n = 0
    for p in cased(ca.paths):
        if not isinstance(p.ret, DictV):
            continue
        vals = {k: v.f for k, v in p.ret.items.items() if isinstance(v, Num)}
        if not all(k in vals for k in (lo, mid, hi)):
            continue
        n += 1
        env = signs.env_for(ca1, tuple(p.state.facts))
        for a, b in ((mid, lo), (hi, mid)):
            d = vals[a] - vals[b]
            s = env.frac(d)
            got = p.state.sgn.get(d)
            if got:
                s = SignEnv._meet(got, s)
            if _nonneg(s):
                res.ok("R-SIGN", {"class": cls, "relation": f"{b} <= {a}", "difference": repr(d)[:100], "sign": s}, nontrivial=f"{cls}:{b}<={a}")
            else:
                res.fail("R-SIGN", finding("C10", "R-SIGN", ca.fn, p.node or ca.fn.node, f"{b} <= {a} is not guaranteed: {a} - {b} = {repr(d)[:120]} has sign {s}", construct=f"{cls}: {b} <= {a}"))
    if n == 0:
        res.fail("R-SIGN", finding("C10", "R-SIGN", ca.fn or ci, None, f"no path of {cls} yields {lo}/{mid}/{hi}", construct=f"{cls}: bands (no path)"))


def window_pair(f: Frac, kind, name):
    a = poly._single_atom(f)
    if a is not None and a[0] == "red" and a[1] == kind:
        body = poly._single_atom(a[4])
        if body is not None and body[0] == "rd" and body[1] == name:
            return a
    return None


@register("C10")
def run(repo, tier) -> Result:
    res = Result("C10", tier)
    res.explanation = (
        "Decided clauses: (R-AFFINE) AROONOSC = up - down, DCM = (DCU+DCL)/2, histogram = MACD - signal, BBM = the SMA helper, KC.band = the EMA helper: the difference of the two value numbers is the zero polynomial on every path; "
        "(R-SIGN) lower <= middle <= upper for Bollinger/Keltner (difference = positive constant x helper with inductive sign summary NONNEG: STDEV via sqrt, ATR via TR = max(high-low, |.|, |.|)), Donchian DCL <= DCM <= DCU and enclosure of the candle's own high/low "
        "(same window on 'high' and 'low', includes offset 0, candle axiom low <= high), TR >= high-low >= 0, ATR >= 0, STDEV >= 0; (R-FINITE) Supertrend direction in {1,-1} and exactly one of long/short set and equal to trend, OBV step in {0, +-volume}, Counter grows by one or resets; "
        "(R-INTERVALS) RSI and Aroon up/down in [0,100] by sign/interval analysis of the normal form; (R-ROUND) round_values sits between _calculate_reading and _set_reading in both drivers, rounds floats and float fields of dicts and never skips on round_by; "
        "'averages lie within their inputs' for SMA/EMA/RMA/WMA follows from equality with the convex-combination definitions (R-VN) and the convexity lemma. Not decided: [0,100] for STOCH/ADX, [-100,100] for TSI (relational value facts)."
    )
    res.assumptions = ["well-formed candles (0 < low <= open,close <= high, volume >= 0)", "multiplier > 0, 0 < smoothing <= period + 1, periods >= 2", "rounding is monotone, so order relations survive it", "previous own readings satisfy the invariant (induction over the candle index)"]
    signs = Signs(repo)
    by = {c.name: c for c in repo.shipped()}
    # ---- linear identities
    affine(res, repo, "AROON", "AROONOSC = AROONU - AROOND", lambda v: v["AROONOSC"] - (v["AROONU"] - v["AROOND"]))
    affine(res, repo, "Donchian", "DCM = (DCU + DCL)/2", lambda v: v["DCM"] - (v["DCU"] + v["DCL"]) / C(2))
    affine(res, repo, "MACD", "histogram = MACD - signal", lambda v: v["histogram"] - (v["MACD"] - v["signal"]))
    affine(res, repo, "BBANDS", "BBM = SMA(input, period)", lambda v: v["BBM"] - mk_rd("<name>_SMA", T))
    affine(res, repo, "KC", "band = EMA(input, period)", lambda v: v["band"] - mk_rd("<name>_EMA", T))
    for cls, hname, hcls in (("BBANDS", "<name>_SMA", "SMA"), ("KC", "<name>_EMA", "EMA")):
        h = analyse_class(repo, by[cls]).tree.by_name().get(hname)
        if h is not None and h.cls.name == hcls and repr(h.kwargs.get("period")) == "Num(period)" and repr(h.kwargs.get("input_value")) == "Str('<input>')":
            res.ok("R-AFFINE", {"class": cls, "helper": h.describe()}, nontrivial=f"{cls}:{hname}")
        else:
            res.fail("R-AFFINE", finding("C10", "R-AFFINE", repo.find_method(by[cls], "_initialise") or by[cls], None, f"{hname} is not {hcls}(input, period)", construct=f"{cls}: middle helper"))
    # ---- band ordering
    ordered(res, repo, signs, "BBANDS", "BBL", "BBM", "BBU")
    ordered(res, repo, signs, "KC", "lower", "band", "upper")
    # Donchian: same window on high and low, includes the current candle
    ca = analyse_class(repo, by["Donchian"])
    for p in cased(ca.paths):
        if not isinstance(p.ret, DictV) or not isinstance(p.ret.items.get("DCU"), Num):
            continue
        up = window_pair(p.ret.items["DCU"].f, "max", "high")
        lo = window_pair(p.ret.items["DCL"].f, "min", "low") if isinstance(p.ret.items.get("DCL"), Num) else None
        if up is not None and lo is not None and up[3] == lo[3] and up[5] == lo[5] and poly.subst(up[4], {up[2]: ZERO}) == mk_rd("high", T) and poly.subst(lo[4], {lo[2]: ZERO}) == mk_rd("low", T):
            res.ok("R-SIGN", {"class": "Donchian", "why": f"DCU = max of high, DCL = min of low over the same {up[3]!r} offsets from t (offset 0 included); low <= high per candle => DCL <= own low <= own high <= DCU and DCL <= DCM <= DCU"}, nontrivial="Donchian:window")
        else:
            res.fail("R-SIGN", finding("C10", "R-SIGN", ca.fn, p.node or ca.fn.node, "Donchian upper/lower are not the max of 'high' / min of 'low' over one common window that includes the current candle", construct="Donchian: window agreement"))
    # TR >= high - low >= 0 ; ATR, STDEV >= 0
    ca = analyse_class(repo, by["TR"])
    hl = mk_rd("high", T) - mk_rd("low", T)
    for p in cased(ca.paths):
        if isinstance(p.ret, Num):
            a = poly._single_atom(p.ret.f)
            if a is not None and a[0] == "fn" and a[1] == "max" and hl in a[2:]:
                res.ok("R-SIGN", {"class": "TR", "why": "TR = max(high - low, ...) >= high - low >= 0 (candle axiom)"}, nontrivial="TR")
            else:
                res.fail("R-SIGN", finding("C10", "R-SIGN", ca.fn, p.node, "TR is not a maximum that includes high - low", construct="TR >= high - low"))
    for cls in ("ATR", "StandardDeviation"):
        s = signs.class_summary(by[cls], POS)
        if _nonneg(s):
            res.ok("R-SIGN", {"class": cls, "inductive sign summary": s}, nontrivial=cls)
        else:
            res.fail("R-SIGN", finding("C10", "R-SIGN", by[cls], None, f"{cls} >= 0 is not derivable (summary {s})", construct=f"{cls} >= 0"))
    # ---- finite domains
    ca = analyse_class(repo, by["Supertrend"])
    d_prev = mk_rd(SELF + ".direction", T - ONE)
    for p in cased(ca.paths):
        if not isinstance(p.ret, DictV):
            continue
        facts = p.state.facts
        eq1 = ("cmp", "==", d_prev - ONE) in facts
        eqm = ("cmp", "==", d_prev + ONE) in facts
        ne1 = ("cmp", "!=", d_prev - ONE) in facts
        nem = ("cmp", "!=", d_prev + ONE) in facts
        if (ne1 and nem) or (eq1 and eqm):
            continue  # excluded by the induction hypothesis direction[t-1] in {1,-1}
        d = p.ret.items.get("direction")
        val = None
        if isinstance(d, Num) and d.f.is_const() and d.f.const_value() in (1, -1):
            val = int(d.f.const_value())
        elif isinstance(d, Num) and d.f == d_prev:
            val = 1 if eq1 or (nem and not ne1) else (-1 if eqm or ne1 else None)
        trend, lg, sh = p.ret.items.get("trend"), p.ret.items.get("long"), p.ret.items.get("short")
        guard = " & ".join(show_cond(c) for c in facts)[:140]
        if isinstance(trend, NoneV):
            if isinstance(lg, NoneV) and isinstance(sh, NoneV) and val in (1, -1):
                res.ok("R-FINITE", {"class": "Supertrend", "case": "warm-up: trend/long/short all None, direction constant"})
            else:
                res.fail("R-FINITE", finding("C10", "R-FINITE", ca.fn, p.node, "during warm-up trend/long/short must all be None", construct=f"Supertrend warm-up [{guard}]"))
            continue
        if val is None:
            res.fail("R-FINITE", finding("C10", "R-FINITE", ca.fn, p.node, f"direction is {d!r}, not provably +1 or -1", construct=f"Supertrend direction [{guard}]"))
            continue
        want_set, want_none = (lg, sh) if val == 1 else (sh, lg)
        if isinstance(want_set, Num) and isinstance(trend, Num) and want_set.f == trend.f and isinstance(want_none, NoneV):
            res.ok("R-FINITE", {"class": "Supertrend", "direction": val, "why": "exactly one of long/short is set and equals trend"}, nontrivial=f"ST:{guard}")
        else:
            res.fail("R-FINITE", finding("C10", "R-FINITE", ca.fn, p.node, f"with direction {val}: long={lg!r} short={sh!r} trend={trend!r}: not 'exactly one of long/short set and equal to trend'", construct=f"Supertrend long/short [{guard}]"))
    ca = analyse_class(repo, by["OBV"])
    prev, vol = mk_rd(SELF, T - ONE), mk_rd("volume", T)
    for p in cased(ca.paths):
        if isinstance(p.ret, Num):
            step = p.ret.f - prev
            has_prev = any(c == ("present", SELF, T - ONE) for c in p.state.facts)
            if has_prev and (step.is_zero() or step == vol or step == -vol):
                res.ok("R-FINITE", {"class": "OBV", "step": repr(step)}, nontrivial=f"OBV:{step!r}")
            elif not has_prev and p.ret.f == vol:
                res.ok("R-FINITE", {"class": "OBV", "start": "volume"})
            else:
                res.fail("R-FINITE", finding("C10", "R-FINITE", ca.fn, p.node, f"OBV moves by {step!r}, not by 0 or +-volume", construct=f"OBV step {step!r}"[:150]))
        else:
            res.fail("R-FINITE", finding("C10", "R-FINITE", ca.fn, p.node, f"OBV returns {p.ret!r}", construct="OBV value"))
    ca = analyse_class(repo, by["Counter"])
    prev = mk_rd(SELF, T - ONE)
    from ..rules_vn import expand_cases

    for p in cased(ca.paths):
        for _f, ret, _w in expand_cases(tuple(p.state.facts), p.ret, {}):
            if isinstance(ret, Num) and (ret.f.is_zero() or ret.f == ONE or ret.f == prev + ONE or ret.f == prev):
                res.ok("R-FINITE", {"class": "Counter", "value": repr(ret.f)}, nontrivial=f"Counter:{ret.f!r}")
            else:
                res.fail("R-FINITE", finding("C10", "R-FINITE", ca.fn, p.node, f"Counter returns {ret!r}: it must reset to 0, stay, or grow by exactly one", construct=f"Counter value {ret!r}"[:150]))
    # ---- intervals
    ca1 = analyse_class(repo, by["RSI"])
    ca = signs.analyse(by["RSI"])
    for p in cased(ca.paths):
        if isinstance(p.ret, Num):
            env = signs.env_for(ca1, tuple(p.state.facts))
            lo_s, hi_s = env.frac(p.ret.f), env.frac(C(100) - p.ret.f)
            for f, s in ((p.ret.f, lo_s), (C(100) - p.ret.f, hi_s)):
                g = p.state.sgn.get(f)
                if g:
                    s = SignEnv._meet(g, s)
                if f is p.ret.f:
                    lo_s = s
                else:
                    hi_s = s
            if _nonneg(lo_s) and _nonneg(hi_s):
                res.ok("R-INTERVALS", {"class": "RSI", "value": repr(p.ret.f)[:100], "0 <=": lo_s, "<= 100": hi_s}, nontrivial=f"RSI:{repr(p.ret.f)[:40]}")
            else:
                res.fail("R-INTERVALS", finding("C10", "R-INTERVALS", ca.fn, p.node, f"RSI in [0,100] not derivable: sign(value)={lo_s}, sign(100-value)={hi_s}", construct=f"RSI bound: {repr(p.ret.f)[:120]}"))
    ca = analyse_class(repo, by["AROON"])
    for p in cased(ca.paths):
        if not isinstance(p.ret, DictV):
            continue
        for fld in ("AROONU", "AROOND"):
            v = p.ret.items.get(fld)
            if not isinstance(v, Num):
                continue
            args = [a for a in poly.all_atoms(v.f) if a[0] == "red" and a[1] in ("argmax", "argmin")]
            ok = False
            if len(args) == 1:
                a = args[0]
                lo_v = poly.subst(v.f, {a: ZERO})
                hi_v = poly.subst(v.f, {a: a[3] - ONE})
                deg = max((dict(m).get(a, 0) for m in v.f.n.t), default=0)
                in_den = a in v.f.d.atoms()
                ok = deg == 1 and not in_den and all((x.is_const() and 0 <= x.const_value() <= 100) for x in (lo_v, hi_v))
            if ok:
                res.ok("R-INTERVALS", {"class": "AROON", "field": fld, "why": "affine in the bars-since offset, which ranges over [0, period]: endpoints 100 and 0"}, nontrivial=f"AROON:{fld}")
            else:
                res.fail("R-INTERVALS", finding("C10", "R-INTERVALS", ca.fn, p.node, f"{fld} = {repr(v.f)[:120]} is not an affine map of the offset in [0, period] onto [0,100]", construct=f"AROON {fld} bound"))
    # ---- rounding
    check_calculate_driver("C10", res, repo, want=("R-ROUND",))
    ci = repo.method("hexital.core.indicator", "Indicator", "calculate_index")
    from ..structure import is_subsequence, path_calls, stmt_paths

    for lp in [n for n in ci.node.body if isinstance(n, ast.For)]:
        for p in stmt_paths(lp.body):
            names = [call_name(c) for c in path_calls(p)]
            if is_subsequence(["_calculate_reading", "round_values", "_set_reading"], names):
                res.ok("R-ROUND", {"site": ci.where, "order": "_calculate_reading -> round_values -> _set_reading"})
            else:
                res.fail("R-ROUND", finding("C10", "R-ROUND", ci, lp, "calculate_index stores a reading without rounding it", construct="calculate_index: " + " -> ".join(names)))
    for drv in ("calculate", "calculate_index"):
        m = repo.method("hexital.core.indicator", "Indicator", drv)
        rv = [c for c in calls_in(m.node) if call_name(c) == "round_values"]
        if rv and all(any(k.arg == "round_by" and ast.unparse(k.value) == "self.round_value" for k in c.keywords) or (len(c.args) == 2 and ast.unparse(c.args[1]) == "self.round_value") for c in rv):
            res.ok("R-ROUND", {"site": m.where, "round_by": "self.round_value"})
        else:
            res.fail("R-ROUND", finding("C10", "R-ROUND", m, m.node, "round_values must be called with round_by=self.round_value", construct=f"{drv}: round_by"))
    rvf = repo.func("hexital.utils.indexing", "round_values")
    rounds = [c for c in calls_in(rvf.node) if call_name(c) == "round"]
    by_param = [ast.unparse(c.args[1]) if len(c.args) > 1 else None for c in rounds]
    conds_on_rb = [n for n in ast.walk(rvf.node) if isinstance(n, (ast.If, ast.IfExp)) and "round_by" in ast.unparse(n.test)]
    if len(rounds) >= 2 and all(b == "round_by" for b in by_param) and not conds_on_rb:
        res.ok("R-ROUND", {"site": rvf.where, "why": "floats and float fields of dicts are rounded to round_by; no branch depends on round_by"}, nontrivial="round_values")
    else:
        for n in conds_on_rb:
            res.fail("R-ROUND", finding("C10", "R-ROUND", rvf, n.test, "round_values decides whether to round from the value of round_by: a legitimate round_value (e.g. 0) disables rounding"))
        if not conds_on_rb:
            res.fail("R-ROUND", finding("C10", "R-ROUND", rvf, rvf.node, "round_values no longer rounds both plain floats and float fields of dict readings to round_by", construct="round_values: round calls"))
    # the dispatch on the kind of reading must accept subclasses of float / dict (numpy.float64 candle values give numpy.float64 sums):
    # an exact-type test lets them through un-rounded
    exact = [n for n in ast.walk(rvf.node) if isinstance(n, ast.Compare) and any(isinstance(o, (ast.Is, ast.Eq, ast.In)) for o in n.ops)
             and any(isinstance(x, ast.Call) and call_name(x) == "type" for x in [n.left] + list(n.comparators))]
    for n in exact:
        res.fail("R-ROUND", finding("C10", "R-ROUND", rvf, n, "round_values selects what to round by an exact type test: a reading whose type is a subclass of float / dict (numpy.float64 from array-backed candles, OrderedDict) is stored un-rounded"))
    if not exact:
        res.ok("R-ROUND", {"site": rvf.where, "why": "no exact-type test (`type(x) is float`) in round_values: float / dict subclasses are rounded too"})
    # ---- in timeframe configurations the invariants relate readings to the *merged* candle: a merge must wipe the bucket's readings
    from ..driver import check_merge

    check_merge("C10", res, repo)
    # ---- averages within their inputs: equality with the convex-combination definitions
    load_refs(repo)
    for n in ("SMA", "EMA", "RMA", "WMA"):
        compare_class("C10", res, repo, by[n])
    res.universe = {"classes": sorted(by)}
    res.rule("R-AFFINE", floor=6)
    res.rule("R-SIGN", floor=8)
    res.rule("R-FINITE", floor=10)
    from ..framework_rules import check_helper_config

    check_helper_config("C10", res, repo)
    # the invariants are proved under the candle axiom low <= open, close <= high: the input converters must preserve it
    from .c19 import check_converters

    check_converters("C10", res, repo, rule="R-INPUT")
    # bounds like Aroon's [0, 100] rest on distances inside the window: an absolute list position kept in a reading goes stale when
    # the list is trimmed or rebuilt
    from ..rules_calc import check_taint
    from .common import shipped_analyses as _sa

    check_taint("C10", res, repo, _sa(repo, res), branches_too=False)
    # ranges such as AROON's [0, 100] and COUNT's step rest on the look-back helpers answering for exactly the asked window
    from ..contracts import check_all as _contracts
    from .c17 import check_movement_contracts

    _contracts("C10", res, repo)
    check_movement_contracts("C10", res, repo)
    return res
