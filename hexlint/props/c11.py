"""C11 — Heikin-Ashi conversion follows its recurrence under every append schedule (structural clauses)."""
from __future__ import annotations

from ..core import Result, finding, register
from ..driver import check_append_order, check_merge, check_resume, check_tasks_order
from ..effects import Effects
from ..manager_rules import check_conversion_typestate, check_ha


from ..framework_rules import check_tag_owners


@register("C11")
def run(repo, tier) -> Result:
    res = Result("C11", tier)
    res.explanation = (
        "Decided: (R-VN-HA) HeikinAshi.convert_candle is interpreted flow-sensitively (its stores happen in an order in which candle.open is reassigned before high/low are computed) and the post-state of the candle equals "
        "close=(o+h+l+c)/4, open=(o+c)/2 for index 0 else (prev.open+prev.close)/2 of the already converted previous candle, high=max(h,open',close'), low=min(l,open',close'), volume untouched, by value numbering on both cases; "
        "(R-ORDER) conversion() walks ascending from the resume index and applies save_clean_values -> convert_candle -> reset_candle -> tag= exactly once per candle, the tag setter rejects a second conversion, raw values stay recoverable; "
        "(R-MERGE) a merge restores raw values first and clears tag/readings/saved values last so the merged bucket is converted again; (R-RESUME) _find_conv_index never resumes past an unconverted candle (fall-through <= 1); "
        "the conversion keeps no state on the (shared) candlestick-type object; manager tasks run collapse -> convert -> trim and append runs tasks before calculate. Equality with the recurrence under every append composition is not decided."
    )
    res.assumptions = ["candles already tagged were converted by the same candlestick type"]
    check_ha("C11", res, repo)
    check_conversion_typestate("C11", res, repo)
    check_resume("C11", res, repo.method("hexital.core.candlestick_type", "CandlestickType", "_find_conv_index"), "<param0>", "tag", repo=repo)
    check_merge("C11", res, repo)
    check_tasks_order("C11", res, repo, need=(("collapse", "convert"), ("convert", "trim")))
    check_append_order("C11", res, repo)
    # with a candlestick type the other timeframes must collapse *raw* candles (the default manager converts in place)
    from ..ownership import check_raw_copies

    check_raw_copies("C11", res, repo)
    # "of the collapsed raw candles": the walk that builds the buckets a conversion starts from (every candle of a window merged, on raw values)
    from ..manager_rules import check_collapse

    check_collapse("C11", res, repo, want=("R-CONSERVE",))
    from ..framework_rules import check_converter_stateless

    check_converter_stateless("C11", res, repo)
    # the candlestick type object is shared by every manager of a Hexital: it must stay stateless
    eff = Effects(repo)
    for mod, cls, nm in (("hexital.core.candlestick_type", "CandlestickType", "conversion"), ("hexital.core.candlestick_type", "CandlestickType", "_find_conv_index"), ("hexital.candlesticks.heikinashi", "HeikinAshi", "convert_candle")):
        m = repo.method(mod, cls, nm)
        if "self" in eff.effect(m):
            for root, node, why in [s for s in eff.effect_sites(m) if s[0] == "self"][:2]:
                res.fail("R-STATE", finding("C11", "R-STATE", m, node, f"the candlestick type keeps state on itself ({why}); one instance serves every candle manager of a Hexital, so resume positions of different lists get mixed up"))
        else:
            res.ok("R-STATE", {"function": f"{cls}.{nm}", "why": "no write to self: the shared converter is stateless"}, nontrivial=f"{cls}.{nm}")
    res.rule("R-VN-HA", floor=8)
    # "of the collapsed raw candles": with gap filling the inserted buckets are part of that raw series; they must be built from the
    # previous bucket's RAW close (saved values when it is already converted), or the HA chain depends on the append schedule
    from ..manager_rules import check_fill

    check_fill("C11", res, repo)
    # "each candle is converted exactly once": the tag that marks a converted candle is cleared only where the candle is rebuilt
    check_tag_owners("C11", res, repo)
    return res
