"""C12 — gap filling yields a contiguous series of flat, zero-volume candles (structural clauses)."""
from __future__ import annotations

from ..core import Result, register
from ..manager_rules import check_collapse, check_fill


@register("C12")
def run(repo, tier) -> Result:
    res = Result("C12", tier)
    res.explanation = (
        "Decided: (R-FILL) the inserted candle is Candle(open=high=low=close=P.close, volume=0, timestamp=P.timestamp+timeframe) with P the element before the insertion cursor; the gap test is "
        "`next.timestamp != P.timestamp + timeframe` on the full timestamps (value-number comparison, so .seconds-style truncations are rejected); the cursor starts at 1, advances by one, runs to len(list); "
        "(R-EFFECT) fill only inserts fresh candles: no store on an existing candle, no state on the manager, so real buckets are not altered; (R-FILLPATH) collapse_candles passes the rebuilt list through "
        "fill_missing_candles(candles_, timeframe_) on every normal exit when timeframe_fill is set. Contiguity from first to last bucket and schedule independence for every gap pattern are loop properties of the fill cursor "
        "and of re-collapsing filled lists and are not decided."
    )
    res.assumptions = ["timestamps present; buckets strictly increasing (C03)"]
    check_fill("C12", res, repo)
    # "exactly one timeframe apart": the fill step works on the labels collapse_candles produced; they are on the grid only if the
    # two bucket-edge helpers agree on it (round_down_timestamp / on_timeframe, second resolution)
    from ..manager_rules import check_epoch

    check_epoch("C12", res, repo)
    # the fill reads the previous candle's saved raw close: a merge must drop the stale snapshot; and the retained real buckets are
    # those of the unfilled manager (trimming is by timestamp only)
    from ..driver import check_merge
    from ..manager_rules import check_trim

    check_merge("C12", res, repo)
    check_trim("C12", res, repo)
    check_collapse("C12", res, repo, want=("R-FILLPATH",))
    res.rule("R-FILL", floor=7)
    # "the real buckets are identical to those produced without filling": every timeframe collapses the raw base candles, never another
    # manager's (filled) candles
    from ..ownership import check_raw_copies

    check_raw_copies("C12", res, repo, want=("validate",))
    from ..framework_rules import check_settings_kept

    check_settings_kept("C12", res, repo)
    # ... and every timeframe manager a Hexital creates for a member gets the Hexital-level fill setting (a strategy built with
    # timeframe_fill=True must not hold an unfilled manager)
    from .c08 import check_binding

    check_binding(res, repo, prop="C12")
    return res
