"""C13 — indicators sharing candles do not interfere with one another."""
from __future__ import annotations

import ast
import itertools

from ..core import Result, finding, norm_construct, register
from ..naming import SELF, max_depth, name_closure
from ..ownership import check_hexital_purge, check_manager_purge, check_own, purge_depth
from ..rules_calc import check_writes
from ..structure import calls_in, call_name
from .common import shipped_analyses


def check_namespace(prop, res, repo, cas) -> int:
    """R-NS: every helper series of an indicator is named '<the instance's own name>_<literal>' (at any depth): two instances of one
    class, or an instance and another indicator, never share a helper series"""
    n_names = 0
    for ca in cas:
        init = repo.find_method(ca.ci, "_initialise")
        for name, depth, path in name_closure(repo, ca.ci):
            if depth == 0:
                continue
            n_names += 1
            if name.startswith(SELF + "_") and "<" not in name[len(SELF):]:
                res.ok("R-NS", {"class": ca.ci.name, "helper": name, "path": path, "depth": depth}, nontrivial=f"{ca.ci.name}:{name}")
            else:
                res.fail("R-NS", finding(prop, "R-NS", init or ca.ci, (init.node if init else ca.ci.node), f"helper series {name!r} ({path}) is not named '<owner name>_<literal>': it is shared with / shadowed by other indicators' series", construct=f"{ca.ci.name} helper name {name}"))
        for node, why in ca.tree.problems:
            res.fail("R-NS", finding(prop, "R-NS", init or ca.ci, node, f"composition statement not understood: {why}"))
    return n_names


@register("C13")
def run(repo, tier) -> Result:
    res = Result("C13", tier)
    res.explanation = (
        "Indicators communicate only through two dicts per candle keyed by name. Non-interference of indicators with distinct names follows from: (R-NS) every helper name "
        "in the composition closure of every shipped class (helpers of helpers included) is the owner's own name followed by '_' and a literal, so write(A) is a set of extensions of A's name; "
        "(R-WRITE) formulas write only their own names at the evaluated index, (R-OWN) nothing else writes candle fields or reading dicts; (R-PURGE-EXACT) the manager removes exactly the names it is given and "
        "(R-PURGE) the indicator hands it exactly its own closure; (R-SELECT) Hexital.purge/calculate select by name equality. The thorough tier instantiates all ordered pairs of shipped "
        "classes with their default names and checks the closures for collisions. The resolver's lookup order (top-level dict before helper dict for every name) lets an adversarially chosen override name "
        "shadow another indicator's helper; that is recorded as a known finding."
    )
    res.assumptions = ["top-level names are distinct and no top-level name equals '<other name>_<helper suffix>' (otherwise known finding R-LOOKUP applies)"]
    cas = shipped_analyses(repo, res)
    n_names = check_namespace("C13", res, repo, cas)
    check_writes("C13", res, repo, cas)
    check_own("C13", res, repo)
    # indicators on different managers of one Hexital share the candlestick-type instance: it must not carry state from one list to another
    from ..framework_rules import check_converter_stateless

    check_converter_stateless("C13", res, repo)
    check_manager_purge("C13", res, repo)
    check_hexital_purge("C13", res, repo)
    # indicators on one timeframe share a manager: its configuration must come from the Hexital, not from whichever indicator creates it
    from .c08 import check_binding

    check_binding(res, repo, prop="C13")
    depth, why, fn = purge_depth(repo)
    need = max_depth(repo)
    # for non-interference only "purged(A) is a subset of A's own closure" matters; completeness of the closure is C14
    if "not understood" in why or "does not hand" in why:
        res.fail("R-PURGE", finding("C13", "R-PURGE", fn, fn.node, f"{why}: cannot show that purge removes only the indicator's own series", construct="purge name set"))
    else:
        res.ok("R-PURGE", {"site": fn.where, "names": why, "why": "only the indicator's own name and its registered helpers' names are handed to the manager"}, nontrivial="purge:subset")
    # resolver lookup order (L-1)
    rbc = repo.func("hexital.utils.candles", "reading_by_candle")
    loops = [n for n in rbc.node.body if isinstance(n, ast.For)]
    order = [ast.unparse(l.iter) for l in loops]
    if order[:2] == ["candle.indicators", "candle.sub_indicators"]:
        res.fail("R-LOOKUP", finding("C13", "R-LOOKUP", rbc, loops[0], "every name is looked up in the top-level readings before the helper readings: a top-level indicator whose (override) name equals another indicator's helper name shadows that helper", construct="lookup order: candle.indicators before candle.sub_indicators"))
    else:
        res.note("reading_by_candle lookup order changed; R-LOOKUP not applicable")
    if tier == "thorough":
        # explicit collision matrix over default names with two parameter choices
        inst = []
        for ca in cas:
            if ca.ci.name == "Amorph":
                continue
            for tag in ("a", "b"):
                inst.append((ca.ci.name, f"{ca.ci.name}#{tag}", [n.replace(SELF, f"{ca.ci.name}#{tag}") for n, d, p in name_closure(repo, ca.ci)]))
        for (c1, n1, s1), (c2, n2, s2) in itertools.permutations(inst, 2):
            inter = set(s1) & set(s2)
            if inter:
                res.fail("R-NS", finding("C13", "R-NS", repo.shipped()[0], None, f"name closures of {n1} and {n2} intersect: {sorted(inter)}", construct=f"collision {c1}/{c2}"))
            else:
                res.ok("R-NS-PAIR", None)
    res.universe = {"classes": [ca.ci.name for ca in cas], "helper_names": n_names, "max_depth": need}
    res.rule("R-NS", floor=30)
    res.rule("R-OWN", floor=12)
    from ..framework_rules import check_ctor_effects, check_registry_writers

    check_ctor_effects("C13", res, repo)
    check_registry_writers("C13", res, repo)
    from ..framework_rules import check_name_matching, check_selection
    from ..ownership import check_purge_paths

    check_purge_paths("C13", res, repo)
    check_selection("C13", res, repo)
    check_name_matching("C13", res, repo)
    return res
