"""C14 — maintenance operations are idempotent and converge to the batch state (structural clauses)."""
from __future__ import annotations

import ast

from ..core import Result, finding, norm_construct, register
from ..driver import check_calculate_driver, check_resume
from ..effects import Effects
from ..naming import max_depth, name_closure
from ..ownership import check_hexital_purge, check_manager_purge, purge_depth
from ..structure import call_name, call_target, calls_in, is_subsequence, path_calls, stmt_paths


def check_rebind(prop, res, repo):
    """the candle_manager setter reaches every existing helper, unconditionally (transitively through the helpers' own setters)"""
    rule = "R-REBIND"
    ind = repo.indicator_base()
    st = repo.find_setter(ind, "candle_manager")
    if st is None:
        res.errors.append("Indicator.candle_manager setter vanished")
        return
    param = [p for p in st.params if p != "self"][0]
    for reg in ("self.sub_indicators", "self.managed_indicators"):
        loops = [n for n in ast.walk(st.node) if isinstance(n, ast.For) and ast.unparse(n.iter).startswith(reg)]
        ok = False
        for lp in loops:
            lv = ast.unparse(lp.target).split(",")[-1].strip(" ()")
            for s in lp.body:
                if isinstance(s, ast.Assign) and any(ast.unparse(t) == f"{lv}.candle_manager" for t in s.targets) and ast.unparse(s.value) == param:
                    ok = True
        if ok:
            res.ok(rule, {"site": st.where, "propagates": f"for helper in {reg}: helper.candle_manager = {param}"}, nontrivial=reg)
        else:
            res.fail(rule, finding(prop, rule, st, st.node, f"the candle_manager setter does not unconditionally hand the new manager to every helper in {reg}: an already initialised indicator keeps computing its helpers on the old candles", construct=f"setter: propagate to {reg}"))
    want = {"self._candles": param, "self.candles": f"{param}.candles"}
    # the member takes over the manager's effective configuration (what `settings` reports and a standalone twin is built from)
    for cfg in ("timeframe", "timeframe_fill", "candles_lifespan", "candlestick_type"):
        want[f"self.{cfg}"] = f"{param}.{cfg}"
    got = {ast.unparse(t): ast.unparse(s.value) for s in st.node.body if isinstance(s, ast.Assign) for t in s.targets}
    dynamic = [c for c in calls_in(st.node) if call_name(c) in ("setattr", "update") or (call_name(c) == "__setattr__")]
    for k, v in want.items():
        if got.get(k) == v:
            res.ok(rule, {"site": st.where, "store": f"{k} = {v}"})
        elif dynamic and k not in got:
            res.errors.append(f"{st.where}: the candle_manager setter stores attributes dynamically ({norm_construct(dynamic[0])[:60]}): whether {k} = {v} is among them cannot be decided")
        else:
            res.fail(rule, finding(prop, rule, st, st.node, f"the setter must set {k} = {v}", construct=f"setter: {k}"))
    for nm in ("add_sub_indicator", "add_managed_indicator"):
        m = repo.method("hexital.core.indicator", "Indicator", nm)
        if any(isinstance(s, ast.Assign) and any(ast.unparse(t) == "indicator.candle_manager" for t in s.targets) and ast.unparse(s.value) == "self._candles" for s in m.node.body):
            res.ok(rule, {"site": m.where, "store": "indicator.candle_manager = self._candles"})
        else:
            res.fail(rule, finding(prop, rule, m, m.node, "a newly registered helper must adopt its owner's candle manager", construct=f"{nm}: adopt manager"))


def check_calculate_index(prop, res, repo):
    rule = "R-NORM"
    ci = repo.method("hexital.core.indicator", "Indicator", "calculate_index")
    fn = ci.node
    p0 = [p for p in ci.params if p != "self"][0]
    # first use of the start parameter must be its own normalisation through absindex(p, len(self.candles))
    def _in_order(node):
        """nodes in evaluation order (statement by statement; the value of an assignment before its targets): positions are not
        used, substituted sub-trees carry the line of where they came from"""
        if isinstance(node, ast.Assign):
            yield from _in_order(node.value)
            for t in node.targets:
                yield from _in_order(t)
            return
        yield node
        for c in ast.iter_child_nodes(node):
            yield from _in_order(c)

    loads = [n for st_ in fn.body for n in _in_order(st_) if isinstance(n, ast.Name) and n.id == p0 and isinstance(n.ctx, ast.Load)]
    _defs = {}
    for _n in ast.walk(fn):
        if isinstance(_n, ast.Assign) and len(_n.targets) == 1 and isinstance(_n.targets[0], ast.Name):
            _defs.setdefault(_n.targets[0].id, []).append(ast.unparse(_n.value))

    def _r(e):
        t = ast.unparse(e)
        return _defs[t][0] if len(_defs.get(t, ())) == 1 and t != p0 else t

    # the normalised value may be kept in the parameter itself or in a new local; the raw parameter must not be used again afterwards
    norm = [s for s in fn.body if isinstance(s, ast.Assign) and isinstance(s.value, ast.Call) and call_name(s.value) == "absindex" and len(s.value.args) == 2 and ast.unparse(s.value.args[0]) == p0 and _r(s.value.args[1]) == "len(self.candles)" and len(s.targets) == 1 and isinstance(s.targets[0], ast.Name)]
    if norm and ast.unparse(norm[0].targets[0]) != p0:
        later = [n for n in loads if n not in list(ast.walk(norm[0]))]
        if later:
            norm = []
    if norm and loads and loads[0] in list(ast.walk(norm[0])):
        res.ok(rule, {"site": f"{ci.where} {norm_construct(norm[0])}", "why": "a negative index is made absolute before it becomes the active index / a list position"}, nontrivial="calculate_index:absindex")
        nxt = fn.body[fn.body.index(norm[0]) + 1] if fn.body.index(norm[0]) + 1 < len(fn.body) else None
        if isinstance(nxt, ast.If) and "is None" in ast.unparse(nxt.test) and any(isinstance(x, ast.Return) for x in nxt.body):
            res.ok(rule, {"site": ci.where, "why": "invalid index returns without touching readings"})
        else:
            res.fail(rule, finding(prop, rule, ci, norm[0], "absindex can return None for an invalid index; the result is used without a None check"))
    else:
        res.fail(rule, finding(prop, rule, ci, fn, "calculate_index uses its (possibly negative) index without normalising it with absindex(index, len(self.candles)) first: prev_reading/reading_period then see a negative position and valid readings are overwritten with None", construct="calculate_index: normalise start index"))
    # loop body: set active index on managed helpers, calculate, round, store at that index
    loops = [n for n in fn.body if isinstance(n, ast.For)]
    if len(loops) != 1:
        res.fail("R-DRIVE", finding(prop, "R-DRIVE", ci, fn, "calculate_index no longer has one recompute loop", construct="calculate_index: loop"))
        return
    lv = ast.unparse(loops[0].target)
    for p in stmt_paths(loops[0].body):
        names = [call_name(c) for c in path_calls(p)]
        if is_subsequence(["_set_active_index", "_calculate_reading", "round_values", "_set_reading"], names):
            res.ok("R-DRIVE", {"site": ci.where, "order": "_set_active_index -> _calculate_reading -> round_values -> _set_reading"}, nontrivial="calculate_index:drive")
        else:
            res.fail("R-DRIVE", finding(prop, "R-DRIVE", ci, loops[0], "the recompute loop must set the active index through _set_active_index (which also moves the managed helpers), then calculate, round and store", construct="calculate_index: " + " -> ".join(names)))
    sai = repo.method("hexital.core.indicator", "Indicator", "_set_active_index")
    txt = ast.unparse(sai.node)
    ip = next((a.arg for a in sai.node.args.args if a.arg != "self"), "index")
    if f"self._active_index = {ip}" in txt and "self.managed_indicators.values()" in txt and f"set_active_index({ip})" in txt:
        res.ok("R-DRIVE", {"site": sai.where, "why": "moves the cursor of every Managed helper too"}, nontrivial="_set_active_index")
    else:
        res.fail("R-DRIVE", finding(prop, "R-DRIVE", sai, sai.node, "_set_active_index must also move the cursor of the managed helpers", construct="_set_active_index: managed helpers"))
    hci = repo.method("hexital.core.hexital", "Hexital", "calculate_index")
    calls = [c for c in calls_in(hci.node) if call_name(c) == "calculate_index"]
    _ip = repo.method("hexital.core.indicator", "Indicator", "calculate_index")
    from ..structure import arg_of as _arg_of

    def _delegates_by_evaluation():
        """Hexital.calculate_index(name, index) evaluated with recording indicators: each selected indicator's calculate_index
        receives exactly the given index (True / False / None: undecided)"""
        from .. import convsem as cs

        verdicts = []
        for asked, ix in ((None, -1), ("A", 5), ("B", 0), (None, -3)):
            it = cs.Interp(repo, "hexital.core.hexital", "Hexital")
            got = []
            inds = {}
            for n_ in ("A", "B"):
                o = cs.ObjV(f"indicator {n_}", {"name": n_}, "Indicator")
                o.attrs["calculate_index"] = (lambda a, k, n__=n_: got.append((n__, tuple(a), tuple(sorted(k.items())))))
                inds[n_] = o
            selfo = cs.ObjV("self", {"_indicators": inds, "_candles": {}}, "Hexital")
            try:
                it.call_function(it.method("calculate_index"), [], {"name": asked, "index": ix}, bound_first=selfo)
            except (cs.Undecided, cs.Raised):
                return None
            want_names = ["A", "B"] if asked is None else [asked]
            ok_ = sorted(g[0] for g in got) == want_names and all((g[1] == (ix,) and g[2] == ()) or (g[1] == () and len(g[2]) == 1 and g[2][0][1] == ix and g[2][0][0] in ("index", "start_index")) for g in got)
            verdicts.append(ok_)
        return all(verdicts)

    _sem = _delegates_by_evaluation()
    if _sem or (_sem is None and len(calls) == 1 and _arg_of(calls[0], _ip, 0) is not None and ast.unparse(_arg_of(calls[0], _ip, 0)) == "index" and (len(calls[0].args) + len(calls[0].keywords)) == 1):
        res.ok(rule, {"site": hci.where, "why": "delegates the index unchanged to Indicator.calculate_index, which normalises it"})
    else:
        res.fail(rule, finding(prop, rule, hci, hci.node, "Hexital.calculate_index must delegate its index to Indicator.calculate_index", construct="Hexital.calculate_index: delegate"))


@register("C14")
def run(repo, tier) -> Result:
    res = Result("C14", tier)
    res.explanation = (
        "Decided clauses: (R-PURGE) the name set Indicator.purge hands to the manager, evaluated abstractly, is the transitive closure of the helper names (recursion over both helper registries) and is "
        "computed statelessly, covering the deepest shipped composition (depth 3: TSI); (R-PURGE-EXACT) the manager removes exactly those names; recalculate is literally purge(); calculate(); calculate() is "
        "idempotent because the sweep skips present readings (R-SKIP/R-SWEEP/R-RESUME); (R-NORM) calculate_index normalises a negative index with absindex before it becomes the active index; "
        "(R-DRIVE) the recompute loop moves the managed helpers' cursor, rounds and stores at that index; (R-REBIND) the candle_manager setter and add_*_indicator hand the manager to every helper; "
        "Hexital operations select by name equality (R-SELECT). Convergence after arbitrary operation sequences is not decided."
    )
    res.assumptions = ["helper registries (sub_indicators / managed_indicators) are only filled by add_sub_indicator / add_managed_indicator"]
    depth, why, fn = purge_depth(repo)
    need = max_depth(repo)
    if depth == "inf" or (isinstance(depth, int) and depth >= need):
        res.ok("R-PURGE", {"site": fn.where, "covers": why, "needed depth": need}, nontrivial="purge:closure")
    else:
        res.fail("R-PURGE", finding("C14", "R-PURGE", fn, fn.node, f"{why}; helper series exist down to depth {need} (e.g. TSI's second smoothing), so purge leaves entries behind that the next calculate() picks up as stale values", construct=f"purge name set depth {depth} < {need}"))
    eff = Effects(repo)
    if fn.name != "purge":
        from ..ownership import lasting_effect_sites

        if eff.effect(fn):
            for root, node, w in lasting_effect_sites(repo, eff, fn)[:2]:
                res.fail("R-PURGE", finding("C14", "R-PURGE", fn, node, f"the purge name set is cached on the object ({w}): helpers created after the first call are never purged"))
        else:
            res.ok("R-PURGE", {"site": fn.where, "why": "name collection is stateless"})
    for ci in repo.shipped():
        nc = name_closure(repo, ci)
        res.ok("R-PURGE", {"class": ci.name, "closure": [n for n, d, p in nc]}) if len(nc) > 1 else None
    check_manager_purge("C14", res, repo)
    check_hexital_purge("C14", res, repo)
    rc = repo.method("hexital.core.indicator", "Indicator", "recalculate")
    seq = [call_target(c) for p in stmt_paths(rc.node.body) for c in path_calls(p)]
    if seq == ["self.purge", "self.calculate"]:
        res.ok("R-ORDER", {"site": rc.where, "order": "purge -> calculate"}, nontrivial="recalculate")
    else:
        res.fail("R-ORDER", finding("C14", "R-ORDER", rc, rc.node, "recalculate must be purge() followed by calculate()", construct="recalculate: " + " -> ".join(seq)))
    hrc = repo.method("hexital.core.hexital", "Hexital", "recalculate")
    seq = [call_target(c) for p in stmt_paths(hrc.node.body) for c in path_calls(p)]
    if seq == ["self.purge", "self.calculate"]:
        res.ok("R-ORDER", {"site": hrc.where, "order": "purge(name) -> calculate(name)"})
    else:
        res.fail("R-ORDER", finding("C14", "R-ORDER", hrc, hrc.node, "Hexital.recalculate must be purge(name); calculate(name)", construct="Hexital.recalculate: " + " -> ".join(seq)))
    check_calculate_driver("C14", res, repo, want=("R-SKIP", "R-SWEEP", "R-ROUND", "R-SUBS"))
    check_resume("C14", res, repo.method("hexital.core.indicator", "Indicator", "_find_calc_index"), "self.candles", "membership", repo=repo)
    check_calculate_index("C14", res, repo)
    check_rebind("C14", res, repo)
    # "recomputing an index that already holds a reading reproduces that reading": helpers recomputed for that index are read back
    # through the cursor calculate_index leaves behind
    from ..framework_rules import check_cursor_kept

    check_cursor_kept("C14", res, repo)
    from ..driver import check_append_order

    check_append_order("C14", res, repo)
    res.universe = {"max_helper_depth": need}
    res.rule("R-PURGE", floor=10)
    from ..framework_rules import check_registry_writers

    check_registry_writers("C14", res, repo)
    from ..driver import check_merge
    from ..framework_rules import check_name_matching, check_registry_order, check_selection
    from ..ownership import check_purge_paths

    check_merge("C14", res, repo)
    check_purge_paths("C14", res, repo)
    check_selection("C14", res, repo)
    check_name_matching("C14", res, repo)
    check_registry_order("C14", res, repo)
    return res
