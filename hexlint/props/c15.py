"""C15 — lifespan trimming keeps exactly the window (structural clauses)."""
from __future__ import annotations

from ..core import Result, register
from ..driver import check_tasks_order
from ..manager_rules import check_trim
from ..rules_calc import check_taint
from .common import shipped_analyses


@register("C15")
def run(repo, tier) -> Result:
    res = Result("C15", tier)
    res.explanation = (
        "Decided: (R-TRIM) trim_candles pops only self.candles[0], only while candles[0].timestamp < candles[-1].timestamp - candles_lifespan on the raw timestamps (strict: a candle exactly lifespan old is kept; value-number comparison of the loop test), "
        "and does nothing without a lifespan; (R-ORDER) it is the last of the three manager tasks (after collapse and convert) on construction and on every append. With sorted timestamps the retained set is then exactly the stated window. "
        "For the second clause only its structural precondition is decided: (R-TAINT) formulas address candles relative to the evaluated index and never let the absolute position enter a value, so popping from the front shifts every index uniformly. "
        "That retained readings equal those of an untrimmed twin depends on the run-time relation between lifespan, spacing and look-back and is not decided."
    )
    res.assumptions = ["timestamps sorted (collapse output strictly increasing, base stream non-decreasing)"]
    check_trim("C15", res, repo)
    check_tasks_order("C15", res, repo, need=(("collapse", "trim"),))
    # "indicators address candles relative to the (trimmed) list and resume from the last reading present"
    from ..driver import check_calculate_driver, check_resume

    check_calculate_driver("C15", res, repo, want=("R-SKIP", "R-SWEEP"))
    check_resume("C15", res, repo.method("hexital.core.indicator", "Indicator", "_find_calc_index"), "self.candles", "membership", repo=repo)
    cas = shipped_analyses(repo, res)
    check_taint("C15", res, repo, cas, branches_too=False)
    res.rule("R-TRIM", floor=3)
    # a recursion that consults the list position (a window test in front of `previous reading exists`) stops or re-seeds when the
    # trimmed list gets short: the recursive formulas must have the definition's case structure
    from ..rules_vn import compare_class, load_refs

    load_refs(repo)
    by_name = {ci.name: ci for ci in repo.shipped()}
    for n in ("EMA", "RMA", "ATR", "OBV", "VWAP", "Supertrend", "RSI", "Counter"):
        if n in by_name:
            compare_class("C15", res, repo, by_name[n])
    res.rule("R-TAINT", floor=27)
    from ..framework_rules import check_lifespan_flow
    from ..manager_rules import check_fill

    check_lifespan_flow("C15", res, repo)
    # state kept between calls is keyed by list positions that trimming shifts
    from ..driver import check_state
    from .c01 import formula_functions

    check_state("C15", res, repo, formula_functions(repo))
    # with a lifespan the retained list is short: windows start at candle 0 all the time, so the window helpers must reach it; and
    # candles leave the list only through trim_candles, after collapse and conversion (append adds, it never filters)
    from ..driver import check_append_order
    from .c17 import check_movement_contracts

    check_movement_contracts("C15", res, repo)
    check_append_order("C15", res, repo, parts=("manager",))
    check_fill("C15", res, repo)
    from ..framework_rules import check_settings_kept

    check_settings_kept("C15", res, repo)
    return res
