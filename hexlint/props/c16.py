"""C16 — pattern and movement functions are causal and index-consistent."""
from __future__ import annotations

from ..analysis_scope import analysis_universe
from ..core import Result, register
from ..rules_analysis import check_amorph, check_function


@register("C16")
def run(repo, tier) -> Result:
    res = Result("C16", tier)
    res.explanation = (
        "For every function of MOVEMENT_MAP/PATTERN_MAP (plus above/below) the function body is abstractly interpreted with "
        "unconstrained arguments (any index, any length/lookback); callees in analysis/utils, utils/candles and Candle properties are inlined. "
        "Every positional read/slice must (R-NORM) be built from the absindex-normalised index or be a single validated raw subscript, "
        "(R-WRAP) be provably >= 0, (R-CAUSAL) be provably <= the evaluated index, and (R-NONE) every ordering/arithmetic on a looked-up "
        "reading must be dominated by a presence test. Entailment is decided in the polyhedra domain (Fourier-Motzkin) after case "
        "splitting on clamps (max/min/conditional expressions). This decides the causality / index-consistency / no-raise-on-missing clauses "
        "for all inputs; what the predicates mean is C17."
    )
    res.assumptions = ["candles is a list of Candle objects; named readings are numbers, dicts or missing", "frozen len(candles) validity guards listed in rules_analysis.FROZEN_LEN_GUARDS"]
    uni = analysis_universe(repo)
    res.universe = {"functions": sorted(uni)}
    res.rule("R-NORM", floor=20, what="positional sites in analysis functions")
    res.rule("R-WRAP", floor=15)
    res.rule("R-CAUSAL", floor=20)
    res.rule("R-NONE", floor=8)
    for k in sorted(uni):
        check_function("C16", res, repo, uni[k])
    check_amorph("C16", res, repo)
    # the functions read candle geometry (realbody, shadows, high_low) and normalise indices through the shared helpers: a cached
    # geometry or an index helper that treats i and i - n differently breaks index consistency for every one of them
    from ..framework_rules import check_candle_geometry_pure
    from .c20 import check_index_contracts

    check_candle_geometry_pure("C16", res, repo)
    from .c17 import check_geometry

    check_geometry(res, repo, prop="C16")
    from .c20 import check_resolver_shape

    check_resolver_shape(res, repo, prop="C16")
    check_index_contracts(res, repo, prop="C16")
    return res
