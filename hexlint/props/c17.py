"""C17 — movement, candle-shape and pattern predicates mean what they document."""
from __future__ import annotations

import ast
from fractions import Fraction
from typing import Dict, List, Set

from .. import poly
from ..absint import BoolV, DictV, NoneV, Num, Obj, Opaque, SeqV, State, c_not, mk_cmp, show_cond
from ..analysis_scope import IDX, RAW, AnalysisInterp, analyse_function, analysis_universe
from ..core import Finding, Result, finding, norm_construct, register
from ..heap import HeapInterp
from ..model import AnalysisError, FuncInfo
from ..structure import call_name, calls_in
from ..poly import A, C, Frac, ONE, ZERO, mk_fn, mk_ite, mk_rd, mk_red, mk_sum

B = ("bv", "B")
BV = Frac.atom(B)


def canon_bv(x):
    """rename the fresh bound variables of a term / condition to B, B1, ... in order of appearance"""
    found = []
    for a in sorted(poly.all_atoms(x) if not isinstance(x, Frac) else poly.all_atoms(x) | x.atoms(), key=repr):
        if a[0] == "bv" and isinstance(a[1], str) and a[1].startswith("#") and a not in found:
            found.append(a)
    mp = {a: Frac.atom(("bv", "B" if i == 0 else f"B{i}")) for i, a in enumerate(found)}
    return poly.subst(x, mp) if mp else x


def _orient(c, facts):
    """a scan that visits its window newest-first and one that visits it oldest-first compare the same positions: re-index every bound
    variable that runs against the list order (negative coefficient in a reading position) by o -> count-1-o"""
    if not isinstance(c, tuple):
        return c
    bounds = {f[1]: f[2] for f in facts if isinstance(f, tuple) and f and f[0] == "bound"}
    mp = {}
    for a in poly.all_atoms(c[2]) if isinstance(c[2], Frac) else []:
        if a[0] == "rd" and isinstance(a[2], Frac):
            v = poly.linear_view(a[2])
            if v is None:
                continue
            for var, coef in v[0].items():
                if var[0] == "bv" and var in bounds and coef < 0 and var not in mp:
                    mp[var] = bounds[var] - ONE - Frac.atom(var)
    if not mp:
        return c
    return (c[0], c[1], poly.subst(c[2], mp)) + tuple(c[3:])


def site_cond(s, orient=False):
    c = mk_cmp(s.data["op"], s.data["lhs"], s.data["rhs"])
    if orient:
        c = _orient(c, s.facts)
    return canon_bv(c) if isinstance(c, tuple) else c


def reading_conds(fa, orient=False) -> Set:
    """orient=True only for predicates that quantify over the whole window (the scan order is irrelevant for 'every previous reading ...')"""
    out = set()
    for s in fa.sites("compare"):
        fr = (s.data["lhs"], s.data["rhs"])
        if any(a[0] in ("rd", "carried", "sum", "lenf", "red") for f in fr for a in poly.all_atoms(f) | f.atoms()):
            c = site_cond(s, orient)
            if isinstance(c, tuple):
                out.add(c)
    return out


def canon_carried(conds: Set) -> Set:
    """loop-carried variables are named after the local that carries them; compare up to that spelling"""
    names = sorted({a[1] for c in conds if isinstance(c, tuple) and c[0] == "cmp" for a in poly.all_atoms(c[2]) if a[0] == "carried"})
    if not names:
        return conds
    mp = {("carried", n): Frac.atom(("carried", f"c{i}")) for i, n in enumerate(names)}
    return {(c[0], c[1], poly.subst(c[2], mp)) + tuple(c[3:]) if isinstance(c, tuple) and c[0] == "cmp" else c for c in conds}


def _show(conds) -> str:
    return "; ".join(sorted(show_cond(c) for c in conds))[:300]


def check_movement(res: Result, repo):
    mv = repo.module("hexital.analysis.movement")
    rule = "R-PRED"

    def fa_of(name):
        if name not in mv.functions:
            raise AnalysisError(f"movement.{name} vanished")
        return analyse_function(repo, mv.functions[name])

    def rd(name, pos):
        return mk_rd(name, pos)

    P = IDX - BV  # scanned position, offset B from the evaluated index
    one, two, ind = "<indicator_one>", "<indicator_two>", "<indicator>"
    expected: Dict[str, Set] = {
        # strict comparison of the two readings at the same (validated) position
        "above": {mk_cmp(">", rd(ind, RAW), rd(two, RAW))},
        "below": {mk_cmp("<", rd(ind, RAW), rd(two, RAW))},
        # a cross = above/below now and the opposite one candle earlier
        "crossover": {mk_cmp(">", rd(one, P), rd(two, P)), mk_cmp("<", rd(one, P - ONE), rd(two, P - ONE)), mk_cmp(">", rd(one, IDX), rd(two, IDX)), mk_cmp("<", rd(one, IDX - ONE), rd(two, IDX - ONE))},
        "crossunder": {mk_cmp("<", rd(one, P), rd(two, P)), mk_cmp(">", rd(one, P - ONE), rd(two, P - ONE)), mk_cmp("<", rd(one, IDX), rd(two, IDX)), mk_cmp(">", rd(one, IDX - ONE), rd(two, IDX - ONE))},
        # highest/lowest bar: update only on strict improvement => most recent extreme wins ties
        "highestbar": {mk_cmp("<", A("carried", "high"), rd(ind, P)), mk_cmp("<", rd(ind, IDX), rd(ind, IDX))},
        "lowestbar": {mk_cmp(">", A("carried", "low"), rd(ind, P)), mk_cmp(">", rd(ind, IDX), rd(ind, IDX))},
    }
    expected["above"] = {mk_cmp(">", rd(ind, RAW), rd("<indicator_two>", RAW))}
    for name, want in expected.items():
        fa = fa_of(name)
        got = canon_carried({c for c in reading_conds(fa)})
        want = canon_carried({c for c in want if isinstance(c, tuple)})
        if got == want:
            res.ok(rule, {"function": name, "comparisons": _show(got)}, nontrivial=name)
        elif not got and name in ("crossover", "crossunder") and any(call_name(c_) in ("above", "below") for c_ in calls_in(fa.fi.node)):
            # nothing was seen at all although the function delegates to other movement functions: the callee could not be followed
            res.errors.append(f"{fa.fi.where} {rule} {name}: no comparison on readings could be extracted through the movement functions it calls; the rule cannot decide it")
        else:
            res.fail(rule, finding("C17", rule, fa.fi, fa.fi.node, f"{name}: the comparisons on readings are [{_show(got)}]; the documented predicate needs exactly [{_show(want)}]", construct=f"{name}: comparisons {_show(got - want)[:120]} / missing {_show(want - got)[:120]}"[:190]))
    # cross: either direction; now strictly different, previously on the other side (or equal)
    fa = fa_of("cross")
    got = reading_conds(fa)
    want = set()
    for pos in (P, IDX):
        want |= {mk_cmp("<", rd(two, pos), rd(one, pos)), mk_cmp("<=", rd(one, pos - ONE), rd(two, pos - ONE)), mk_cmp(">", rd(two, pos), rd(one, pos)), mk_cmp(">=", rd(one, pos - ONE), rd(two, pos - ONE))}
    if got == want:
        res.ok(rule, {"function": "cross", "comparisons": _show(got)}, nontrivial="cross")
    elif not got:
        res.errors.append(f"{fa.fi.where} {rule} cross: no comparison on readings could be extracted (a scan loop / helper the interpreter cannot follow); the rule cannot decide it")
    else:
        res.fail(rule, finding("C17", rule, fa.fi, fa.fi.node, f"cross: comparisons [{_show(got)}] are not 'on one side now and on the other side (or equal) one candle earlier', in either direction", construct=f"cross: {_show(got ^ want)[:150]}"))
    # rising / falling / mean_*: window excludes the current candle, strict comparison against the latest reading
    for name, op in (("rising", ">="), ("falling", "<=")):
        fa = fa_of(name)
        conds = reading_conds(fa, orient=True)
        # `reading >= latest -> False`  (so True requires every previous reading strictly below / above the latest)
        ok = False
        for c in conds:
            for latest_pos in (RAW, IDX):
                for win in (BV + mk_fn("max", IDX - A("cfg", "length"), ZERO), mk_fn("max", IDX - A("cfg", "length"), ZERO)):
                    if c == mk_cmp(op, rd(ind, win), rd(ind, latest_pos)):
                        ok = True
        extra = {c for c in conds if not any(c == mk_cmp(op, rd(ind, win), rd(ind, lp)) for lp in (RAW, IDX) for win in (BV + mk_fn("max", IDX - A("cfg", "length"), ZERO), mk_fn("max", IDX - A("cfg", "length"), ZERO)))}
        # the unrolled first / last iteration of the same scan is an instance of the generic comparison, not an extra one
        _lo = mk_fn("max", IDX - A("cfg", "length"), ZERO)
        _count = IDX - _lo
        inst = set()
        for lp in (RAW, IDX):
            g = mk_cmp(op, rd(ind, BV + _lo), rd(ind, lp))
            if isinstance(g, tuple):
                for k in (ZERO, _count - ONE):
                    x = poly.subst(g, {B: k})
                    inst.add(x if not isinstance(x, tuple) else (x[0], x[1], x[2]))
        extra = {c for c in extra if c not in inst}
        if ok and not extra:
            res.ok(rule, {"function": name, "rejects when": f"previous {op} latest (strict {name})", "window": "[max(index-length,0), index) : current candle excluded"}, nontrivial=name)
        else:
            res.fail(rule, finding("C17", rule, fa.fi, fa.fi.node, f"{name}: must return False as soon as a previous reading is {op} the latest one (strict); found comparisons [{_show(conds)}]", construct=f"{name}: {_show(conds)[:150]}"))
    for name, op in (("mean_rising", "<"), ("mean_falling", ">")):
        fa = fa_of(name)
        conds = reading_conds(fa)
        good = [c for c in conds if c[0] == "cmp" and c[1] == "<" and any(a[0] == "sum" for a in poly.all_atoms(c[2])) and any(a[0] == "lenf" for a in poly.all_atoms(c[2]))]
        ok = False
        if len(good) == 1 and len(conds) == 1:
            d = good[0][2]
            # d < 0 where d = mean - latest (rising) or latest - mean (falling)
            lat = [a for a in d.n.atoms() if a[0] == "rd" and a[2] in (IDX, RAW)]
            if lat:
                # coefficient sign of the latest reading in the numerator decides the direction
                coef = sum(c for m, c in d.n.t.items() if any(a == lat[0] for a, _ in m))
                ok = (coef < 0) if name == "mean_rising" else (coef > 0)
        if ok:
            res.ok(rule, {"function": name, "predicate": "mean(cleaned previous window) " + op + " latest (strict)"}, nontrivial=name)
        else:
            res.fail(rule, finding("C17", rule, fa.fi, fa.fi.node, f"{name}: the result must be the strict comparison mean(previous window) {op} latest; found [{_show(conds)}]", construct=f"{name}: {_show(conds)[:150]}"))
    # windows: which functions include the current candle
    for name, incl in (("rising", False), ("falling", False), ("mean_rising", False), ("mean_falling", False), ("highest", True), ("lowest", True), ("value_range", True)):
        fa = fa_of(name)
        sl = list(fa.sites("slice"))
        want_hi = IDX + ONE if incl else IDX
        want_lo = mk_fn("max", IDX - A("cfg", "length"), ZERO)
        if sl and all(s.data["hi"] == want_hi and s.data["lo"] == want_lo for s in sl):
            res.ok("R-WINDOW", {"function": name, "window": f"[max(index-length,0), index{'+1' if incl else ''})", "includes current": incl}, nontrivial=f"{name}:window")
        else:
            res.fail("R-WINDOW", finding("C17", "R-WINDOW", fa.fi, sl[0].node if sl else fa.fi.node, f"{name}: window must be the `length` candles before the current one{' plus the current one' if incl else ''}; found {[(repr(s.data['lo']), repr(s.data['hi'])) for s in sl]}", construct=f"{name}: window"))
    # cleaned windows drop missing and dict values before any comparison
    gc = fa_of("_get_clean_readings")
    filt_ok = False
    for p in gc.paths:
        if isinstance(p.ret, SeqV) and isinstance(p.ret.filt, tuple):
            f = canon_bv(p.ret.filt)
            a = [x for x in poly.all_atoms(f) if x[0] == "rd"]
            if f[0] == "and" and {c[0] for c in f[1:]} == {"present", "isnum"}:
                filt_ok = True
            else:
                filt_ok = False
                res.fail(rule, finding("C17", rule, gc.fi, gc.fi.node, f"_get_clean_readings keeps readings by the test {show_cond(f)[:120]}: it must keep exactly the numbers (isinstance(reading, (float, int))), so that 0 is kept and None/dicts are dropped", construct=f"_get_clean_readings filter: {show_cond(f)[:120]}"))
                break
    if filt_ok:
        res.ok(rule, {"function": "_get_clean_readings", "keeps": "numbers only (isinstance float/int): missing and dict readings are ignored, 0 is a value"}, nontrivial="clean")
    elif not any(isinstance(p.ret, SeqV) for p in gc.paths):
        res.fail(rule, finding("C17", rule, gc.fi, gc.fi.node, "_get_clean_readings no longer returns the filtered window", construct="_get_clean_readings: result"))
    # the bar scans visit the current candle and the `length - 1` candles before it, down to candle 0
    for name in ("highestbar", "lowestbar"):
        fa = fa_of(name)
        counts = [s.data.get("count") for s in fa.sites("loop") if s.data.get("what") == "for"]
        want_n = IDX - mk_fn("max", IDX - A("cfg", "length"), -ONE)
        def _same_count(c):
            if c == want_n or c.same(want_n):
                return True
            from ..facts import prove_ge0 as _pg

            return _pg(c - want_n, (), []) and _pg(want_n - c, (), [])

        if counts and all(c is not None and _same_count(c) for c in counts):
            res.ok("R-WINDOW", {"function": name, "scan": "index, index-1, ... while > max(index - length, -1): candle 0 included"}, nontrivial=f"{name}:window")
        elif counts and all(c is not None for c in counts):
            res.fail("R-WINDOW", finding("C17", "R-WINDOW", fa.fi, fa.fi.node, f"{name}: the scan visits {counts[0]!r} candles, not index - max(index - length, -1): the oldest candle of a window that starts at candle 0 is left out (or the window is longer than `length`)", construct=f"{name}: window"))
        else:
            res.errors.append(f"{fa.fi.where}: {name}: cannot derive how many candles the scan visits")
    # reductions
    for name, kind in (("highest", "max"), ("lowest", "min")):
        fa = fa_of(name)
        reds = {a[1] for p in fa.paths for a in _atoms_of(p.ret) if a[0] == "red"}
        plain = [p for p in fa.paths if any(a[0] == "rd" for a in _atoms_of(p.ret)) and not any(a[0] == "red" for a in _atoms_of(p.ret))]
        if plain:
            res.fail(rule, finding("C17", rule, fa.fi, plain[0].node if getattr(plain[0], "node", None) is not None else fa.fi.node, f"{name}: a path returns a single reading instead of the {kind} over the window (a special case for one window length): the window always includes the current candle and the `length` candles before it", construct=f"{name}: special-cased window"))
        elif reds == {kind}:
            res.ok(rule, {"function": name, "reduction": f"{kind} over the cleaned window (None when empty)"}, nontrivial=f"{name}:red")
        else:
            res.fail(rule, finding("C17", rule, fa.fi, fa.fi.node, f"{name} must be the {kind} of the cleaned window; found reductions {sorted(reds)}", construct=f"{name}: reduction"))
    fa = fa_of("value_range")
    ok = False
    for p in fa.paths:
        if isinstance(p.ret, Num):
            a = poly._single_atom(p.ret.f)
            if a is not None and a[0] == "fn" and a[1] == "abs":
                kinds = sorted(x[1] for x in poly.all_atoms(a[2]) if x[0] == "red")
                ok = kinds == ["max", "min"]
    if ok:
        res.ok(rule, {"function": "value_range", "value": "|min - max| of the cleaned window"}, nontrivial="value_range")
    else:
        res.fail(rule, finding("C17", rule, fa.fi, fa.fi.node, "value_range must be |min - max| of the cleaned window", construct="value_range: value"))
    for name, op in (("positive", "<"), ("negative", ">")):
        fa = fa_of(name)
        vals = {show_cond(canon_bv(p.ret.cond)) for p in fa.paths if isinstance(p.ret, BoolV) and isinstance(p.ret.cond, tuple) and p.ret.cond[0] == "cmp"}
        want = show_cond(mk_cmp(op, mk_rd("open", RAW), mk_rd("close", RAW)))
        if vals == {want}:
            res.ok(rule, {"function": name, "predicate": f"open {op} close"}, nontrivial=name)
        else:
            res.fail(rule, finding("C17", rule, fa.fi, fa.fi.node, f"{name} must be open {op} close of the addressed candle; found {sorted(vals)}", construct=f"{name}: predicate"))


def check_movement_contracts(prop: str, res: Result, repo):
    """the part of the movement predicates that indicator formulas rely on (Donchian/HL: highest/lowest windows and
    reductions; Aroon: highestbar/lowestbar scan from offset 0 with strict improvement = most recent extreme on ties)"""
    tmp = Result(prop, res.tier)
    check_movement(tmp, repo)
    keep = ("highest", "lowest", "highestbar", "lowestbar", "_get_clean_readings")
    for f in tmp.findings:
        if any(f.function == k or f.construct.startswith(k + ":") for k in keep):
            res.fail("R-CONTRACT", Finding(prop, "R-CONTRACT", f.module, f.function, f.construct, f.message, f.line))
    n = sum(1 for s_ in tmp.samples)
    if not any(any(f.function == k or f.construct.startswith(k + ":") for k in keep) for f in tmp.findings):
        res.ok("R-CONTRACT", {"helpers": list(keep), "why": "windows, reductions, clean-window filter and tie rule equal the contracts the formulas are compared under"}, nontrivial="movement-contracts")


def _atoms_of(v):
    if isinstance(v, Num):
        return poly.all_atoms(v.f) | v.f.atoms()
    if isinstance(v, Obj) and v.kind == "ite":
        out = set()
        for x in v.data[1:]:
            out |= _atoms_of(x)
        return out
    return set()


# ---------------------------------------------------------------------------
# candle geometry


def check_geometry(res: Result, repo, prop="C17"):
    rule = "R-GEOM"
    ci = repo.cls("hexital.core.candle", "Candle")
    o, h, l, c = (A("attr", "self", f) for f in ("open", "high", "low", "close"))
    pos_c = mk_cmp("<", o, c)

    class GI(HeapInterp):
        def attr(self, st, base, name, node):
            if isinstance(base, Obj) and base.kind == "obj" and base.data == "self" and name in ("positive", "negative"):
                return BoolV(mk_cmp("<", o, c) if name == "positive" else mk_cmp(">", o, c))
            return super().attr(st, base, name, node)

    def run(name):
        m = ci.methods.get(name)
        if m is None:
            raise AnalysisError(f"Candle.{name} vanished")
        it = GI(repo, ci.module)
        st = State()
        st.env["self"] = Obj("obj", "self")
        return m, it.run(m.node, st)

    simple = {
        "positive": BoolV(mk_cmp("<", o, c)),
        "negative": BoolV(mk_cmp(">", o, c)),
        "realbody": Num(mk_fn("abs", o - c)),
        "high_low": Num(mk_fn("abs", h - l)),
    }
    for name, want in simple.items():
        m, paths = run(name)
        if len(paths) == 1 and repr(paths[0].ret) == repr(want) and not paths[0].state.heap:
            res.ok(rule, {"property": name, "value": repr(want)}, nontrivial=name)
        else:
            res.fail(rule, finding(prop, rule, m, m.node, f"Candle.{name} must be {want!r} (computed from the current prices on every access); found {[repr(p.ret) for p in paths]}", construct=f"Candle.{name}"))
    # shadows: guarded forms, equal to high - max(o,c) / min(o,c) - low for well-formed candles (case lemma)
    for name, when_pos, otherwise in (("shadow_upper", mk_fn("abs", h - c), mk_fn("abs", h - o)), ("shadow_lower", mk_fn("abs", l - o), mk_fn("abs", l - c))):
        m, paths = run(name)

        def under(f: Frac, positive: bool) -> Frac:
            """resolve max/min of (open, close) for a positive (open < close) resp. non-positive candle"""
            mp = {}
            for a in poly.all_atoms(f):
                if a[0] == "fn" and a[1] in ("max", "min") and len(a) == 4 and {a[2], a[3]} == {o, c}:
                    hi, lo = (c, o) if positive else (o, c)
                    mp[a] = hi if a[1] == "max" else lo
                elif a[0] == "ite" and len(a) == 4:
                    # a value chosen by the candle's direction (`close if self.positive else open`): decided in each case
                    cp, sw = poly._canon_polarity(pos_c)
                    if a[1] == cp:
                        holds = positive != sw
                        mp[a] = a[2] if holds else a[3]
            g = poly.subst(f, mp) if mp else f
            return under(g, positive) if mp and g != f and any(x[0] == "ite" for x in poly.all_atoms(g)) else g

        ok = bool(paths)
        for p in paths:
            if not isinstance(p.ret, Num):
                ok = False
                continue
            cases = [True] if pos_c in p.state.facts else [False] if c_not(pos_c) in p.state.facts else [True, False]
            for is_pos in cases:
                w = when_pos if is_pos else otherwise
                got = under(p.ret.f, is_pos)
                if not (got == w or got.same(w)):
                    ok = False
        if ok:
            res.ok(rule, {"property": name, "positive candle": repr(when_pos), "otherwise": repr(otherwise), "lemma": "equals high - max(open, close) resp. min(open, close) - low for low <= open,close <= high"}, nontrivial=name)
        else:
            res.fail(rule, finding(prop, rule, m, m.node, f"Candle.{name} must be {when_pos!r} for a positive candle and {otherwise!r} otherwise; found {[(show_cond(p.state.facts[-1]) if p.state.facts else '', repr(p.ret)) for p in paths]}", construct=f"Candle.{name}"))


# ---------------------------------------------------------------------------
# pattern clause sets


HL10 = "(sum(candles[j].high_low for j in range((0 if {i} + 1 - 10 < 0 else {i} + 1 - 10), {i} + 1)) / 10)"
HL5 = "(sum(candles[j].high_low for j in range((0 if {i} + 1 - 5 < 0 else {i} + 1 - 5), {i} + 1)) / 5)"
RB10 = "(sum(candles[j].realbody for j in range((0 if {i} + 1 - 10 < 0 else {i} + 1 - 10), {i} + 1)) / 10)"


def _m(t, i):
    return t.format(i=i)


# the documented shape of each pattern, clause by clause (TA-Lib thresholds quoted in analysis/utils.py docstrings)
PATTERN_CLAUSES = {
    "doji": [f"candles[i].realbody < {_m(HL10, 'i')} * 0.1"],
    "dojistar": [
        f"candles[i - 1].realbody > {_m(RB10, '(i - 1)')} * 1.0",
        f"candles[i].realbody <= {_m(HL10, 'i')} * 0.1",
        "(candles[i - 1].positive and min(candles[i].open, candles[i].close) > max(candles[i - 1].open, candles[i - 1].close)) or "
        "(candles[i - 1].negative and max(candles[i].open, candles[i].close) < min(candles[i - 1].open, candles[i - 1].close))",
    ],
    "hammer": [
        f"candles[i].realbody < {_m(RB10, 'i')} * 1.0",
        "candles[i].shadow_lower > candles[i].realbody",
        f"candles[i].shadow_upper < {_m(HL10, 'i')} * 0.1",
        f"min(candles[i].close, candles[i].open) <= candles[i - 1].low + {_m(HL5, '(i - 1)')} * 0.2",
    ],
    "inverted_hammer": [
        f"candles[i].realbody < {_m(RB10, 'i')} * 1.0",
        "candles[i].shadow_upper > candles[i].realbody",
        f"candles[i].shadow_lower < {_m(HL10, 'i')} * 0.1",
        "max(candles[i].open, candles[i].close) < min(candles[i - 1].open, candles[i - 1].close)",
    ],
}


def _flatten_and(c):
    if isinstance(c, tuple) and c[0] == "and":
        out = []
        for x in c[1:]:
            out.extend(_flatten_and(x))
        return out
    return [c]


def _norm_cond(c):
    """order-insensitive normal form of and/or trees"""
    if isinstance(c, tuple) and c[0] in ("and", "or"):
        parts = sorted({repr(_norm_cond(x)) for x in c[1:]})
        return (c[0],) + tuple(parts)
    return c


def pattern_clauses(repo, fi: FuncInfo):
    """clauses of the inner predicate of a pattern function, as canonical conditions over candles[i +/- k]"""
    inner = [n for n in fi.node.body if isinstance(n, ast.FunctionDef)]
    it = AnalysisInterp(repo, fi)
    it.if_convert = True
    st = State()
    st.env["candles"] = Obj("candles")
    if len(inner) == 1:
        fn = inner[0]
        body_stmts = fn.body
        params = [a.arg for a in fn.args.args]
        st.env[params[0]] = Num(A("sym", "i"))
    else:
        # the predicate written out in the single-candle arm (`if lookback is None: ...`) of the pattern function itself (e.g. after the
        # predicate was hoisted to a module-level helper, which the loader inlines)
        fparams = [a.arg for a in fi.node.args.args]
        arms = [n for n in fi.node.body if isinstance(n, ast.If) and isinstance(n.test, ast.Compare) and len(n.test.ops) == 1 and isinstance(n.test.ops[0], ast.Is) and isinstance(n.test.left, ast.Name) and n.test.left.id in fparams and isinstance(n.test.comparators[0], ast.Constant) and n.test.comparators[0].value is None]
        idx_vars = [n.targets[0].id for n in fi.node.body if isinstance(n, ast.Assign) and len(n.targets) == 1 and isinstance(n.targets[0], ast.Name) and isinstance(n.value, ast.Call) and ast.unparse(n.value.func).endswith("absindex")]
        if len(arms) != 1 or len(idx_vars) != 1:
            raise AnalysisError(f"{fi.where}: pattern {fi.name} has neither an inner predicate function nor a single-candle arm the analysis can find")
        body_stmts = arms[0].body
        st.env[idx_vars[0]] = Num(A("sym", "i"))
    guard = None
    test = None
    extra_terms = []  # `if not <term>: return False` guard clauses after the history guard: each is one conjunct of the predicate
    for s in body_stmts:
        if isinstance(s, ast.If) and all(isinstance(x, ast.Return) for x in s.body) and not s.orelse:
            r = s.body[0]
            if isinstance(r.value, ast.Constant) and r.value.value is False:
                if guard is None:
                    guard = it.expr(s.test, st)
                else:
                    extra_terms.append(it.expr(ast.copy_location(ast.UnaryOp(op=ast.Not(), operand=s.test), s.test), st))
                continue
            if isinstance(r.value, ast.Constant) and r.value.value is True:
                test = it.expr(s.test, st)
                continue
        if isinstance(s, ast.Assign):
            for blk in it.stmt(s, st):
                pass
            continue
        if isinstance(s, ast.Return):
            if isinstance(s.value, ast.Constant) and s.value.value is False:
                continue
            if isinstance(s.value, ast.Constant) and s.value.value is True and extra_terms:
                test = extra_terms.pop()
                continue
            test = it.expr(s.value, st)
            continue
        raise AnalysisError(f"{fi.where}: unmodelled statement in the inner predicate of {fi.name}: {ast.unparse(s)[:60]}")
    if test is None:
        raise AnalysisError(f"{fi.where}: cannot find the predicate expression of {fi.name}")
    cond = it.truth(test, st, fi.node)
    clauses = list(_flatten_and(cond))
    for t_ in extra_terms:
        clauses.extend(_flatten_and(it.truth(t_, st, fi.node)))
    return guard, [canon_bv(c) if isinstance(c, tuple) else c for c in clauses]


def ref_clauses(repo, fi: FuncInfo, name: str):
    it = AnalysisInterp(repo, fi)
    it.if_convert = True
    out = []
    for src in PATTERN_CLAUSES[name]:
        st = State()
        st.env["candles"] = Obj("candles")
        st.env["i"] = Num(A("sym", "i"))
        v = it.expr(ast.parse(src, mode="eval").body, st)
        c = it.truth(v, st, None)
        out.append(canon_bv(c) if isinstance(c, tuple) else c)
    return out


def _same_predicate(got, want) -> bool:
    """the two conjunctions are the same boolean function of their comparisons.  Every comparison is `e <op> 0` for some expression e;
    comparisons over the same e (up to sign) are tied together through the sign of e (negative / zero / positive), different
    expressions are treated as independent (so a `True` here is a proof; a `False` only means the clause sets have to match)"""
    import itertools

    bases, flags = {}, {}

    def leaves(c):
        if isinstance(c, tuple) and c and c[0] in ("and", "or", "not"):
            for x in c[1:]:
                leaves(x)
        elif isinstance(c, tuple) and c and c[0] == "cmp":
            try:
                a, b = repr(c[2]), repr(-c[2])
            except Exception:
                flags.setdefault(repr(c), None)
                return
            bases.setdefault(min(a, b), None)
        elif isinstance(c, bool):
            pass
        else:
            flags.setdefault(repr(c), None)

    for c in list(got) + list(want):
        leaves(c)
    if 3 ** len(bases) * 2 ** len(flags) > 60000:
        return False
    bk, fk = sorted(bases), sorted(flags)

    def ev(c, sb, fb):
        if isinstance(c, bool):
            return c
        if isinstance(c, tuple) and c and c[0] == "and":
            return all(ev(x, sb, fb) for x in c[1:])
        if isinstance(c, tuple) and c and c[0] == "or":
            return any(ev(x, sb, fb) for x in c[1:])
        if isinstance(c, tuple) and c and c[0] == "not":
            return not ev(c[1], sb, fb)
        if isinstance(c, tuple) and c and c[0] == "cmp":
            try:
                a, b = repr(c[2]), repr(-c[2])
            except Exception:
                return fb[repr(c)]
            s = sb[min(a, b)] * (1 if a <= b else -1)
            return {"<": s < 0, "<=": s <= 0, ">": s > 0, ">=": s >= 0, "==": s == 0, "!=": s != 0}[c[1]]
        return fb[repr(c)]

    for signs in itertools.product((-1, 0, 1), repeat=len(bk)):
        sb = dict(zip(bk, signs))
        for bits in itertools.product((False, True), repeat=len(fk)):
            fb = dict(zip(fk, bits))
            if all(ev(c, sb, fb) for c in got) != all(ev(c, sb, fb) for c in want):
                return False
    return True


def check_patterns(res: Result, repo):
    rule = "R-CLAUSES"
    pm = repo.dict_literal("hexital.analysis", "PATTERN_MAP")
    seen = set()
    for key, fi in sorted(pm.items()):
        if not isinstance(fi, FuncInfo) or fi.name in seen:
            continue
        seen.add(fi.name)
        if fi.name not in PATTERN_CLAUSES:
            res.errors.append(f"pattern {fi.name} has no documented clause table in props/c17.py")
            continue
        guard, got = pattern_clauses(repo, fi)
        want = ref_clauses(repo, fi, fi.name)
        gs = {repr(_norm_cond(c)) for c in got}
        ws = {repr(_norm_cond(c)) for c in want}
        if gs == ws or _same_predicate(got, want):
            res.ok(rule, {"pattern": fi.name, "clauses": len(got), "documented": PATTERN_CLAUSES[fi.name]}, nontrivial=fi.name)
        else:
            missing = [PATTERN_CLAUSES[fi.name][k][:90] for k, c in enumerate(want) if repr(_norm_cond(c)) not in gs]
            extra = [show_cond(c)[:140] for c in got if repr(_norm_cond(c)) not in ws]
            res.fail(rule, finding("C17", rule, fi, fi.node, f"{fi.name} is not the conjunction of its documented clauses: missing/changed {missing}; unexpected {extra}", construct=f"{fi.name}: clause set ({len(got)} clauses; changed: {'; '.join(missing)[:120]})"))
        g = guard.cond if isinstance(guard, BoolV) else None
        if g == mk_cmp("<", A("sym", "i"), C(10)):
            res.ok(rule, {"pattern": fi.name, "needs": "10 candles of history"})
        else:
            res.fail(rule, finding("C17", rule, fi, fi.node, f"{fi.name}: the 'fewer than 10 previous candles' guard changed ({show_cond(g) if g is not None else guard!r})", construct=f"{fi.name}: history guard"))
        # ---- units: every comparison is homogeneous of degree 1 in prices and shift invariant
        for c in got:
            for cmp_ in _cmps(c):
                u = unit_of(cmp_[2])
                if u == "DELTA":
                    res.ok("R-UNITS", {"pattern": fi.name, "comparison": show_cond(cmp_)[:110], "both sides": "price differences (scale by a, unaffected by a shift)"}, nontrivial=f"{fi.name}:{show_cond(cmp_)[:60]}")
                else:
                    res.fail("R-UNITS", finding("C17", "R-UNITS", fi, fi.node, f"{fi.name}: the comparison {show_cond(cmp_)[:140]} mixes units ({u}): it changes when all prices are scaled or shifted", construct=f"{fi.name}: units of {show_cond(cmp_)[:120]}"))


def _cmps(c):
    if isinstance(c, tuple):
        if c[0] == "cmp":
            yield c
        elif c[0] in ("and", "or", "not"):
            for x in c[1:]:
                yield from _cmps(x)


PRICE_FIELDS = ("open", "high", "low", "close")


def _unit_atom(a):
    """-> (degree, shift) ; shift is a Frac (coefficient of the translation b), None if ill-typed"""
    tag = a[0]
    if tag in ("cfg", "sym", "bv", "t", "n", "idx", "raw", "lenf"):
        return 0, ZERO
    if tag == "rd":
        if a[1] in PRICE_FIELDS:
            return 1, ONE
        return None
    if tag == "attr":
        return (1, ONE) if a[2] in PRICE_FIELDS else None
    if tag == "fn":
        if a[1] == "abs":
            u = unit_frac(a[2])
            return (1, ZERO) if u is not None and u[0] == 1 and u[1].is_zero() else None
        if a[1] in ("max", "min"):
            us = [unit_frac(x) for x in a[2:]]
            if any(u is None for u in us):
                return None
            if all(u[0] == us[0][0] and u[1] == us[0][1] for u in us):
                return us[0]
            return None
        return None
    if tag == "sum":
        u = unit_frac(a[3])
        if u is None:
            return None
        return u[0], u[1] * a[2]
    if tag == "ite":
        ua, ub = unit_frac(a[2]), unit_frac(a[3])
        if ua is None or ub is None or ua[0] != ub[0] or ua[1] != ub[1]:
            return None
        return ua
    return None


def unit_frac(f: Frac):
    if not f.d.is_const():
        ud = unit_poly(f.d)
        if ud is None or ud[0] != 0:
            return None
    un = unit_poly(f.n)
    if un is None:
        return None
    return un[0], un[1] / Frac(f.d)


def unit_poly(p):
    deg = None
    shift = ZERO
    for m, c in p.t.items():
        d, s = 0, None
        coef = C(c)
        for a, e in m:
            u = _unit_atom(a)
            if u is None or e < 0 and u[0] != 0:
                return None
            if u[0] == 0:
                x = Frac.atom(a)
                for _ in range(abs(e)):
                    coef = coef * x if e > 0 else coef / x
            else:
                if e != 1:
                    return None
                d += 1
                s = u[1]
        if d > 1:
            return None
        if deg is None:
            deg = d
        elif deg != d:
            return None
        if d == 1:
            shift = shift + coef * s
    return (deg or 0), shift


def unit_of(f: Frac) -> str:
    u = unit_frac(f)
    if u is None:
        return "ill-typed"
    if u[0] == 0:
        return "SCALAR"
    return "DELTA" if u[1].is_zero() else f"PRICE(shift {u[1]!r})"


@register("C17")
def run(repo, tier) -> Result:
    res = Result("C17", tier)
    res.explanation = (
        "Decided: (R-PRED/R-WINDOW) for every movement function the comparisons it performs on readings (extracted from the abstract interpretation, callees inlined) are exactly the documented ones: above/below strict at the same position; "
        "rising/falling reject as soon as a previous reading is >= / <= the latest (strict), mean_* compare the mean of the cleaned previous window strictly, windows of rising/falling/mean_* exclude and those of highest/lowest/value_range include the current candle; "
        "highestbar/lowestbar update only on strict improvement while scanning from offset 0 (most recent extreme on ties); crossover = above now and below one candle earlier (crossunder mirrored, cross either way); cleaned windows keep exactly the numbers (0 is a value, None/dicts are dropped). "
        "(R-GEOM) body, range, shadows and positive/negative equal their documented formulas and are computed from the current prices on every access. (R-CLAUSES) each pattern's inner predicate is the conjunction of exactly its documented clauses "
        "(doji 1, dojistar 3, hammer 4, inverted hammer 4), each clause compared as a value number with the documented expression lowered by the same front end. (R-UNITS) every comparison in a pattern is homogeneous of degree one in prices with zero translation "
        "coefficient, hence invariant under x -> a*x + b, a > 0, in exact arithmetic. Not decided: behaviour 'with a clear margin' on constructed witnesses (an evaluation)."
    )
    res.assumptions = ["exact arithmetic for the invariance clause", "well-formed candles for the shadow lemma"]
    check_movement(res, repo)
    check_geometry(res, repo)
    check_patterns(res, repo)
    res.universe = {"movement": sorted(f for f in repo.module("hexital.analysis.movement").functions), "patterns": sorted(PATTERN_CLAUSES)}
    res.rule("R-PRED", floor=15)
    res.rule("R-CLAUSES", floor=8)
    res.rule("R-UNITS", floor=12)
    res.rule("R-GEOM", floor=6)
    # "the candle before" must be a real earlier candle and "the window" must end at the evaluated candle: positions of every read
    from ..analysis_scope import analysis_universe
    from ..rules_analysis import check_function

    for name, fi in sorted(analysis_universe(repo).items()):
        check_function("C17", res, repo, fi, want=("R-WRAP", "R-CAUSAL"))
    # the readings the predicates compare are resolved by name through the one resolver (fields, derived candle measures, indicators)
    from .c20 import check_resolver_shape

    check_resolver_shape(res, repo, prop="C17")
    return res
