"""C18 — timeframe bucketing does not depend on the process time zone (closed-world effect analysis, R-TZ)."""
from __future__ import annotations

import ast

from ..core import Result, finding, norm_construct, register
from ..model import AnalysisError, FuncInfo, Repo

ALLOWED_MODULES = {"__future__", "abc", "copy", "dataclasses", "datetime", "enum", "inspect", "math", "typing"}
# standard-library modules that offer no way to observe the process zone (reviewed once; listed so that an ordinary refactor that
# starts using one of them is not an analysis error). `datetime` itself is allowed: its zone-dependent *methods* are the R-TZ rule.
ALLOWED_MODULES |= {
    "functools", "itertools", "collections", "operator", "statistics", "numbers", "decimal", "fractions", "bisect", "heapq", "re", "json",
    "warnings", "contextlib", "types", "string", "random", "array", "weakref", "sys", "uuid", "hashlib", "pprint", "textwrap", "logging",
    "typing_extensions", "cmath", "struct", "io", "csv", "pathlib",
}
# modules through which the process zone / environment is reachable; any *use* is a finding
ZONE_MODULES = {"time", "locale", "os", "tzlocal", "dateutil", "pytz", "zoneinfo", "calendar", "pandas", "numpy", "subprocess", "platform"}
# attribute-call names that consult the process-local zone
ALWAYS = {
    "timestamp": "datetime.timestamp() interprets a naive datetime in the process-local zone",
    "fromtimestamp": "fromtimestamp() without an explicit tz converts to the process-local zone",
    "astimezone": "astimezone() interprets a naive datetime in the process-local zone (and converts to it when called without tz)",
    "mktime": "time.mktime() interprets its argument in the process-local zone",
    "localtime": "time.localtime() converts to the process-local zone",
    "today": "today() reads the local clock",
    "tzset": "time.tzset() changes the process zone",
}
NOW = {"now": "now() without tz reads the local clock", "utcnow": "utcnow() reads the clock"}

POSITIVE_EXAMPLE = '''
from datetime import datetime
import time
def f(ts, tf):
    a = datetime.fromtimestamp(ts.timestamp() // tf.total_seconds() * tf.total_seconds())
    b = datetime.now()
    c = ts.astimezone()
    d = time.mktime(ts.timetuple())
    return a, b, c, d
'''


def tz_calls(tree: ast.AST):
    out = []
    for n in ast.walk(tree):
        if not isinstance(n, ast.Call):
            continue
        f = n.func
        name = f.attr if isinstance(f, ast.Attribute) else (f.id if isinstance(f, ast.Name) else None)
        if name is None:
            continue
        kw = {k.arg for k in n.keywords}
        if name in ALWAYS:
            if name == "fromtimestamp" and (len(n.args) >= 2 or "tz" in kw):
                tzarg = n.args[1] if len(n.args) >= 2 else next(k.value for k in n.keywords if k.arg == "tz")
                # an explicit zone object is fine; `x.tzinfo` of a naive timestamp is None, and fromtimestamp(s, None) is process-local time
                if isinstance(tzarg, ast.Attribute) and tzarg.attr == "tzinfo" or (isinstance(tzarg, ast.Constant) and tzarg.value is None):
                    out.append((n, "fromtimestamp(s, tz) with the tzinfo of a (possibly naive) timestamp: tz=None converts to the process-local zone"))
                continue
            if name == "timestamp" and (n.args or n.keywords):
                continue
            out.append((n, ALWAYS[name]))
        elif name in NOW and isinstance(f, ast.Attribute):
            if name == "now" and (n.args or "tz" in kw):
                tzarg = n.args[0] if n.args else next(k.value for k in n.keywords if k.arg == "tz")
                # an explicit zone object is fine; `x.tzinfo` of a naive timestamp is None, which falls back to the process-local clock
                if isinstance(tzarg, ast.Attribute) and tzarg.attr == "tzinfo" or (isinstance(tzarg, ast.Constant) and tzarg.value is None):
                    out.append((n, "now(tz) with the tzinfo of a (possibly naive) timestamp: tz=None reads the process-local wall clock"))
                continue
            out.append((n, NOW[name]))
        elif isinstance(f, ast.Attribute) and isinstance(f.value, ast.Name) and f.value.id in ("time", "os", "locale"):
            out.append((n, f"call into the process-state module {f.value.id}"))
    for n in ast.walk(tree):
        if isinstance(n, ast.Attribute) and isinstance(n.value, ast.Name) and n.value.id == "os" and n.attr in ("environ", "getenv"):
            out.append((n, "reads the process environment"))
        if isinstance(n, ast.Attribute) and isinstance(n.value, ast.Name) and n.value.id == "time" and n.attr in ("timezone", "altzone", "tzname", "daylight"):
            out.append((n, "reads the process zone offset"))
    return out


@register("C18")
def run(repo, tier) -> Result:
    res = Result("C18", tier)
    res.explanation = (
        "Closed-world effect analysis: the process time zone can influence bucket edges only through a zone-dependent API. (a) the import closure of the "
        "package must stay inside a reviewed allow-list (a new module is an analysis error until classified; a module that exposes the process zone/environment "
        "is reported when imported); (b) no call of datetime.timestamp()/fromtimestamp() without tz/now()/today()/astimezone()/time.*/os.environ anywhere in the "
        "package (matched on Call nodes, so the attribute candle.timestamp is not confused with the call x.timestamp()). With (a) and (b) there is no channel for TZ. "
        "The rule's expected count is zero, so a built-in positive example is analysed on every run and must match."
    )
    res.assumptions = ["timestamps are naive datetimes or carry their own tzinfo", "the standard-library modules on the allow-list do not consult TZ except through the listed APIs"]
    # positive example must fire
    pos = tz_calls(ast.parse(POSITIVE_EXAMPLE))
    if len(pos) < 5:
        res.errors.append(f"R-TZ self-test: positive example matched {len(pos)} < 5 sites")
    n_calls = 0
    mods = []
    for name, mi in sorted(repo.modules.items()):
        mods.append(name)
        for ext in sorted(mi.ext_imports):
            if ext in ALLOWED_MODULES or ext == repo.package:
                res.ok("R-TZ-IMPORT", {"module": name, "import": ext})
            elif ext in ZONE_MODULES:
                imp = next((n for n in ast.walk(mi.tree) if isinstance(n, (ast.Import, ast.ImportFrom)) and ext in ast.unparse(n)), None)
                res.fail("R-TZ-IMPORT", finding("C18", "R-TZ-IMPORT", mi, imp, f"imports {ext}, a module through which the process time zone / environment is reachable", construct=f"import {ext}"))
            else:
                res.errors.append(f"{mi.relpath}: new import {ext!r}: classify the module in props/c18.py (allowed or zone-dependent)")
        n_calls += sum(1 for n in ast.walk(mi.tree) if isinstance(n, ast.Call))
        hits = tz_calls(mi.tree)
        # attribute each hit to its enclosing function
        for node, why in hits:
            owner = None
            for fi in repo.all_functions():
                if fi.module is mi and fi.node.lineno <= node.lineno <= getattr(fi.node, "end_lineno", fi.node.lineno):
                    if owner is None or fi.node.lineno >= owner.node.lineno:
                        owner = fi
            res.fail("R-TZ", finding("C18", "R-TZ", owner or mi, node, why))
        if not hits:
            res.ok("R-TZ", {"module": name, "calls_scanned": sum(1 for n in ast.walk(mi.tree) if isinstance(n, ast.Call)), "zone_dependent_calls": 0}, nontrivial=name if "timeframe" in name or "candle" in name else None)
    # the two bucket-edge helpers must exist (anchors) and use one epoch expression
    tf = repo.module("hexital.utils.timeframe")
    for fn in ("round_down_timestamp", "on_timeframe", "clean_timestamp", "timeframe_to_timedelta"):
        if fn not in tf.functions and not isinstance(repo.resolve(tf, fn), FuncInfo):
            res.errors.append(f"anchor vanished: hexital.utils.timeframe.{fn}")
    res.universe = {"modules": mods, "call_nodes_scanned": n_calls, "positive_example_sites": len(pos)}
    res.rule("R-TZ", floor=40, what="modules scanned")
    return res
