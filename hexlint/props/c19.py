"""C19 — reading state and converting input have no hidden side effects (R-EFFECT, R-DISPATCH)."""
from __future__ import annotations

import ast

from ..core import Result, finding, norm_construct, register
from ..driver import check_append_order
from ..effects import Effects
from ..model import AnalysisError
from ..structure import call_name, call_target, calls_in

READ_ONLY = {
    ("hexital.core.indicator", "Indicator"): ["__str__", "name", "settings", "has_reading", "prior_calc", "candle_manager", "as_list", "reading", "prev_reading", "prev_exists",
                                              "read_candle", "reading_count", "reading_period", "candles_sum", "_find_calc_index"],
    ("hexital.indicators.amorph", "Amorph"): ["settings", "_generate_name"],
    ("hexital.core.hexital", "Hexital"): ["candles", "get_candles", "timeframes", "indicators", "indicator", "indicator_settings", "has_reading", "reading", "prev_reading", "reading_as_list"],
    ("hexital.core.candle", "Candle"): ["__repr__", "__eq__", "tag", "positive", "negative", "realbody", "shadow_upper", "shadow_lower", "high_low"],
    ("hexital.core.candle_manager", "CandleManager"): ["name", "__eq__", "find_indicator"],
}
READ_ONLY_FUNCS = {
    "hexital.utils.candles": ["reading_by_index", "reading_by_candle", "_nested_indicator", "reading_count", "reading_period", "candles_sum"],
    "hexital.utils.indexing": ["validate_index", "absindex", "valid_index"],
}
# converters: must not mutate their *input* containers (self may change)
CONVERTERS = [
    ("hexital.core.candle", "Candle", "from_dict", ["candle"]),
    ("hexital.core.candle", "Candle", "from_dicts", ["candles"]),
    ("hexital.core.candle", "Candle", "from_list", ["candle"]),
    ("hexital.core.candle", "Candle", "from_lists", ["candles"]),
    ("hexital.core.candle_manager", "CandleManager", "append", ["candles"]),
    ("hexital.core.indicator", "Indicator", "append", ["candles"]),
    ("hexital.core.hexital", "Hexital", "append", ["candles"]),
    ("hexital.core.hexital", "Hexital", "_build_indicator", ["raw_indicator"]),
]


def check_dispatch(res, repo):
    rule = "R-DISPATCH"
    ap = repo.method("hexital.core.candle_manager", "CandleManager", "append")
    calls = [call_target(c) for c in calls_in(ap.node)]
    for conv in ("Candle.from_dict", "Candle.from_dicts", "Candle.from_list", "Candle.from_lists"):
        if conv in calls:
            res.ok(rule, {"site": ap.where, "arm": conv})
        else:
            res.fail(rule, finding("C19", rule, ap, ap.node, f"the type dispatch of append no longer routes to {conv}", construct=f"append: {conv}"))
    # sibling agreement: the first-element types from_list recognises must be routed to it by the dispatcher
    fl = repo.method("hexital.core.candle", "Candle", "from_list")
    fl_types = set()
    for c in calls_in(fl.node):
        if call_name(c) == "isinstance" and len(c.args) == 2 and _is_first_elem(c.args[0], fl.node):
            fl_types |= _type_names(c.args[1])
    arm_types = set()
    for n in ast.walk(ap.node):
        if isinstance(n, ast.If):
            t = n.test
            if isinstance(t, ast.Call) and call_name(t) == "isinstance" and _is_first_elem(t.args[0], ap.node) and any(call_target(c) == "Candle.from_list" for st in n.body for c in calls_in(st)):
                arm_types |= _type_names(t.args[1])
    if fl_types and fl_types <= arm_types | {"float", "int"} and {"float", "int"} <= arm_types:
        res.ok(rule, {"site": ap.where, "from_list first-element types": sorted(fl_types | {"float", "int"}), "dispatch arm accepts": sorted(arm_types)}, nontrivial="dispatch:row-types")
    else:
        res.fail(rule, finding("C19", rule, ap, ap.node, f"Candle.from_list recognises a leading {sorted(fl_types)} but the list arm of append only routes rows starting with {sorted(arm_types)}: an equivalent encoding raises TypeError", construct="append: row first-element types"))
    check_converters("C19", res, repo)
    for name, inner in (("from_dicts", "Candle.from_dict"), ("from_lists", "Candle.from_list")):
        m = repo.method("hexital.core.candle", "Candle", name)
        if any(call_target(c) == inner for c in calls_in(m.node)):
            res.ok(rule, {"site": m.where, "delegates": inner})
        else:
            res.fail(rule, finding("C19", rule, m, m.node, f"{name} no longer delegates to {inner}", construct=f"{name}: delegate"))
    from ..ownership import check_raw_copies

    check_raw_copies("C19", res, repo, want=("method", "append"))


def check_converters(prop, res, repo, rule="R-DISPATCH"):
    """every converter ends in the one constructor, each of the six slots filled from the key / position of the same name"""
    for name in ("from_dict", "from_list"):
        m = repo.method("hexital.core.candle", "Candle", name)
        ctor = [c for c in calls_in(m.node) if call_target(c) in ("cls", "Candle")]
        if len(ctor) == 1 and len(ctor[0].args) + len(ctor[0].keywords) == 6:
            slots = [ast.unparse(a) for a in ctor[0].args] + [f"{k.arg}={ast.unparse(k.value)}" for k in ctor[0].keywords]
            order_ok = _slots_ok(name, ctor[0], m.node)
            if order_ok:
                res.ok(rule, {"site": m.where, "constructor": slots}, nontrivial=f"{name}:slots")
            else:
                res.fail(rule, finding(prop, rule, m, ctor[0], "the converter does not hand (open, high, low, close, volume, timestamp) over unchanged from the corresponding keys/positions only (another key, or a coercion such as int()/float() on the way): a well-formed input row becomes a different candle than the same values given as a Candle (fractional volumes truncated, prices outside [low, high])"))
        else:
            res.fail(rule, finding(prop, rule, m, m.node, "converter no longer builds the candle through one constructor call with six slots", construct=f"{name}: constructor"))


def _is_first_elem(node, fn=None) -> bool:
    if isinstance(node, ast.Subscript) and isinstance(node.value, ast.Name) and isinstance(node.slice, ast.Constant) and node.slice.value == 0:
        return True
    # a local holding the first element:  first = rows[0]
    if isinstance(node, ast.Name) and fn is not None:
        defs = [n.value for n in ast.walk(fn) if isinstance(n, ast.Assign) and len(n.targets) == 1 and isinstance(n.targets[0], ast.Name) and n.targets[0].id == node.id]
        return bool(defs) and all(_is_first_elem(d) for d in defs)
    return False


def _type_names(node):
    if isinstance(node, ast.Tuple):
        return {ast.unparse(e) for e in node.elts}
    return {ast.unparse(node)}


def _slots_ok(name, ctor: ast.Call, fn=None) -> bool:
    want = ["open", "high", "low", "close", "volume", "timestamp"]
    if name == "from_dict":
        # every key consulted for a slot is that slot's own name (any capitalisation): nothing else may stand in for a price
        byname = dict(zip(want, ctor.args))
        byname.update({k.arg: k.value for k in ctor.keywords if k.arg})
        if set(byname) != set(want):
            return False
        def lookup(e) -> bool:
            """the slot is read off the row and handed over as it is: row.get(key[, default]) / row[key], a choice between such
            look-ups, or a literal default -- no coercion (int(), float(), round(), abs() ...) in between"""
            if isinstance(e, ast.Constant):
                return True
            if isinstance(e, ast.Call) and isinstance(e.func, ast.Attribute) and e.func.attr == "get" and isinstance(e.func.value, ast.Name) and 1 <= len(e.args) <= 2 and not e.keywords:
                return all(lookup(x) for x in e.args[1:])
            if isinstance(e, ast.Subscript) and isinstance(e.value, ast.Name):
                return True
            if isinstance(e, ast.IfExp):
                return lookup(e.body) and lookup(e.orelse)
            if isinstance(e, ast.BoolOp):
                return all(lookup(x) for x in e.values)
            # anything else (a local helper that does the look-up ...) is fine unless a coercion sits in it
            return not any(isinstance(n, ast.Call) and isinstance(n.func, ast.Name) and n.func.id in ("int", "float", "round", "abs", "str", "bool", "Decimal", "floor", "ceil", "trunc") for n in ast.walk(e))

        for w in want:
            a = byname[w]
            keys = [n.value for n in ast.walk(a) if isinstance(n, ast.Constant) and isinstance(n.value, str)]
            if not keys or any(k.lower() != w for k in keys):
                return False
            if not lookup(a):
                return False
        return True
    kws = dict(zip(want, ctor.args))
    kws.update({k.arg: k.value for k in ctor.keywords if k.arg})
    # five positional slots of one row variable ...
    rows = set()
    for i, w in enumerate(want[:5]):
        v = kws.get(w)
        if not (isinstance(v, ast.Subscript) and isinstance(v.value, ast.Name) and isinstance(v.slice, ast.Constant) and v.slice.value == i):
            return False
        rows.add(v.value.id)
    if len(rows) != 1:
        return False
    row = rows.pop()
    # ... and the timestamp slot is the local that received the leading/trailing datetime taken off the row (None otherwise)
    ts = kws.get("timestamp")
    if not isinstance(ts, ast.Name) or fn is None:
        return False

    def defs(name):
        return [n.value for n in ast.walk(fn) if isinstance(n, ast.Assign) and any(isinstance(t, ast.Name) and t.id == name for t in n.targets)]

    def end_elem(e) -> bool:
        """<list>[0] / <list>[-1] / <list>.pop(0|-1), possibly through one local"""
        if isinstance(e, ast.Subscript) and isinstance(e.slice, (ast.Constant, ast.UnaryOp)) and ast.unparse(e.slice) in ("0", "-1"):
            return True
        if isinstance(e, ast.Call) and isinstance(e.func, ast.Attribute) and e.func.attr == "pop" and [ast.unparse(a) for a in e.args] in (["0"], ["-1"], []):
            return True
        if isinstance(e, ast.Name):
            d = defs(e.id)
            return bool(d) and all(end_elem(x) for x in d if not isinstance(x, ast.Name))
        return False

    srcs = defs(ts.id)
    taken = [x for x in srcs if not (isinstance(x, ast.Constant) and x.value is None)]
    return bool(taken) and all(end_elem(x) for x in taken)


@register("C19")
def run(repo, tier) -> Result:
    res = Result("C19", tier)
    res.explanation = (
        "Write-effect analysis over the resolved call graph: for every function the set of parameters (including self) whose reachable state may be mutated is "
        "computed to a fixed point (attribute/subscript stores and deletes, augmented assignment, container mutators, setattr, calls whose callee mutates the "
        "corresponding parameter), with a flow-sensitive alias set per local (vars(x)/x.__dict__/x.attr/x[k]/iteration alias their source; deepcopy and constructors "
        "are fresh; dict()/list()/copy() are fresh containers with shared elements). Every listed read-only accessor must have an empty effect set; every converter must "
        "not mutate its input containers (R-EFFECT). R-DISPATCH: every arm of CandleManager.append's type dispatch reaches the one Candle constructor with the six slots, "
        "the row types from_list recognises are routed to it, Hexital.append hands the same object to every manager unconditionally and non-default managers deep-copy."
    )
    res.assumptions = ["mutation through C-level builtins other than the listed container mutators does not occur", "Candle objects handed to the default manager are adopted by design (the property speaks of the caller's dicts and lists)"]
    eff = Effects(repo)
    n = 0
    for (mod, cls), names in READ_ONLY.items():
        ci = repo.cls(mod, cls)
        for nm in names:
            m = ci.methods.get(nm)
            if m is None:
                m = repo.find_method(ci, nm)
            if m is None:
                res.errors.append(f"anchor vanished: {mod}.{cls}.{nm}")
                continue
            n += 1
            e = eff.effect(m)
            if not e:
                res.ok("R-EFFECT", {"entry": f"{cls}.{nm}", "effect_set": []}, nontrivial=f"{cls}.{nm}")
            else:
                for root, node, why in eff.effect_sites(m)[:3]:
                    res.fail("R-EFFECT", finding("C19", "R-EFFECT", m, node, f"read-only entry point mutates {root!r}: {why}"))
    for mod, names in READ_ONLY_FUNCS.items():
        for nm in names:
            if nm.startswith("_") and nm not in repo.module(mod).functions:
                continue  # a private helper folded into its caller by a refactoring: its effects are analysed there
            f = repo.func(mod, nm)
            n += 1
            e = eff.effect(f)
            if not e:
                res.ok("R-EFFECT", {"entry": f"{mod}.{nm}", "effect_set": []})
            else:
                for root, node, why in eff.effect_sites(f)[:3]:
                    res.fail("R-EFFECT", finding("C19", "R-EFFECT", f, node, f"read-only helper mutates {root!r}: {why}"))
    for mod, cls, nm, params in CONVERTERS:
        m = repo.method(mod, cls, nm)
        e = eff.effect(m)
        bad = [p for p in params if p in e]
        if not bad:
            res.ok("R-EFFECT", {"entry": f"{cls}.{nm}", "input containers": params, "effect_set": sorted(e)}, nontrivial=f"{cls}.{nm}:inputs")
        else:
            for root, node, why in [s for s in eff.effect_sites(m) if s[0] in bad][:3]:
                res.fail("R-EFFECT", finding("C19", "R-EFFECT", m, node, f"converter mutates its input {root!r}: {why}"))
    # shipped indicator classes must not override the accessors with mutating versions
    for ci in repo.shipped():
        for nm in ("settings", "__str__", "name", "as_list", "reading", "has_reading"):
            if nm in ci.methods and ci.name != "Amorph":
                m = ci.methods[nm]
                if eff.effect(m):
                    res.fail("R-EFFECT", finding("C19", "R-EFFECT", m, m.node, "accessor override mutates state", construct=f"{ci.name}.{nm}"))
    check_dispatch(res, repo)
    check_append_order("C19", res, repo)
    # "identical results for every encoding": Candle objects reach the other managers as raw copies, which exist only if every
    # conversion saves the raw values first (the dict / list encodings are built fresh per manager and never need them)
    from ..manager_rules import check_conversion_typestate

    check_conversion_typestate("C19", res, repo)
    res.universe = {"read_only_entry_points": n, "converters": len(CONVERTERS), "functions_in_call_graph": len(eff.cg.funcs), "functions_with_effects": sum(1 for v in eff.summary.values() if v)}
    res.rule("R-EFFECT", floor=55)
    res.rule("R-DISPATCH", floor=8)
    return res
