"""C19 — reading state and converting input have no hidden side effects (R-EFFECT, R-DISPATCH)."""
from __future__ import annotations

import ast

from ..core import Result, finding, norm_construct, register
from ..driver import check_append_order
from ..effects import Effects
from ..model import AnalysisError
from ..structure import call_name, call_target, calls_in

READ_ONLY = {
    ("hexital.core.indicator", "Indicator"): ["__str__", "name", "settings", "has_reading", "prior_calc", "candle_manager", "as_list", "reading", "prev_reading", "prev_exists",
                                              "read_candle", "reading_count", "reading_period", "candles_sum", "_find_calc_index"],
    ("hexital.indicators.amorph", "Amorph"): ["settings", "_generate_name"],
    ("hexital.core.hexital", "Hexital"): ["candles", "get_candles", "timeframes", "indicators", "indicator", "indicator_settings", "has_reading", "reading", "prev_reading", "reading_as_list"],
    ("hexital.core.candle", "Candle"): ["__repr__", "__eq__", "tag", "positive", "negative", "realbody", "shadow_upper", "shadow_lower", "high_low"],
    ("hexital.core.candle_manager", "CandleManager"): ["name", "__eq__", "find_indicator"],
}
READ_ONLY_FUNCS = {
    "hexital.utils.candles": ["reading_by_index", "reading_by_candle", "_nested_indicator", "reading_count", "reading_period", "candles_sum"],
    "hexital.utils.indexing": ["validate_index", "absindex", "valid_index"],
}
# converters: must not mutate their *input* containers (self may change)
CONVERTERS = [
    ("hexital.core.candle", "Candle", "from_dict", ["candle"]),
    ("hexital.core.candle", "Candle", "from_dicts", ["candles"]),
    ("hexital.core.candle", "Candle", "from_list", ["candle"]),
    ("hexital.core.candle", "Candle", "from_lists", ["candles"]),
    ("hexital.core.candle_manager", "CandleManager", "append", ["candles"]),
    ("hexital.core.indicator", "Indicator", "append", ["candles"]),
    ("hexital.core.hexital", "Hexital", "append", ["candles"]),
    ("hexital.core.hexital", "Hexital", "_build_indicator", ["raw_indicator"]),
]


def _same_candle(a, b) -> bool:
    from ..convsem import Ctor

    if isinstance(a, Ctor) and isinstance(b, Ctor):
        keys = set(a.slots) | set(b.slots)
        return all(a.slots.get(k) is b.slots.get(k) or (not hasattr(a.slots.get(k), "name") and a.slots.get(k) == b.slots.get(k)) for k in keys)
    return a is b


def _new_manager(cs, it, tf, tasks):
    """a manager as its own constructor leaves it (evaluated: `CandleManager(timeframe=tf)`), housekeeping replaced by a counter"""
    selfo = cs.ObjV("manager", {"_tasks": lambda a, k, t=tasks: None}, "CandleManager")
    init = it.method("__init__")
    it.call_function(init, [], {"timeframe": tf} if tf is not None else {}, bound_first=selfo)
    selfo.attrs["_tasks"] = lambda a, k, t=tasks: t.append(1)
    if not isinstance(selfo.attrs.get("candles"), list):
        raise cs.Undecided("the constructor does not leave a candle list")
    return selfo


def eval_append(repo):
    """CandleManager.append evaluated (convsem) on each encoding of the same candles, for the default manager and a timeframe manager.
    -> list of (kind, label, status, message)   status: ok | undecided | fail"""
    from .. import convsem as cs

    out = []

    def converted(name, shape):
        it = cs.Interp(repo)
        fn = it.method(name)
        return it.call_function(fn, [shape], {}, bound_first=cs.TypeRef(it.clsname) if "classmethod" in [ast.unparse(d) for d in fn.decorator_list] else cs._MISSING)

    def scenarios():
        d1, d2 = cs.dict_shapes()[0][1], cs.dict_shapes()[1][1]
        yield "one dict", d1, [("from_dict", d1)]
        yield "a list of two dicts", [d1, d2], [("from_dict", d1), ("from_dict", d2)]
        for label, row, _ in cs.list_shapes():
            yield f"one row {label}", row, [("from_list", row)]
        rows = [s_[1] for s_ in cs.list_shapes()[:3]]
        yield "a list of three rows (timestamp first / last / absent)", rows, [("from_list", r) for r in rows]

    for tf in (None, "T5"):
        kind = "the default manager" if tf is None else "a timeframe manager"
        for label, n in (("one Candle", 1), ("a list of two Candles", 2)):
            it = cs.Interp(repo, "hexital.core.candle_manager", "CandleManager")
            objs = []
            for i in range(n):
                o = cs.ObjV(f"candle {i}", {}, "Candle")
                o.attrs["raw_copy"] = (lambda o_: (lambda a, k: cs.ObjV(f"raw copy of {o_.name}", {"of": o_}, "Candle")))(o)
                objs.append(o)
            tasks = []
            arg = objs[0] if n == 1 else list(objs)
            try:
                selfo = _new_manager(cs, it, tf, tasks)
                it.call_function(it.method("append"), [arg], {}, bound_first=selfo)
            except cs.Undecided as ex:
                out.append((kind, label, "undecided", str(ex)))
                continue
            except cs.Raised as ex:
                out.append((kind, label, "fail", f"{kind} raises {ex.what} when given {label}: an accepted encoding is rejected"))
                continue
            got = selfo.attrs["candles"]
            good = isinstance(got, list) and len(got) == n and all((g is o) if tf is None else (isinstance(g, cs.ObjV) and g.attrs.get("of") is o) for g, o in zip(got, objs))
            if good and isinstance(arg, list) and arg != objs:
                good = False
            if good and not tasks:
                out.append((kind, label, "fail", f"{kind}, given {label}, stores the candles without running its housekeeping (_tasks): they are never collapsed / converted / trimmed"))
            elif good:
                out.append((kind, label, "ok", ""))
            else:
                out.append((kind, label, "fail", f"{kind}, given {label}, holds {got!r}: expected {'the given objects' if tf is None else 'one fresh raw copy (Candle.raw_copy) of each given candle'}, in order"))
        for label, arg, want in scenarios():
            it = cs.Interp(repo, "hexital.core.candle_manager", "CandleManager")
            tasks = []
            orig_getattr = it.getattr

            def getattr_(obj, attr, orig=orig_getattr):
                if isinstance(obj, cs.Ctor) and attr == "raw_copy":
                    return lambda a, k, o=obj: cs.ObjV("raw copy", {"of": o}, "Candle")
                return orig(obj, attr)

            it.getattr = getattr_
            snapshot = repr(arg)
            try:
                expected = [converted(nm, shp) for nm, shp in want]
                selfo = _new_manager(cs, it, tf, tasks)
                it.call_function(it.method("append"), [arg], {}, bound_first=selfo)
            except cs.Undecided as ex:
                out.append((kind, label, "undecided", str(ex)))
                continue
            except cs.Raised as ex:
                out.append((kind, label, "fail", f"{kind} raises {ex.what} when given {label}: an accepted encoding of the same candles is rejected"))
                continue
            got = selfo.attrs["candles"]
            vals = [g if tf is None else (g.attrs.get("of") if isinstance(g, cs.ObjV) else None) for g in got] if isinstance(got, list) else None
            good = vals is not None and len(vals) == len(expected) and all(_same_candle(v, e) for v, e in zip(vals, expected))
            if good and repr(arg) != snapshot:
                out.append((kind, label, "fail", f"{kind}, given {label}: the caller's container is changed by append"))
            elif good:
                out.append((kind, label, "ok", ""))
            else:
                out.append((kind, label, "fail", f"{kind}, given {label}, holds {got!r}; the single-row converters build {expected!r}{'' if tf is None else ' (to be stored as raw copies)'}: the same candles in another encoding are stored differently"))
    return out


def check_dispatch(res, repo):
    """R-DISPATCH: every encoding of the same candles is stored as the single-row converters build them, in order; the default
    manager keeps the objects, every other manager a raw copy of each; the caller's containers are not changed"""
    rule = "R-DISPATCH"
    ap = repo.method("hexital.core.candle_manager", "CandleManager", "append")
    n_ok = 0
    for kind, label, status, msg in eval_append(repo):
        if status == "ok":
            n_ok += 1
        elif status == "undecided":
            res.errors.append(f"{ap.where} {rule} CandleManager.append: cannot evaluate the dispatch on {label} ({msg}); the rule cannot decide it")
        else:
            res.fail(rule, finding("C19", rule, ap, ap.node, msg, construct=f"append: {label} ({kind})"[:190]))
    if n_ok:
        res.ok(rule, {"site": ap.where, "evaluated": f"{n_ok} (manager kind x encoding) scenarios", "why": "every encoding of the same candles is stored as the converters build them, in order; timeframe managers store raw copies"}, nontrivial="dispatch:scenarios")
    check_converters("C19", res, repo)
    from ..ownership import check_raw_copies

    check_raw_copies("C19", res, repo, want=("method", "validate"))


def check_converters(prop, res, repo, rule="R-DISPATCH"):
    """every converter, evaluated over each well-formed row shape (convsem), ends in the one constructor with each of the six slots
    holding the value of the key / position of the same name, as given; foreign keys never reach a slot; the caller's row is intact"""
    from .. import convsem as cs

    for name, shapes, batch in (("from_dict", cs.dict_shapes(), "from_dicts"), ("from_list", cs.list_shapes(), "from_lists")):
        m = repo.method("hexital.core.candle", "Candle", name)
        for label, status, detail in cs.run_converter(repo, name, shapes):
            site = f"{name}: {label}"
            if status == "ok":
                res.ok(rule, {"site": m.where, "shape": label, "constructor": detail[:160]}, nontrivial=f"{name}:{label[:40]}")
            elif status == "undecided":
                res.errors.append(f"{m.where} {rule} Candle.{name}: cannot evaluate the converter on the row shape `{label}` ({detail}); the rule cannot decide it")
            elif status == "raised" and label == "empty dict":
                res.ok(rule, {"site": m.where, "shape": label, "raises": detail})
            elif status == "raised":
                res.fail(rule, finding(prop, rule, m, m.node, f"Candle.{name} raises {detail} on a well-formed row ({label}): an accepted encoding of the same candle is rejected", construct=site[:190]))
            else:
                res.fail(rule, finding(prop, rule, m, m.node, f"on a row of shape `{label}`: {detail} -- the same values given as a Candle (or in the other encodings) build a different candle", construct=site[:190]))
        bm = repo.method("hexital.core.candle", "Candle", batch)
        for label, status, detail in cs.run_batch(repo, batch, name, shapes):
            if status == "ok":
                res.ok(rule, {"site": bm.where, "shape": label, "result": detail})
            elif status == "undecided":
                res.errors.append(f"{bm.where} {rule} Candle.{batch}: cannot evaluate the batch converter ({detail}); the rule cannot decide it")
            elif status == "raised":
                res.fail(rule, finding(prop, rule, bm, bm.node, f"Candle.{batch} raises {detail} on {label}", construct=f"{batch}: {label}"[:190]))
            else:
                res.fail(rule, finding(prop, rule, bm, bm.node, f"{label}: {detail}", construct=f"{batch}: {label}"[:190]))


def from_list_leading_types(repo):
    """the kinds of first element for which Candle.from_list converts a row (evaluated, not pattern-matched)"""
    from .. import convsem as cs

    out = set()
    for label, status, _ in cs.run_converter(repo, "from_list", cs.list_shapes()):
        if status == "ok":
            out.add("datetime" if label.startswith("[timestamp") else label.split("(")[-1].rstrip(")"))
        elif status == "undecided":
            return None
    return out


def _is_first_elem(node, fn=None) -> bool:
    if isinstance(node, ast.Subscript) and isinstance(node.value, ast.Name) and isinstance(node.slice, ast.Constant) and node.slice.value == 0:
        return True
    # a local holding the first element:  first = rows[0]
    if isinstance(node, ast.Name) and fn is not None:
        defs = [n.value for n in ast.walk(fn) if isinstance(n, ast.Assign) and len(n.targets) == 1 and isinstance(n.targets[0], ast.Name) and n.targets[0].id == node.id]
        return bool(defs) and all(_is_first_elem(d) for d in defs)
    return False


def _type_names(node):
    if isinstance(node, ast.Tuple):
        return {ast.unparse(e) for e in node.elts}
    return {ast.unparse(node)}


@register("C19")
def run(repo, tier) -> Result:
    res = Result("C19", tier)
    res.explanation = (
        "Write-effect analysis over the resolved call graph: for every function the set of parameters (including self) whose reachable state may be mutated is "
        "computed to a fixed point (attribute/subscript stores and deletes, augmented assignment, container mutators, setattr, calls whose callee mutates the "
        "corresponding parameter), with a flow-sensitive alias set per local (vars(x)/x.__dict__/x.attr/x[k]/iteration alias their source; deepcopy and constructors "
        "are fresh; dict()/list()/copy() are fresh containers with shared elements). Every listed read-only accessor must have an empty effect set; every converter must "
        "not mutate its input containers (R-EFFECT). R-DISPATCH: every arm of CandleManager.append's type dispatch reaches the one Candle constructor with the six slots, "
        "the row types from_list recognises are routed to it, Hexital.append hands the same object to every manager unconditionally and non-default managers deep-copy."
    )
    res.assumptions = ["mutation through C-level builtins other than the listed container mutators does not occur", "Candle objects handed to the default manager are adopted by design (the property speaks of the caller's dicts and lists)"]
    eff = Effects(repo)
    n = 0
    for (mod, cls), names in READ_ONLY.items():
        ci = repo.cls(mod, cls)
        for nm in names:
            m = ci.methods.get(nm)
            if m is None:
                m = repo.find_method(ci, nm)
            if m is None:
                res.errors.append(f"anchor vanished: {mod}.{cls}.{nm}")
                continue
            n += 1
            e = eff.effect(m)
            if not e:
                res.ok("R-EFFECT", {"entry": f"{cls}.{nm}", "effect_set": []}, nontrivial=f"{cls}.{nm}")
            else:
                for root, node, why in eff.effect_sites(m)[:3]:
                    res.fail("R-EFFECT", finding("C19", "R-EFFECT", m, node, f"read-only entry point mutates {root!r}: {why}"))
    for mod, names in READ_ONLY_FUNCS.items():
        for nm in names:
            if nm.startswith("_") and nm not in repo.module(mod).functions:
                continue  # a private helper folded into its caller by a refactoring: its effects are analysed there
            f = repo.func(mod, nm)
            n += 1
            e = eff.effect(f)
            if not e:
                res.ok("R-EFFECT", {"entry": f"{mod}.{nm}", "effect_set": []})
            else:
                for root, node, why in eff.effect_sites(f)[:3]:
                    res.fail("R-EFFECT", finding("C19", "R-EFFECT", f, node, f"read-only helper mutates {root!r}: {why}"))
    for mod, cls, nm, params in CONVERTERS:
        m = repo.method(mod, cls, nm)
        e = eff.effect(m)
        bad = [p for p in params if p in e]
        if not bad:
            res.ok("R-EFFECT", {"entry": f"{cls}.{nm}", "input containers": params, "effect_set": sorted(e)}, nontrivial=f"{cls}.{nm}:inputs")
        else:
            for root, node, why in [s for s in eff.effect_sites(m) if s[0] in bad][:3]:
                res.fail("R-EFFECT", finding("C19", "R-EFFECT", m, node, f"converter mutates its input {root!r}: {why}"))
    # shipped indicator classes must not override the accessors with mutating versions
    for ci in repo.shipped():
        for nm in ("settings", "__str__", "name", "as_list", "reading", "has_reading"):
            if nm in ci.methods and ci.name != "Amorph":
                m = ci.methods[nm]
                if eff.effect(m):
                    res.fail("R-EFFECT", finding("C19", "R-EFFECT", m, m.node, "accessor override mutates state", construct=f"{ci.name}.{nm}"))
    check_dispatch(res, repo)
    check_append_order("C19", res, repo)
    # "identical results for every encoding": Candle objects reach the other managers as raw copies, which exist only if every
    # conversion saves the raw values first (the dict / list encodings are built fresh per manager and never need them)
    from ..manager_rules import check_conversion_typestate

    check_conversion_typestate("C19", res, repo)
    res.universe = {"read_only_entry_points": n, "converters": len(CONVERTERS), "functions_in_call_graph": len(eff.cg.funcs), "functions_with_effects": sum(1 for v in eff.summary.values() if v)}
    res.rule("R-EFFECT", floor=55)
    res.rule("R-DISPATCH", floor=8)
    return res
