"""C19 — reading state and converting input have no hidden side effects (R-EFFECT, R-DISPATCH)."""
from __future__ import annotations

import ast

from ..core import Result, finding, norm_construct, register
from ..driver import check_append_order
from ..effects import Effects
from ..model import AnalysisError
from ..structure import call_name, call_target, calls_in

READ_ONLY = {
    ("hexital.core.indicator", "Indicator"): ["__str__", "name", "settings", "has_reading", "prior_calc", "candle_manager", "as_list", "reading", "prev_reading", "prev_exists",
                                              "read_candle", "reading_count", "reading_period", "candles_sum", "_find_calc_index"],
    ("hexital.indicators.amorph", "Amorph"): ["settings", "_generate_name"],
    ("hexital.core.hexital", "Hexital"): ["candles", "get_candles", "timeframes", "indicators", "indicator", "indicator_settings", "has_reading", "reading", "prev_reading", "reading_as_list"],
    ("hexital.core.candle", "Candle"): ["__repr__", "__eq__", "tag", "positive", "negative", "realbody", "shadow_upper", "shadow_lower", "high_low"],
    ("hexital.core.candle_manager", "CandleManager"): ["name", "__eq__", "find_indicator"],
}
READ_ONLY_FUNCS = {
    "hexital.utils.candles": ["reading_by_index", "reading_by_candle", "_nested_indicator", "reading_count", "reading_period", "candles_sum"],
    "hexital.utils.indexing": ["validate_index", "absindex", "valid_index"],
}
# converters: must not mutate their *input* containers (self may change)
CONVERTERS = [
    ("hexital.core.candle", "Candle", "from_dict", ["candle"]),
    ("hexital.core.candle", "Candle", "from_dicts", ["candles"]),
    ("hexital.core.candle", "Candle", "from_list", ["candle"]),
    ("hexital.core.candle", "Candle", "from_lists", ["candles"]),
    ("hexital.core.candle_manager", "CandleManager", "append", ["candles"]),
    ("hexital.core.indicator", "Indicator", "append", ["candles"]),
    ("hexital.core.hexital", "Hexital", "append", ["candles"]),
    ("hexital.core.hexital", "Hexital", "_build_indicator", ["raw_indicator"]),
]


def check_dispatch(res, repo):
    rule = "R-DISPATCH"
    ap = repo.method("hexital.core.candle_manager", "CandleManager", "append")
    calls = [call_target(c) for c in calls_in(ap.node)]
    for conv in ("Candle.from_dict", "Candle.from_dicts", "Candle.from_list", "Candle.from_lists"):
        if conv in calls:
            res.ok(rule, {"site": ap.where, "arm": conv})
        else:
            res.fail(rule, finding("C19", rule, ap, ap.node, f"the type dispatch of append no longer routes to {conv}", construct=f"append: {conv}"))
    # sibling agreement: the first-element types from_list recognises must be routed to it by the dispatcher
    fl_types = from_list_leading_types(repo)
    if fl_types is None:
        fl_types = set()  # (undecided shapes are reported by check_converters)
    arm_types = set()
    for n in ast.walk(ap.node):
        if isinstance(n, ast.If):
            t = n.test
            if isinstance(t, ast.Call) and call_name(t) == "isinstance" and _is_first_elem(t.args[0], ap.node) and any(call_target(c) == "Candle.from_list" for st in n.body for c in calls_in(st)):
                arm_types |= _type_names(t.args[1])
    if fl_types <= arm_types | {"float", "int"} and {"float", "int"} <= arm_types:
        res.ok(rule, {"site": ap.where, "from_list first-element types": sorted(fl_types | {"float", "int"}), "dispatch arm accepts": sorted(arm_types)}, nontrivial="dispatch:row-types")
    else:
        res.fail(rule, finding("C19", rule, ap, ap.node, f"Candle.from_list recognises a leading {sorted(fl_types)} but the list arm of append only routes rows starting with {sorted(arm_types)}: an equivalent encoding raises TypeError", construct="append: row first-element types"))
    check_converters("C19", res, repo)
    from ..ownership import check_raw_copies

    check_raw_copies("C19", res, repo, want=("method", "append"))


def check_converters(prop, res, repo, rule="R-DISPATCH"):
    """every converter, evaluated over each well-formed row shape (convsem), ends in the one constructor with each of the six slots
    holding the value of the key / position of the same name, as given; foreign keys never reach a slot; the caller's row is intact"""
    from .. import convsem as cs

    for name, shapes, batch in (("from_dict", cs.dict_shapes(), "from_dicts"), ("from_list", cs.list_shapes(), "from_lists")):
        m = repo.method("hexital.core.candle", "Candle", name)
        for label, status, detail in cs.run_converter(repo, name, shapes):
            site = f"{name}: {label}"
            if status == "ok":
                res.ok(rule, {"site": m.where, "shape": label, "constructor": detail[:160]}, nontrivial=f"{name}:{label[:40]}")
            elif status == "undecided":
                res.errors.append(f"{m.where} {rule} Candle.{name}: cannot evaluate the converter on the row shape `{label}` ({detail}); the rule cannot decide it")
            elif status == "raised" and label == "empty dict":
                res.ok(rule, {"site": m.where, "shape": label, "raises": detail})
            elif status == "raised":
                res.fail(rule, finding(prop, rule, m, m.node, f"Candle.{name} raises {detail} on a well-formed row ({label}): an accepted encoding of the same candle is rejected", construct=site[:190]))
            else:
                res.fail(rule, finding(prop, rule, m, m.node, f"on a row of shape `{label}`: {detail} -- the same values given as a Candle (or in the other encodings) build a different candle", construct=site[:190]))
        bm = repo.method("hexital.core.candle", "Candle", batch)
        for label, status, detail in cs.run_batch(repo, batch, name, shapes):
            if status == "ok":
                res.ok(rule, {"site": bm.where, "shape": label, "result": detail})
            elif status == "undecided":
                res.errors.append(f"{bm.where} {rule} Candle.{batch}: cannot evaluate the batch converter ({detail}); the rule cannot decide it")
            elif status == "raised":
                res.fail(rule, finding(prop, rule, bm, bm.node, f"Candle.{batch} raises {detail} on {label}", construct=f"{batch}: {label}"[:190]))
            else:
                res.fail(rule, finding(prop, rule, bm, bm.node, f"{label}: {detail}", construct=f"{batch}: {label}"[:190]))


def from_list_leading_types(repo):
    """the kinds of first element for which Candle.from_list converts a row (evaluated, not pattern-matched)"""
    from .. import convsem as cs

    out = set()
    for label, status, _ in cs.run_converter(repo, "from_list", cs.list_shapes()):
        if status == "ok":
            out.add("datetime" if label.startswith("[timestamp") else label.split("(")[-1].rstrip(")"))
        elif status == "undecided":
            return None
    return out


def _is_first_elem(node, fn=None) -> bool:
    if isinstance(node, ast.Subscript) and isinstance(node.value, ast.Name) and isinstance(node.slice, ast.Constant) and node.slice.value == 0:
        return True
    # a local holding the first element:  first = rows[0]
    if isinstance(node, ast.Name) and fn is not None:
        defs = [n.value for n in ast.walk(fn) if isinstance(n, ast.Assign) and len(n.targets) == 1 and isinstance(n.targets[0], ast.Name) and n.targets[0].id == node.id]
        return bool(defs) and all(_is_first_elem(d) for d in defs)
    return False


def _type_names(node):
    if isinstance(node, ast.Tuple):
        return {ast.unparse(e) for e in node.elts}
    return {ast.unparse(node)}


@register("C19")
def run(repo, tier) -> Result:
    res = Result("C19", tier)
    res.explanation = (
        "Write-effect analysis over the resolved call graph: for every function the set of parameters (including self) whose reachable state may be mutated is "
        "computed to a fixed point (attribute/subscript stores and deletes, augmented assignment, container mutators, setattr, calls whose callee mutates the "
        "corresponding parameter), with a flow-sensitive alias set per local (vars(x)/x.__dict__/x.attr/x[k]/iteration alias their source; deepcopy and constructors "
        "are fresh; dict()/list()/copy() are fresh containers with shared elements). Every listed read-only accessor must have an empty effect set; every converter must "
        "not mutate its input containers (R-EFFECT). R-DISPATCH: every arm of CandleManager.append's type dispatch reaches the one Candle constructor with the six slots, "
        "the row types from_list recognises are routed to it, Hexital.append hands the same object to every manager unconditionally and non-default managers deep-copy."
    )
    res.assumptions = ["mutation through C-level builtins other than the listed container mutators does not occur", "Candle objects handed to the default manager are adopted by design (the property speaks of the caller's dicts and lists)"]
    eff = Effects(repo)
    n = 0
    for (mod, cls), names in READ_ONLY.items():
        ci = repo.cls(mod, cls)
        for nm in names:
            m = ci.methods.get(nm)
            if m is None:
                m = repo.find_method(ci, nm)
            if m is None:
                res.errors.append(f"anchor vanished: {mod}.{cls}.{nm}")
                continue
            n += 1
            e = eff.effect(m)
            if not e:
                res.ok("R-EFFECT", {"entry": f"{cls}.{nm}", "effect_set": []}, nontrivial=f"{cls}.{nm}")
            else:
                for root, node, why in eff.effect_sites(m)[:3]:
                    res.fail("R-EFFECT", finding("C19", "R-EFFECT", m, node, f"read-only entry point mutates {root!r}: {why}"))
    for mod, names in READ_ONLY_FUNCS.items():
        for nm in names:
            if nm.startswith("_") and nm not in repo.module(mod).functions:
                continue  # a private helper folded into its caller by a refactoring: its effects are analysed there
            f = repo.func(mod, nm)
            n += 1
            e = eff.effect(f)
            if not e:
                res.ok("R-EFFECT", {"entry": f"{mod}.{nm}", "effect_set": []})
            else:
                for root, node, why in eff.effect_sites(f)[:3]:
                    res.fail("R-EFFECT", finding("C19", "R-EFFECT", f, node, f"read-only helper mutates {root!r}: {why}"))
    for mod, cls, nm, params in CONVERTERS:
        m = repo.method(mod, cls, nm)
        e = eff.effect(m)
        bad = [p for p in params if p in e]
        if not bad:
            res.ok("R-EFFECT", {"entry": f"{cls}.{nm}", "input containers": params, "effect_set": sorted(e)}, nontrivial=f"{cls}.{nm}:inputs")
        else:
            for root, node, why in [s for s in eff.effect_sites(m) if s[0] in bad][:3]:
                res.fail("R-EFFECT", finding("C19", "R-EFFECT", m, node, f"converter mutates its input {root!r}: {why}"))
    # shipped indicator classes must not override the accessors with mutating versions
    for ci in repo.shipped():
        for nm in ("settings", "__str__", "name", "as_list", "reading", "has_reading"):
            if nm in ci.methods and ci.name != "Amorph":
                m = ci.methods[nm]
                if eff.effect(m):
                    res.fail("R-EFFECT", finding("C19", "R-EFFECT", m, m.node, "accessor override mutates state", construct=f"{ci.name}.{nm}"))
    check_dispatch(res, repo)
    check_append_order("C19", res, repo)
    # "identical results for every encoding": Candle objects reach the other managers as raw copies, which exist only if every
    # conversion saves the raw values first (the dict / list encodings are built fresh per manager and never need them)
    from ..manager_rules import check_conversion_typestate

    check_conversion_typestate("C19", res, repo)
    res.universe = {"read_only_entry_points": n, "converters": len(CONVERTERS), "functions_in_call_graph": len(eff.cg.funcs), "functions_with_effects": sum(1 for v in eff.summary.values() if v)}
    res.rule("R-EFFECT", floor=55)
    res.rule("R-DISPATCH", floor=8)
    return res
