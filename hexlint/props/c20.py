"""C20 — all ways of asking for a reading give the same answer (R-FUNNEL, helper contracts, R-TRUTH on accessors)."""
from __future__ import annotations

import ast
from typing import List

from .. import poly
from ..absint import BoolV, N, NoneV, Num, Obj, Opaque
from ..analysis_scope import IDX, RAW, analyse_function
from ..core import Result, finding, norm_construct, register
from ..effects import Effects
from ..facts import facts_to_lin, prove_ge0
from ..linear import feasible
from ..model import AnalysisError, FuncInfo
from ..poly import A, C, Frac, ONE, ZERO
from ..structure import CallGraph, call_name, call_target, calls_in

ACCESSORS = [
    ("hexital.core.indicator", "Indicator", n)
    for n in ("reading", "prev_reading", "prev_exists", "as_list", "read_candle", "reading_count", "reading_period", "candles_sum", "has_reading")
] + [("hexital.core.hexital", "Hexital", n) for n in ("reading", "prev_reading", "reading_as_list", "has_reading")]
RESOLVERS = ("reading_by_candle", "_nested_indicator")
READING_SOURCES = ("reading_by_candle", "reading_by_index", "_nested_indicator", "reading", "prev_reading", "read_candle", "getattr", "get")


def reading_valued_names(fn: ast.FunctionDef):
    names = set()
    for n in ast.walk(fn):
        if isinstance(n, ast.Assign) and isinstance(n.value, ast.Call) and call_name(n.value) in READING_SOURCES:
            # `self._indicators.get(name)` looks an Indicator object up in the registry, not a reading
            if call_name(n.value) == "get" and isinstance(n.value.func, ast.Attribute) and "_indicators" in ast.unparse(n.value.func.value) and "sub_indicators" not in ast.unparse(n.value.func.value) and not ast.unparse(n.value.func.value).endswith(".indicators"):
                continue
            for t in n.targets:
                if isinstance(t, ast.Name):
                    names.add(t.id)
        # a collection of readings: values = tuple(self.reading(n) for n in names) / [..] / (a, b)
        if isinstance(n, ast.Assign):
            v = n.value
            if isinstance(v, ast.Call) and isinstance(v.func, ast.Name) and v.func.id in ("tuple", "list") and len(v.args) == 1:
                v = v.args[0]
            elts = [v.elt] if isinstance(v, (ast.GeneratorExp, ast.ListComp)) else list(v.elts) if isinstance(v, (ast.Tuple, ast.List)) and v.elts else []
            if elts and all(isinstance(e, ast.Call) and call_name(e) in READING_SOURCES and call_name(e) not in ("get", "getattr") for e in elts):
                for t in n.targets:
                    if isinstance(t, ast.Name):
                        names.add("*" + t.id)
        if isinstance(n, ast.Assign) and isinstance(n.value, ast.Subscript) and _reads_dict(ast.unparse(n.value)):
            for t in n.targets:
                if isinstance(t, ast.Name):
                    names.add(t.id)
    return names


def _reads_dict(txt: str) -> bool:
    import re

    return re.search(r"(?<![_\w])(indicators|sub_indicators)\b", txt.replace("self._indicators", "")) is not None


def is_reading_expr(e, names) -> bool:
    if isinstance(e, ast.Name):
        return e.id in names
    if isinstance(e, ast.Call):
        return call_name(e) in READING_SOURCES and call_name(e) != "get" or (call_name(e) == "get" and _reads_dict(ast.unparse(e)))
    if isinstance(e, ast.Subscript):
        return _reads_dict(ast.unparse(e.value))
    return False


def truthiness_sites(fn: ast.FunctionDef):
    names = reading_valued_names(fn)
    out = []

    def boolctx(e):
        if isinstance(e, ast.BoolOp):
            for v in e.values:
                boolctx(v)
        elif isinstance(e, ast.UnaryOp) and isinstance(e.op, ast.Not):
            boolctx(e.operand)
        elif is_reading_expr(e, names):
            out.append(e)

    for n in ast.walk(fn):
        if isinstance(n, (ast.If, ast.While, ast.IfExp)):
            boolctx(n.test)
        elif isinstance(n, ast.BoolOp):
            # value-context `a or b` on readings (e.g. `getattr(...) or d.get(...)`) also drops 0/False
            for v in n.values[:-1]:
                if is_reading_expr(v, names):
                    out.append(v)
        elif isinstance(n, ast.Call) and call_name(n) == "bool" and n.args and is_reading_expr(n.args[0], names):
            out.append(n)
        elif isinstance(n, ast.Call) and isinstance(n.func, ast.Name) and n.func.id in ("all", "any") and len(n.args) == 1:
            # all(values) / any(values) over looked-up readings tests each of them by truthiness
            a = n.args[0]
            if isinstance(a, ast.Name) and ("*" + a.id) in names:
                out.append(n)
            elif isinstance(a, (ast.GeneratorExp, ast.ListComp)) and isinstance(a.elt, (ast.Call, ast.Name)) and (is_reading_expr(a.elt, names) or (isinstance(a.elt, ast.Name) and any(isinstance(g.iter, ast.Name) and ("*" + g.iter.id) in names for g in a.generators))):
                out.append(n)
            elif isinstance(a, (ast.Tuple, ast.List)) and a.elts and all(is_reading_expr(e, names) for e in a.elts):
                out.append(n)
        elif isinstance(n, ast.comprehension):
            for c in n.ifs:
                boolctx(c)
    return out


def check_index_contracts(res: Result, repo, prop="C20"):
    """valid_index / absindex / reading_by_index against their contracts, by abstract interpretation of their bodies"""
    rule = "R-CONTRACT"
    from ..contracts import sem_gate

    if sem_gate(prop, res, repo, ("valid_index", "absindex", "validate_index", "reading_by_index"), rule=rule):
        return  # decided by evaluation on every index kind (None, 0, last, first negative, out of range on either side) and lengths 0 / 1 / 3
    L = A("cfg", "length")
    # ---- valid_index(i, n)  <=>  i is not None and -n <= i < n
    vi = repo.func("hexital.utils.indexing", "valid_index")
    fa = analyse_function(repo, vi)
    from ..rules_vn import path_cases

    class _P:  # a guarded case presented like a path
        def __init__(self, facts, ret, node):
            self.ret, self.node = ret, node
            self.state = type("S", (), {"facts": list(facts)})()

    for p in [_P(f, r, pp.node) for f, r, pp in path_cases(fa.paths)]:
        facts = tuple(p.state.facts)
        none_path = ("raw-none",) in facts
        lo, hi = RAW + L, L - ONE - RAW
        if isinstance(p.ret, BoolV) and p.ret.cond is True:
            ok = (not none_path) and prove_ge0(lo, facts, []) and prove_ge0(hi, facts, [])
            (res.ok(rule, {"helper": "valid_index", "path": "True", "implies": "-n <= i < n"}, nontrivial="valid_index:true") if ok else res.fail(rule, finding(prop, rule, vi, p.node, "valid_index returns True outside -n <= i < n (or for None)")))
        elif isinstance(p.ret, BoolV) and p.ret.cond is False:
            if none_path:
                res.ok(rule, {"helper": "valid_index", "path": "False (None)"})
                continue
            lins = facts_to_lin(facts, [lo, hi, L - ONE])
            if not feasible(lins):
                res.ok(rule, {"helper": "valid_index", "path": "False", "why": "path condition excludes every i with -n <= i < n"}, nontrivial="valid_index:false")
            else:
                res.fail(rule, finding(prop, rule, vi, p.node, "valid_index rejects an index inside -n <= i < n: positive and negative indices no longer address the same candle"))
        else:
            res.fail(rule, finding(prop, rule, vi, p.node, f"valid_index returns {p.ret!r}, not a constant truth value"))
    # ---- reading_by_index: None exactly for invalid indices
    rbi = repo.func("hexital.utils.candles", "reading_by_index")
    fa = analyse_function(repo, rbi)
    n_val = 0
    for p in fa.paths:
        facts = tuple(p.state.facts)
        valid = ("valid-raw",) in facts
        invalid = ("not", ("valid-raw",)) in facts
        lo, hi = RAW + N, N - ONE - RAW
        if isinstance(p.ret, NoneV):
            if invalid:
                res.ok(rule, {"helper": "reading_by_index", "path": "None", "guard": "not valid_index(index, len(candles))"}, nontrivial="rbi:none")
            elif not feasible(facts_to_lin(facts, [lo, hi, N - ONE])):
                res.ok(rule, {"helper": "reading_by_index", "path": "None", "why": "excludes all valid indices"})
            else:
                res.fail(rule, finding(prop, rule, rbi, p.node, "reading_by_index returns None for an index inside -n <= i < n (e.g. i = -n): negative and positive indices disagree"))
        else:
            n_val += 1
            a = poly._single_atom(p.ret.f) if isinstance(p.ret, Num) else None
            pos_ok = a is not None and a[0] == "rd" and a[2] == RAW
            if (valid or (prove_ge0(lo, facts, []) and prove_ge0(hi, facts, []))) and pos_ok:
                res.ok(rule, {"helper": "reading_by_index", "path": "value", "reads": "candles[index] through reading_by_candle"}, nontrivial="rbi:value")
            else:
                res.fail(rule, finding(prop, rule, rbi, p.node, "reading_by_index reads without establishing -n <= i < n, or not at candles[index]"))
    if n_val == 0:
        res.fail(rule, finding(prop, rule, rbi, rbi.node, "reading_by_index never returns a reading", construct="reading_by_index: value path"))
    # ---- absindex
    ab = repo.func("hexital.utils.indexing", "absindex")
    fa = analyse_function(repo, ab)
    for p in [_P(f, r, pp.node) for f, r, pp in path_cases(fa.paths)]:
        facts = tuple(p.state.facts)
        if ("raw-none",) in facts:
            ok = isinstance(p.ret, Num) and p.ret.f == L - ONE
            (res.ok(rule, {"helper": "absindex", "path": "None -> n-1"}) if ok else res.fail(rule, finding(prop, rule, ab, p.node, "absindex(None, n) must be n-1")))
        elif isinstance(p.ret, NoneV):
            ok = ("not", ("opaque", "valid_index(index, length)")) in facts or any(isinstance(c, tuple) and c[0] == "not" and "valid" in repr(c) for c in facts)
            (res.ok(rule, {"helper": "absindex", "path": "invalid -> None"}) if ok else res.fail(rule, finding(prop, rule, ab, p.node, "absindex returns None on a path that is not the invalid-index path")))
        elif isinstance(p.ret, Num):
            neg = any(isinstance(c, tuple) and c[0] == "cmp" and c[1] == "<" and c[2] == RAW for c in facts)
            if not neg and not prove_ge0(RAW, facts, []) and not any(isinstance(c, tuple) and c[0] == "cmp" and c[1] == "<=" and c[2] == -RAW for c in facts):
                # neither sign of the index is known on this case: the result must be correct for both (only possible when n == 0)
                pass
            want = L + RAW if neg else RAW
            if p.ret.f == want:
                res.ok(rule, {"helper": "absindex", "path": "i<0 -> n+i" if neg else "i>=0 -> i"}, nontrivial=f"absindex:{neg}")
            else:
                res.fail(rule, finding(prop, rule, ab, p.node, f"absindex returns {p.ret.f!r} where {want!r} is required"))
        else:
            res.fail(rule, finding(prop, rule, ab, p.node, f"absindex returns {p.ret!r}"))


def check_resolver_shape(res: Result, repo, prop="C20"):
    """reading_by_candle: dotted -> nested field; else candle attribute if not None; else exact key in indicators, then sub_indicators"""
    rule = "R-CONTRACT"
    from ..contracts import sem_gate

    if sem_gate(prop, res, repo, ("reading_by_candle",), rule=rule):
        return  # decided by evaluation on a model candle (top-level / helper / dotted / attribute names, stored None / 0.0 / False / dicts)
    rbc = repo.func("hexital.utils.candles", "reading_by_candle")
    mod = rbc.module  # the resolver's home (it may have been moved and re-exported)
    resolvers = [rbc] + ([mod.functions["_nested_indicator"]] if "_nested_indicator" in mod.functions else [])

    def closure_nodes(fn):
        """nodes of the function and of the same-module helpers it calls (helpers a refactoring introduced)"""
        seen, todo, out = set(), [fn], []
        while todo:
            f = todo.pop()
            if f.name in seen:
                continue
            seen.add(f.name)
            for n in ast.walk(f.node):
                out.append((f, n))
                if isinstance(n, ast.Call) and isinstance(n.func, ast.Name) and n.func.id in mod.functions and n.func.id not in ("reading_by_candle", "_nested_indicator", "reading_by_index"):
                    todo.append(mod.functions[n.func.id])
        return out

    for fn in resolvers:
        nodes = closure_nodes(fn)
        for f, n in nodes:
            if isinstance(n, ast.Compare) and any(isinstance(o, (ast.In, ast.NotIn)) for o in n.ops):
                rhs = ast.unparse(n.comparators[0])
                if rhs in ("key", "name") and ast.unparse(n.left) in ("name", "key", "main_name"):
                    res.fail(rule, finding(prop, rule, f, n, "reading names are matched by substring, not by equality"))
        keycmp = [(f, n) for f, n in nodes if isinstance(n, ast.Compare) and ast.unparse(n.left) == "key"]
        for f, n in keycmp:
            if all(isinstance(o, ast.Eq) for o in n.ops):
                res.ok(rule, {"helper": fn.name, "site": norm_construct(n), "why": "exact key match"})
            else:
                res.fail(rule, finding(prop, rule, f, n, "key comparison is not equality"))
    # order: indicators before sub_indicators in both resolvers
    for fn in resolvers:
        order = [n.attr for f, n in closure_nodes(fn) if isinstance(n, ast.Attribute) and n.attr in ("indicators", "sub_indicators")]
        first_ind = order.index("indicators") if "indicators" in order else None
        first_sub = order.index("sub_indicators") if "sub_indicators" in order else None
        if first_ind is not None and first_sub is not None:
            res.ok(rule, {"helper": fn.name, "lookup": "indicators and sub_indicators both searched"})
        else:
            res.fail(rule, finding(prop, rule, fn, fn.node, "resolver no longer searches both reading dicts", construct=f"{fn.name}: dict lookups"))
    # a field is taken out of a reading only after the reading was seen to be a dict: a warm-up None / a scalar stored under the name
    # is handed back (or counts as missing), it is never subscripted / .get()-ed
    for fn in resolvers:
        seen_fns = {}
        for f, n in closure_nodes(fn):
            seen_fns[f.name] = f
        for f in seen_fns.values():
            par = {}
            for a in ast.walk(f.node):
                for c in ast.iter_child_nodes(a):
                    par[id(c)] = a
            looked = set()
            for a in ast.walk(f.node):
                if isinstance(a, ast.Assign) and len(a.targets) == 1 and isinstance(a.targets[0], ast.Name) and any(isinstance(x, ast.Attribute) and x.attr in ("indicators", "sub_indicators") for x in ast.walk(a.value)):
                    looked.add(a.targets[0].id)
            for a in ast.walk(f.node):
                recv = None
                if isinstance(a, ast.Call) and isinstance(a.func, ast.Attribute) and a.func.attr == "get" and isinstance(a.func.value, ast.Name) and a.func.value.id in looked:
                    recv = a.func.value.id
                elif isinstance(a, ast.Subscript) and isinstance(a.value, ast.Name) and a.value.id in looked and isinstance(a.ctx, ast.Load):
                    recv = a.value.id
                if recv is None:
                    continue
                guarded, cur = False, a
                while id(cur) in par:
                    p_ = par[id(cur)]
                    if isinstance(p_, (ast.IfExp, ast.If)):
                        t_ = p_.test
                        is_dict = isinstance(t_, ast.Call) and call_name(t_) == "isinstance" and len(t_.args) == 2 and ast.unparse(t_.args[0]) == recv and "dict" in ast.unparse(t_.args[1])
                        in_body = (cur is p_.body) if isinstance(p_, ast.IfExp) else any(cur is b for b in p_.body)
                        if is_dict and in_body:
                            guarded = True
                            break
                    cur = p_
                if guarded:
                    res.ok(rule, {"helper": f.name, "site": norm_construct(a), "why": "field taken from a reading known to be a dict"})
                else:
                    res.fail(rule, finding(prop, rule, f, a, f"a field is taken out of the looked-up reading `{recv}` without `isinstance({recv}, dict)` holding there: a reading stored as None (warm-up) or as a scalar raises AttributeError / TypeError instead of counting as missing"))
    dotted = any(call_name(c) == "_nested_indicator" for c in calls_in(rbc.node)) or any(isinstance(n, ast.Call) and call_name(n) == "split" for _, n in closure_nodes(rbc))
    if dotted and any(isinstance(n, ast.Call) and call_name(n) == "getattr" for _, n in closure_nodes(rbc)):
        res.ok(rule, {"helper": "reading_by_candle", "why": "dotted names go to _nested_indicator; candle fields via getattr"})
    else:
        res.fail(rule, finding(prop, rule, rbc, rbc.node, "reading_by_candle no longer resolves dotted names / candle fields", construct="reading_by_candle: dotted + getattr"))


from ..framework_rules import check_active_cursor, check_name_sanitised


def check_presence(res, repo):
    """R-TRUTH: Indicator.has_reading / Hexital.has_reading / Indicator.prev_exists, evaluated (convsem) with the reading they look up
    replaced by each of: None, a number, 0.0, False, {}, a dict whose fields are all None -- answer True exactly when it is not None
    (and False on an empty candle list)"""
    from .. import convsem as cs

    VALUES = [("None", None, False), ("a number", 1.5, True), ("0.0", 0.0, True), ("False", False, True), ("an empty dict", {}, True), ("a dict whose fields are all None (warm-up of a multi-line indicator)", {"a": None, "b": None}, True)]
    for mod, cls, nm, looked_up in (("hexital.core.indicator", "Indicator", "has_reading", ("reading",)), ("hexital.core.hexital", "Hexital", "has_reading", ("reading",)), ("hexital.core.indicator", "Indicator", "prev_exists", ("prev_reading", "reading"))):
        m = repo.method(mod, cls, nm)
        bad = None
        for label, val, want in VALUES:
            it = cs.Interp(repo, mod, cls)
            attrs = {"candles": [cs.Sym("candle 0", "Candle"), cs.Sym("candle 1", "Candle")], "_active_index": 1, "name": "IND", "_candles": {}, "_indicators": {}}
            for lu in looked_up:
                attrs[lu] = (lambda a, k, v=val: v)
            it.intercept["reading_by_index"] = lambda a, k, v=val: v
            it.intercept["reading_by_candle"] = lambda a, k, v=val: v
            selfo = cs.ObjV("self", attrs, cls)
            fn = it.method(nm)
            n_required = len(fn.args.args) - 1 - len(fn.args.defaults)
            args = ["IND" if p_.arg == "name" else None for p_ in fn.args.args[1:1 + n_required]]
            try:
                got = it.call_function(fn, args, {}, bound_first=selfo)
            except cs.Undecided as ex:
                res.errors.append(f"{m.where} R-TRUTH {cls}.{nm}: cannot evaluate the presence test ({ex}); the rule cannot decide it")
                bad = "undecided"
                break
            except cs.Raised as ex:
                bad = f"raises {ex.what} when the reading is {label}"
                break
            if got is not want:
                bad = f"answers {got!r} when the reading is {label}"
                break
        if bad is None:
            res.ok("R-TRUTH", {"function": f"{cls}.{nm}", "presence": "True exactly when the reading is not None (6 reading values evaluated)"}, nontrivial=f"{cls}.{nm}:presence")
        elif bad != "undecided":
            res.fail("R-TRUTH", finding("C20", "R-TRUTH", m, m.node, f"{cls}.{nm} {bad}: presence of a reading must mean `is not None` everywhere, or the ways of asking disagree", construct=f"{cls}.{nm}: presence test"))


def check_reading_search(res, repo, hr):
    """R-SEARCH: Hexital.reading, evaluated over a Hexital with three candle managers (default first) and every combination of
    `this manager's candles hold / do not hold the reading`, returns the first reading that is not None, asked with the caller's
    name and index (convsem interpreter: the lists and readings are opaque symbols)"""
    import itertools

    from .. import convsem as cs

    bad = None
    n_ok = 0
    VALUES = {"readings that are plain numbers": (1.5, 2.5, 3.5), "readings that are falsy but present (0.0, False, {})": (0.0, False, {})}
    for (vlabel, vals), registered, combo, ix_ in itertools.product(VALUES.items(), (False, True), itertools.product((0, 1), repeat=3), (-1, 3, -4)):
        it = cs.Interp(repo, "hexital.core.hexital", "Hexital")
        # the default manager is the shortest list (a strategy timeframe coarser than a member's, or gap filling on the members')
        lists = [[cs.Sym(f"candle {j} of manager {i}", "Candle") for j in range(n_)] for i, n_ in enumerate((2, 4, 4))]
        mgrs = [cs.ObjV(f"manager {i}", {"candles": lists[i]}, "CandleManager") for i in range(3)]
        try:
            default = it.module_const("DEFAULT_CANDLES")
        except cs.Undecided:
            default = cs._MISSING
        if default is cs._MISSING:
            res.errors.append(f"{hr.where} R-SEARCH: DEFAULT_CANDLES cannot be resolved from hexital.core.hexital")
            return
        nm, ix = "IND_1.sub", ix_
        # a reading exists on a manager only where the asked position exists on that manager's list
        readings = [vals[i] if c and -len(lists[i]) <= ix < len(lists[i]) else None for i, c in enumerate(combo)]
        # a registered indicator carries the timeframe its manager gave it; with a strategy timeframe that is also the key of another manager
        ind = cs.ObjV("indicator IND_1", {"timeframe": "T5", "name": "IND_1"}, "Indicator")
        selfo = cs.ObjV("self", {"_candles": {default: mgrs[0], "T5": mgrs[1], "H1": mgrs[2]}, "_indicators": {"IND_1": ind} if registered else {}, "timeframe": "T5"}, "Hexital")
        wrong_args = []

        def rbi(args, kw, lists=lists, readings=readings, nm=nm, ix=ix, wrong_args=wrong_args):
            a = list(args)
            for k in ("candles", "name", "index"):
                if k in kw:
                    a.append(kw[k])
            if not a or not any(a[0] is L for L in lists):
                raise cs.Undecided("reading_by_index on something that is not a manager's candle list")
            if len(a) < 3 or a[1] != nm or a[2] != ix or isinstance(a[2], bool):
                wrong_args.append(a[1:])
            return readings[[i for i, L in enumerate(lists) if a[0] is L][0]]

        def rbc(args, kw, lists=lists, readings=readings, nm=nm, ix=ix, wrong_args=wrong_args):
            a = list(args) + [kw[k] for k in ("candle", "name") if k in kw]
            where = [(i, j) for i, L in enumerate(lists) for j, c_ in enumerate(L) if a and a[0] is c_]
            if not where:
                raise cs.Undecided("reading_by_candle on something that is not a candle of a manager")
            i, j = where[0]
            if len(a) < 2 or a[1] != nm:
                wrong_args.append(a[1:])
            return readings[i] if j == (ix if ix >= 0 else len(lists[i]) + ix) else None

        it.intercept["reading_by_index"] = rbi
        it.intercept["reading_by_candle"] = rbc
        want = next((r for r in readings if r is not None), None)
        label = f"{vlabel}, index {ix}, present on managers " + (", ".join(str(i) for i, c in enumerate(combo) if c) or "none") + " (list lengths 2 / 4 / 4)" + (", name registered as an indicator" if registered else "")
        try:
            got = it.call_function(it.method("reading"), [nm, ix], {}, bound_first=selfo)
        except cs.Undecided as ex:
            res.errors.append(f"{hr.where} R-SEARCH Hexital.reading: cannot evaluate the search ({ex}); the rule cannot decide it")
            return
        except cs.Raised as ex:
            bad = f"{label}: Hexital.reading raises {ex.what}"
            break
        if wrong_args:
            bad = f"{label}: the look-up is not made with the caller's name and index (reading_by_index(.., {wrong_args[0]!r}))"
            break
        if got is not want:
            bad = f"{label}: Hexital.reading returns {got!r}, the first reading that is not None is {want!r}"
            break
        n_ok += 1
    if bad is None:
        res.ok("R-SEARCH", {"site": hr.where, "why": f"{n_ok} presence combinations over three managers: the first reading that is not None (default manager first) is returned, asked with the caller's name and index"}, nontrivial="Hexital.reading")
    else:
        res.fail("R-SEARCH", finding("C20", "R-SEARCH", hr, hr.node, f"{bad}: a reading that lives on another timeframe's candles is not found", construct="Hexital.reading: search over managers"))


@register("C20")
def run(repo, tier) -> Result:
    res = Result("C20", tier)
    res.explanation = (
        "Agreement of all access paths is decided structurally: (R-FUNNEL) every accessor of Indicator and Hexital reaches reading dicts only through the single resolver "
        "reading_by_candle (call-graph closure of each accessor; no other function on the way may touch .indicators/.sub_indicators), so dotted names and dict-vs-scalar handling are "
        "resolved by one function on every path; (R-CONTRACT) valid_index/absindex/reading_by_index are abstractly interpreted and compared with their contracts in the polyhedra domain "
        "(valid iff -n <= i < n, so i and i-n address the same candle; None exactly for invalid indices); (R-TRUTH) no accessor or resolver tests a looked-up reading by truthiness "
        "(a reading of 0/False is present); (R-EFFECT) accessors keep no state (a cache would let two paths disagree after trimming); prev_reading offsets."
    )
    res.assumptions = ["which manager wins when several managers of one Hexital hold the same name is not decided (run-time search order)"]
    cg = CallGraph(repo)
    eff = Effects(repo, cg)
    allowed_scope = ("hexital.utils.candles", "hexital.utils.indexing", "hexital.core.indicator", "hexital.core.hexital")
    for mod, cls, nm in ACCESSORS:
        m = repo.method(mod, cls, nm)
        reach = cg.reachable([cg.key(m)], stop=lambda f: f.name in RESOLVERS or f.name in ("calculate", "append", "purge"))
        funcs = [cg.funcs[k] for k in reach if cg.funcs[k].module.name in allowed_scope or cg.funcs[k].module.name.startswith("hexital.utils.")]
        hits_resolver = any(f.name == "reading_by_candle" for f in funcs)
        bad = []
        for f in funcs:
            if f.name in RESOLVERS:
                continue
            for n in ast.walk(f.node):
                if isinstance(n, ast.Attribute) and n.attr in ("indicators", "sub_indicators") and not (f.cls is not None and f.cls.name == "Hexital" and ast.unparse(n) in ("self._indicators",)):
                    if f.name in ("_find_calc_index", "_set_reading", "calculate"):
                        continue
                    if ast.unparse(n.value).startswith("self") and n.attr == "sub_indicators" and isinstance(n.value, ast.Name):
                        continue  # the indicator's own helper registry, not candle readings
                    bad.append((f, n))
        if hits_resolver and not bad:
            res.ok("R-FUNNEL", {"accessor": f"{cls}.{nm}", "via": sorted(f.qualname for f in funcs if f.name not in RESOLVERS)[:8]}, nontrivial=f"{cls}.{nm}")
        elif not hits_resolver:
            res.fail("R-FUNNEL", finding("C20", "R-FUNNEL", m, m.node, "accessor does not obtain its readings through reading_by_candle", construct=f"{cls}.{nm}: resolver not reached"))
        for f, n in bad:
            res.fail("R-FUNNEL", finding("C20", "R-FUNNEL", f, n, f"{f.qualname} (reached from {cls}.{nm}) reads candle reading dicts directly instead of going through reading_by_candle"))
        e = eff.effect(m)
        if e:
            for root, node, why in eff.effect_sites(m)[:2]:
                res.fail("R-EFFECT", finding("C20", "R-EFFECT", m, node, f"accessor keeps state ({why}): cached answers can disagree with the candles (e.g. after trimming)"))
        else:
            res.ok("R-EFFECT", {"accessor": f"{cls}.{nm}", "effect_set": []})
    # R-TRUTH on accessors and resolvers
    scope: List[FuncInfo] = [repo.method(m, c, n) for m, c, n in ACCESSORS]
    for fn in [x for x in ("reading_by_index", "reading_by_candle", "_nested_indicator", "reading_count", "reading_period", "candles_sum") if not (x.startswith("_") and not isinstance(repo.resolve(repo.module("hexital.utils.candles"), x), FuncInfo))]:
        scope.append(repo.func("hexital.utils.candles", fn))
    for f in scope:
        sites = truthiness_sites(f.node)
        if not sites:
            res.ok("R-TRUTH", {"function": f.qualname, "why": "no looked-up reading in boolean context"}, nontrivial=f.qualname)
        for s in sites:
            res.fail("R-TRUTH", finding("C20", "R-TRUTH", f, s, "a looked-up reading is tested by truthiness / `or`: a reading of 0 or False counts as absent"))
    # presence: true exactly when the reading asked for is not None (evaluated over reading values incl. 0, False, {}, a dict of Nones)
    check_presence(res, repo)
    rc = repo.func("hexital.utils.candles", "reading_count")
    tests = [n for n in ast.walk(rc.node) if isinstance(n, ast.Compare) and isinstance(n.ops[0], ast.Is)]
    revs = [c for c in calls_in(rc.node) if call_name(c) == "reversed"]
    # exactly two exits: the running count at the first missing reading (inside the newest-first scan) and len(candles) after it
    loops = [n for n in rc.node.body if isinstance(n, ast.For)]
    all_rets = [n for n in ast.walk(rc.node) if isinstance(n, ast.Return)]
    shape = False
    _rc_defs = {}
    for n_ in ast.walk(rc.node):
        if isinstance(n_, ast.Assign) and len(n_.targets) == 1 and isinstance(n_.targets[0], ast.Name):
            _rc_defs.setdefault(n_.targets[0].id, []).append(n_.value)
    _it = loops[0].iter if loops else None
    if isinstance(_it, ast.Name) and len(_rc_defs.get(_it.id, ())) == 1:
        _it = _rc_defs[_it.id][0]  # the scanned iterable held in a local
    if len(loops) == 1 and len(all_rets) == 2 and isinstance(loops[0].target, ast.Tuple) and isinstance(_it, ast.Call) and call_name(_it) == "enumerate":
        counter = ast.unparse(loops[0].target.elts[0])
        inner = [r for r in all_rets if r in list(ast.walk(loops[0]))]
        last = rc.node.body[-1]
        shape = len(inner) == 1 and ast.unparse(inner[0].value) == counter and isinstance(last, ast.Return) and ast.unparse(last.value).replace(" ", "") == f"len({rc.params[0]})" and rc.node.body.index(loops[0]) == len(rc.node.body) - 2 and all(not isinstance(x, (ast.If, ast.Return)) for x in rc.node.body[: rc.node.body.index(loops[0])]) and isinstance(_it.args[0], ast.Call) and call_name(_it.args[0]) == "reversed" and ast.unparse(_it.args[0].args[0]) == rc.params[0]
    # the same count written with itertools.takewhile:  sum(1 for _ in takewhile(lambda c: <reading of c> is not None, reversed(candles)))
    tw = [c for c in calls_in(rc.node) if call_name(c) == "takewhile" and len(c.args) == 2 and isinstance(c.args[0], ast.Lambda) and isinstance(c.args[1], ast.Call) and call_name(c.args[1]) == "reversed" and ast.unparse(c.args[1].args[0]) == rc.params[0]]
    if tw and not shape:
        body = tw[0].args[0].body
        pred_ok = isinstance(body, ast.Compare) and len(body.ops) == 1 and isinstance(body.ops[0], ast.IsNot) and isinstance(body.comparators[0], ast.Constant) and body.comparators[0].value is None and isinstance(body.left, ast.Call) and call_name(body.left) == "reading_by_candle"
        counted = any(isinstance(n, ast.Call) and call_name(n) in ("sum", "len") for n in ast.walk(rc.node))
        n_rets = len([n for n in ast.walk(rc.node) if isinstance(n, ast.Return)])
        shape = pred_ok and counted and n_rets == 1
        tests = tests or ([body] if pred_ok else [])
    from ..contracts import sem_gate as _gate

    if _gate("C20", res, repo, ("reading_count",), rule="R-CONTRACT"):
        pass
    elif tests and revs and shape:
        res.ok("R-CONTRACT", {"helper": "reading_count", "why": "counts trailing candles until the first `is None`"}, nontrivial="reading_count")
    else:
        res.fail("R-CONTRACT", finding("C20", "R-CONTRACT", rc, rc.node, "reading_count no longer counts trailing candles up to the first missing reading", construct="reading_count: reversed scan, is None"))
    # Hexital.reading finds the reading wherever its indicator's candles live: default manager first, then every manager
    hr = repo.method("hexital.core.hexital", "Hexital", "reading")
    check_reading_search(res, repo, hr)
    # prev_reading offsets
    hp = repo.method("hexital.core.hexital", "Hexital", "prev_reading")
    c = [x for x in calls_in(hp.node) if call_target(x) == "self.reading"]
    ok = len(c) == 1 and any(ast.unparse(k.value) == "-2" for k in c[0].keywords if k.arg == "index") or (len(c) == 1 and len(c[0].args) == 2 and ast.unparse(c[0].args[1]) == "-2")
    (res.ok("R-CONTRACT", {"helper": "Hexital.prev_reading", "index": -2}) if ok else res.fail("R-CONTRACT", finding("C20", "R-CONTRACT", hp, hp.node, "Hexital.prev_reading must read index -2", construct="Hexital.prev_reading: index")))
    ip = repo.method("hexital.core.indicator", "Indicator", "prev_reading")
    from ..contracts import check_wrappers
    from ..core import Result as _R

    tmp = _R("C20", res.tier)
    from ..helpersem import verdict as _verdict

    _v = _verdict(repo, "Indicator.prev_reading")
    if _v[0] == "undecided":
        check_wrappers("C20", tmp, repo)
    ok = _v[0] == "ok" or (_v[0] == "undecided" and not any(f.function.endswith("prev_reading") for f in tmp.findings))
    (res.ok("R-CONTRACT", {"helper": "Indicator.prev_reading", "why": "None at index 0, else index - 1"}) if ok else res.fail("R-CONTRACT", finding("C20", "R-CONTRACT", ip, ip.node, "Indicator.prev_reading must return None at index 0 and read _active_index - 1 otherwise", construct="Indicator.prev_reading: guard/offset")))
    check_index_contracts(res, repo)
    check_resolver_shape(res, repo)
    res.universe = {"accessors": [f"{c}.{n}" for _, c, n in ACCESSORS], "helpers": ["valid_index", "absindex", "reading_by_index", "reading_by_candle", "_nested_indicator", "reading_count"]}
    res.rule("R-FUNNEL", floor=13)
    res.rule("R-CONTRACT", floor=8)
    res.rule("R-TRUTH", floor=15)
    # default position of reading()/prev_reading()/has_reading after calculate() is the newest candle; names never contain the separator
    check_active_cursor("C20", res, repo)
    from ..framework_rules import check_cursor_kept

    check_cursor_kept("C20", res, repo)
    check_name_sanitised("C20", res, repo)
    from ..framework_rules import check_name_matching

    check_name_matching("C20", res, repo)
    # Hexital.reading looks the name up on the managers in its registry, Indicator.reading on the manager the indicator is bound to:
    # they agree only while every indicator's manager is the registered one for its timeframe
    from ..framework_rules import check_registry_writers
    from .c08 import check_binding

    check_binding(res, repo, prop="C20", raw_required=False)
    check_registry_writers("C20", res, repo)
    return res
