"""shared helpers for the property modules"""
from __future__ import annotations

from typing import List

from ..indic import ClassAnalysis, analyse_class
from ..model import Repo


def shipped_analyses(repo: Repo, res=None) -> List[ClassAnalysis]:
    out = []
    for ci in repo.shipped():
        ca = analyse_class(repo, ci)
        if ca.error and res is not None:
            res.errors.append(f"{ci.where} {ci.name}: {ca.error}")
        out.append(ca)
    man = repo.managed()
    return out


def calc_scope_functions(repo: Repo):
    """methods that run while readings are calculated (the framework side)"""
    out = []
    for name in ("calculate", "calculate_index", "_calculate_sub_indicators", "_set_reading", "_find_calc_index", "_set_active_index",
                 "prev_exists", "prev_reading", "reading", "reading_period", "candles_sum", "read_candle"):
        out.append(repo.method("hexital.core.indicator", "Indicator", name))
    out.append(repo.method("hexital.core.indicator", "Managed", "set_reading"))
    out.append(repo.method("hexital.core.indicator", "Managed", "set_active_index"))
    for ci in repo.shipped():
        m = repo.find_method(ci, "_calculate_reading")
        if m is not None and m.cls is not repo.indicator_base():
            out.append(m)
    return out
