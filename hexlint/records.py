"""Dissolving value classes that are not part of the pinned tree's decomposition.

A refactoring may bundle a few locals into a small immutable record (`class Lines(NamedTuple)`, a frozen dataclass) or replace literal
arguments by a table of such records.  No rule models these classes; instead of teaching every rule about them, the records are
replaced by their fields before anything is indexed (scalar replacement of aggregates), which is the inverse of the refactoring:

  fold      R(a, b).x -> a        R(a, b)._asdict() -> {"x": a, "y": b}        R(a, b)._replace(y=c) -> R(a, c)       R(a, b)[1] -> b
            {K1: v1, K2: v2}[K1] -> v1   (literal table, constant key)
  locals    a local that only ever holds records of one class (`v = R(..)`, `v = w`, `v = w._replace(..)`) and is only used through
            its fields (`v.x`, `v._asdict()`, `v[i]`, `a, b = v`, iteration) is replaced by one local per field, store by store
  params    a parameter of a package function annotated with the record class (possibly Optional, default None) is replaced by one
            parameter per field plus a presence flag; every call site passes the fields

A record that is used in any other way (returned from a pinned function, stored in an attribute, passed to unknown code) is left alone;
the class then survives loading and everything that relies on it is reported as undecided (model.Repo.tainted)."""
from __future__ import annotations

import ast
import copy
from typing import Dict, List, Optional

from .anchors import PINNED_CLASSES


class Record:
    def __init__(self, node: ast.ClassDef, kind: str):
        self.node, self.kind, self.name = node, kind, node.name
        self.fields: List[str] = []
        self.defaults: Dict[str, ast.AST] = {}
        for st in node.body:
            if isinstance(st, ast.AnnAssign) and isinstance(st.target, ast.Name):
                self.fields.append(st.target.id)
                if st.value is not None:
                    self.defaults[st.target.id] = st.value

    def ctor_args(self, call: ast.Call) -> Optional[List[ast.AST]]:
        """positional, complete argument list of a constructor call (defaults filled in)"""
        if any(isinstance(a, ast.Starred) for a in call.args) or any(k.arg is None for k in call.keywords) or len(call.args) > len(self.fields):
            return None
        got: Dict[str, ast.AST] = dict(zip(self.fields, call.args))
        for k in call.keywords:
            if k.arg not in self.fields or k.arg in got:
                return None
            got[k.arg] = k.value
        out = []
        for f in self.fields:
            if f in got:
                out.append(got[f])
            elif f in self.defaults:
                out.append(copy.deepcopy(self.defaults[f]))
            else:
                return None
        return out


def find_records(trees) -> Dict[str, Record]:
    out: Dict[str, Record] = {}
    seen: Dict[str, int] = {}
    for t in trees:
        for node in ast.walk(t):
            if isinstance(node, ast.ClassDef):
                seen[node.name] = seen.get(node.name, 0) + 1
    for t in trees:
        for node in t.body:
            if not isinstance(node, ast.ClassDef) or node.name in PINNED_CLASSES or seen.get(node.name) != 1:
                continue
            bases = [ast.unparse(b).split(".")[-1] for b in node.bases]
            decos = [ast.unparse(d) for d in node.decorator_list]
            kind = None
            if bases == ["NamedTuple"] and not decos:
                kind = "namedtuple"
            elif not bases and len(decos) == 1 and decos[0].replace(" ", "") in ("dataclass(frozen=True)", "dataclasses.dataclass(frozen=True)"):
                kind = "dataclass"
            if kind is None:
                continue
            r = Record(node, kind)
            if r.fields and not any(isinstance(st, ast.FunctionDef) and st.name in ("__new__", "__init__", "__post_init__", "__getattr__", "__iter__", "__getitem__") for st in node.body):
                out[node.name] = r
    return out


def _is_ctor(e, recs) -> Optional[Record]:
    if isinstance(e, ast.Call) and isinstance(e.func, ast.Name) and e.func.id in recs:
        return recs[e.func.id]
    return None


def _key_dump(k) -> Optional[str]:
    if isinstance(k, ast.Constant):
        return repr(k.value)
    if isinstance(k, ast.Attribute) and isinstance(k.value, ast.Name):
        return f"{k.value.id}.{k.attr}"
    return None


class _Fold(ast.NodeTransformer):
    def __init__(self, recs):
        self.recs = recs
        self.changed = False

    def visit_Attribute(self, node):
        self.generic_visit(node)
        r = _is_ctor(node.value, self.recs)
        if r is not None and isinstance(node.ctx, ast.Load) and node.attr in r.fields:
            args = r.ctor_args(node.value)
            if args is not None:
                self.changed = True
                return ast.copy_location(args[r.fields.index(node.attr)], node)
        return node

    def visit_IfExp(self, node):
        self.generic_visit(node)
        ra, rb = _is_ctor(node.body, self.recs), _is_ctor(node.orelse, self.recs)
        if ra is not None and ra is rb:
            a, b = ra.ctor_args(node.body), ra.ctor_args(node.orelse)
            if a is not None and b is not None:
                # R(a1, a2) if c else R(b1, b2)  ->  R(a1 if c else b1, a2 if c else b2)
                args = [x if ast.dump(x) == ast.dump(y) else ast.copy_location(ast.IfExp(test=copy.deepcopy(node.test), body=x, orelse=y), node) for x, y in zip(a, b)]
                self.changed = True
                return ast.copy_location(ast.Call(func=ast.Name(id=ra.name, ctx=ast.Load()), args=args, keywords=[]), node)
        return node

    def visit_Subscript(self, node):
        self.generic_visit(node)
        if not isinstance(node.ctx, ast.Load):
            return node
        r = _is_ctor(node.value, self.recs)
        if r is not None and r.kind == "namedtuple" and isinstance(node.slice, ast.Constant) and isinstance(node.slice.value, int):
            args = r.ctor_args(node.value)
            if args is not None and -len(args) <= node.slice.value < len(args):
                self.changed = True
                return ast.copy_location(args[node.slice.value], node)
        if isinstance(node.value, ast.Dict) and node.value.keys and all(k is not None for k in node.value.keys):
            want = _key_dump(node.slice)
            keys = [_key_dump(k) for k in node.value.keys]
            if want is not None and all(k is not None for k in keys) and keys.count(want) == 1:
                self.changed = True
                return ast.copy_location(node.value.values[keys.index(want)], node)
        return node

    def visit_Call(self, node):
        self.generic_visit(node)
        f = node.func
        if isinstance(f, ast.Attribute):
            r = _is_ctor(f.value, self.recs)
            if r is not None:
                args = r.ctor_args(f.value)
                if args is not None:
                    if f.attr == "_asdict" and r.kind == "namedtuple" and not node.args and not node.keywords:
                        self.changed = True
                        return ast.copy_location(ast.Dict(keys=[ast.Constant(value=x) for x in r.fields], values=args), node)
                    if f.attr == "_replace" and r.kind == "namedtuple" and not node.args and all(k.arg in r.fields for k in node.keywords):
                        for k in node.keywords:
                            args[r.fields.index(k.arg)] = k.value
                        self.changed = True
                        return ast.copy_location(ast.Call(func=ast.Name(id=r.name, ctx=ast.Load()), args=args, keywords=[]), node)
        # asdict(R(..)) / replace(R(..), k=v) of dataclasses
        if isinstance(f, (ast.Name, ast.Attribute)) and node.args and _is_ctor(node.args[0], self.recs) is not None:
            nm = f.id if isinstance(f, ast.Name) else f.attr
            r = _is_ctor(node.args[0], self.recs)
            args = r.ctor_args(node.args[0])
            if args is not None and r.kind == "dataclass":
                if nm == "asdict" and len(node.args) == 1 and not node.keywords:
                    self.changed = True
                    return ast.copy_location(ast.Dict(keys=[ast.Constant(value=x) for x in r.fields], values=args), node)
                if nm == "replace" and len(node.args) == 1 and all(k.arg in r.fields for k in node.keywords):
                    for k in node.keywords:
                        args[r.fields.index(k.arg)] = k.value
                    self.changed = True
                    return ast.copy_location(ast.Call(func=ast.Name(id=r.name, ctx=ast.Load()), args=args, keywords=[]), node)
        return node


# ---------------------------------------------------------------------------------------------------------------------------------
# local scalar replacement


def _fieldvar(v: str, f: str) -> str:
    return f"{v}__{f}"


class _LocalSROA:
    """one function: record-holding locals -> one local per field"""

    def __init__(self, fn: ast.FunctionDef, recs: Dict[str, Record], param_recs: Dict[str, Record]):
        self.fn, self.recs = fn, recs
        self.param_recs = param_recs  # parameters already known to hold records (after parameter expansion): name -> Record
        self.changed = False

    def _parents(self):
        par = {}
        for n in ast.walk(self.fn):
            for c in ast.iter_child_nodes(n):
                par[id(c)] = n
        return par

    def candidates(self) -> Dict[str, Record]:
        """name -> record class, for names whose every store is a record of one class"""
        cls: Dict[str, Optional[str]] = {}
        copies = []  # (target, source)
        bad = set()
        params = {a.arg for a in self.fn.args.args + self.fn.args.kwonlyargs + self.fn.args.posonlyargs}
        if self.fn.args.vararg:
            params.add(self.fn.args.vararg.arg)
        if self.fn.args.kwarg:
            params.add(self.fn.args.kwarg.arg)
        nested = set()
        for n in ast.walk(self.fn):
            if isinstance(n, (ast.FunctionDef, ast.Lambda, ast.ClassDef)) and n is not self.fn:
                for m in ast.walk(n):
                    if isinstance(m, ast.Name):
                        nested.add(m.id)
        self.none_stored = set()

        def store(name, value):
            if name in params or name in nested:
                bad.add(name)
                return
            if isinstance(value, ast.Constant) and value.value is None:
                self.none_stored.add(name)  # "no record": allowed as long as the name is never tested for None afterwards
                return
            r = _is_ctor(value, self.recs) if value is not None else None
            if r is not None and r.ctor_args(value) is not None:
                if cls.setdefault(name, r.name) != r.name:
                    bad.add(name)
                return
            if isinstance(value, ast.Name):
                copies.append((name, value.id))
                return
            if isinstance(value, ast.Call) and isinstance(value.func, ast.Attribute) and value.func.attr == "_replace" and isinstance(value.func.value, ast.Name) and not value.args:
                copies.append((name, value.func.value.id))
                return
            bad.add(name)

        for n in ast.walk(self.fn):
            if isinstance(n, ast.Assign):
                for t in n.targets:
                    if isinstance(t, ast.Name):
                        store(t.id, n.value)
                    else:
                        for x in ast.walk(t):
                            if isinstance(x, ast.Name) and isinstance(x.ctx, ast.Store):
                                bad.add(x.id)
            elif isinstance(n, ast.AnnAssign) and isinstance(n.target, ast.Name):
                if n.value is None:
                    bad.add(n.target.id)
                else:
                    store(n.target.id, n.value)
            elif isinstance(n, (ast.AugAssign,)) and isinstance(n.target, ast.Name):
                bad.add(n.target.id)
            elif isinstance(n, (ast.For, ast.comprehension)):
                for x in ast.walk(n.target):
                    if isinstance(x, ast.Name):
                        bad.add(x.id)
            elif isinstance(n, (ast.With,)):
                for it in n.items:
                    if it.optional_vars is not None:
                        for x in ast.walk(it.optional_vars):
                            if isinstance(x, ast.Name):
                                bad.add(x.id)
            elif isinstance(n, ast.NamedExpr) and isinstance(n.target, ast.Name):
                bad.add(n.target.id)
            elif isinstance(n, ast.ExceptHandler) and n.name:
                bad.add(n.name)
            elif isinstance(n, ast.Delete):
                for t in n.targets:
                    for x in ast.walk(t):
                        if isinstance(x, ast.Name):
                            bad.add(x.id)
        for p, r in self.param_recs.items():
            cls[p] = r.name
        # copies: class flows from the source; a copy from a non-record makes the target bad
        grew = True
        while grew:
            grew = False
            for t, s in copies:
                if s in cls and s not in bad:
                    if t not in cls:
                        cls[t] = cls[s]
                        grew = True
                    elif cls[t] != cls[s]:
                        if t not in bad:
                            bad.add(t)
                            grew = True
        for t, s in copies:
            if s not in cls or s in bad:
                bad.add(t)
        grew = True
        while grew:
            grew = False
            for t, s in copies:
                if s in self.none_stored and t not in self.none_stored:
                    self.none_stored.add(t)
                    grew = True
        # a bad source poisons nothing further (its copies were marked above); a bad target poisons its source's dissolution? no: the
        # copy `t = s` with t bad would need the whole record of s: s cannot be dissolved either
        grew = True
        while grew:
            grew = False
            for t, s in copies:
                if t in bad and s in cls and s not in bad:
                    bad.add(s)
                    grew = True
                if s in bad and t not in bad:
                    bad.add(t)
                    grew = True
        return {k: self.recs[v] for k, v in cls.items() if k not in bad and v in self.recs}

    def uses_ok(self, cands: Dict[str, Record]) -> Dict[str, Record]:
        par = self._parents()
        bad = set()
        for n in ast.walk(self.fn):
            if not (isinstance(n, ast.Name) and n.id in cands and isinstance(n.ctx, ast.Load)):
                continue
            r = cands[n.id]
            p = par.get(id(n))
            ok = False
            if isinstance(p, ast.Attribute) and p.value is n and isinstance(p.ctx, ast.Load):
                if p.attr in r.fields:
                    ok = True
                else:
                    pp = par.get(id(p))
                    if isinstance(pp, ast.Call) and pp.func is p:
                        if p.attr == "_asdict" and r.kind == "namedtuple" and not pp.args and not pp.keywords:
                            ok = True
                        elif p.attr == "_replace" and r.kind == "namedtuple" and not pp.args and all(k.arg in r.fields for k in pp.keywords):
                            # only as the whole right-hand side of a store to a candidate
                            ppp = par.get(id(pp))
                            ok = isinstance(ppp, (ast.Assign, ast.AnnAssign)) and ppp.value is pp and all(isinstance(t, ast.Name) and t.id in cands for t in (ppp.targets if isinstance(ppp, ast.Assign) else [ppp.target]))
            elif isinstance(p, (ast.Assign, ast.AnnAssign)) and p.value is n:
                tg = p.targets if isinstance(p, ast.Assign) else [p.target]
                if all(isinstance(t, ast.Name) and t.id in cands for t in tg):
                    ok = True
                elif r.kind == "namedtuple" and len(tg) == 1 and isinstance(tg[0], (ast.Tuple, ast.List)) and len(tg[0].elts) == len(r.fields) and not any(isinstance(e, ast.Starred) for e in tg[0].elts):
                    ok = True
            elif isinstance(p, ast.Subscript) and p.value is n and r.kind == "namedtuple" and isinstance(p.slice, ast.Constant) and isinstance(p.slice.value, int) and -len(r.fields) <= p.slice.value < len(r.fields) and isinstance(p.ctx, ast.Load):
                ok = True
            elif isinstance(p, (ast.For, ast.comprehension)) and p.iter is n and r.kind == "namedtuple":
                ok = True
            elif isinstance(p, ast.Compare) and len(p.ops) == 1 and isinstance(p.ops[0], (ast.Is, ast.IsNot)) and isinstance(p.comparators[0], ast.Constant) and p.comparators[0].value is None and p.left is n:
                ok = n.id not in self.none_stored  # a record is never None (unless None is stored in the name somewhere)
            elif isinstance(p, ast.Call) and n in p.args and isinstance(p.func, ast.Name) and p.func.id in ("asdict",) and r.kind == "dataclass" and len(p.args) == 1:
                ok = True
            if not ok:
                bad.add(n.id)
        # dropping one member of a copy family breaks the others
        grew = True
        while grew:
            grew = False
            for n in ast.walk(self.fn):
                if isinstance(n, (ast.Assign, ast.AnnAssign)):
                    tg = [t.id for t in (n.targets if isinstance(n, ast.Assign) else [n.target]) if isinstance(t, ast.Name)]
                    src = n.value.id if isinstance(n.value, ast.Name) else n.value.func.value.id if isinstance(n.value, ast.Call) and isinstance(n.value.func, ast.Attribute) and isinstance(n.value.func.value, ast.Name) and n.value.func.attr == "_replace" else None
                    fam = [x for x in tg + ([src] if src else []) if x in cands]
                    if any(x in bad for x in fam) and any(x not in bad for x in fam):
                        bad.update(fam)
                        grew = True
        return {k: v for k, v in cands.items() if k not in bad}

    def run(self) -> bool:
        cands = self.candidates()
        if not cands:
            return False
        cands = self.uses_ok(cands)
        if not cands:
            return False
        self.cands = cands
        self.fn.body = self.block(self.fn.body)
        _Uses(cands).visit(self.fn)
        ast.fix_missing_locations(self.fn)
        return True

    def block(self, stmts):
        out = []
        for st in stmts:
            out.extend(self.stmt(st))
        return out

    def stmt(self, st):
        for f in ("body", "orelse", "finalbody"):
            v = getattr(st, f, None)
            if isinstance(v, list) and v and isinstance(v[0], ast.stmt):
                setattr(st, f, self.block(v))
        for h in getattr(st, "handlers", []) or []:
            h.body = self.block(h.body)
        if isinstance(st, (ast.Assign, ast.AnnAssign)):
            tg = st.targets if isinstance(st, ast.Assign) else [st.target]
            names = [t.id for t in tg if isinstance(t, ast.Name)]
            if names and all(n in self.cands for n in names) and len(names) == len(tg):
                r = self.cands[names[0]]
                v = st.value
                vals = None
                if isinstance(v, ast.Constant) and v.value is None:
                    vals = [ast.Constant(value=None) for _ in r.fields]
                elif _is_ctor(v, self.recs) is not None:
                    vals = r.ctor_args(v)
                elif isinstance(v, ast.Name) and v.id in self.cands:
                    vals = [ast.Name(id=_fieldvar(v.id, f), ctx=ast.Load()) for f in r.fields]
                elif isinstance(v, ast.Call) and isinstance(v.func, ast.Attribute) and v.func.attr == "_replace" and isinstance(v.func.value, ast.Name) and v.func.value.id in self.cands:
                    src = v.func.value.id
                    vals = [ast.Name(id=_fieldvar(src, f), ctx=ast.Load()) for f in r.fields]
                    for k in v.keywords:
                        vals[r.fields.index(k.arg)] = k.value
                if vals is not None:
                    out = []
                    # evaluate every new field value before any field variable is overwritten (v = v._replace(a=v.b, b=v.a))
                    tmp_needed = any(isinstance(x, ast.Name) and x.id in {_fieldvar(n, f) for n in names for f in r.fields} for val in vals for x in ast.walk(val)) and not all(isinstance(val, ast.Name) and val.id == _fieldvar(names[0], f) for val, f in zip(vals, r.fields) if isinstance(val, ast.Name) and val.id.startswith(names[0] + "__"))
                    for n in names:
                        for f, val in zip(r.fields, vals):
                            if isinstance(val, ast.Name) and val.id == _fieldvar(n, f):
                                continue  # unchanged field of `v = v._replace(..)`
                            out.append(ast.copy_location(ast.Assign(targets=[ast.Name(id=_fieldvar(n, f), ctx=ast.Store())], value=copy.deepcopy(val)), st))
                    if tmp_needed and len(out) > 1:
                        # two-phase: temporaries first
                        pre, post = [], []
                        for i, a in enumerate(out):
                            t = f"{a.targets[0].id}__new"
                            pre.append(ast.copy_location(ast.Assign(targets=[ast.Name(id=t, ctx=ast.Store())], value=a.value), st))
                            post.append(ast.copy_location(ast.Assign(targets=[a.targets[0]], value=ast.Name(id=t, ctx=ast.Load())), st))
                        out = pre + post
                    self.changed = True
                    return out or [ast.copy_location(ast.Pass(), st)]
            if len(tg) == 1 and isinstance(tg[0], (ast.Tuple, ast.List)) and isinstance(st.value, ast.Name) and st.value.id in self.cands:
                r = self.cands[st.value.id]
                self.changed = True
                return [ast.copy_location(ast.Assign(targets=[t], value=ast.Name(id=_fieldvar(st.value.id, f), ctx=ast.Load())), st) for t, f in zip(tg[0].elts, r.fields)]
        return [st]


class _Uses(ast.NodeTransformer):
    """remaining loads of dissolved locals"""

    def __init__(self, cands):
        self.cands = cands

    def _tuple(self, name):
        r = self.cands[name]
        return ast.Tuple(elts=[ast.Name(id=_fieldvar(name, f), ctx=ast.Load()) for f in r.fields], ctx=ast.Load())

    def visit_Attribute(self, node):
        if isinstance(node.value, ast.Name) and node.value.id in self.cands and isinstance(node.ctx, ast.Load) and node.attr in self.cands[node.value.id].fields:
            return ast.copy_location(ast.Name(id=_fieldvar(node.value.id, node.attr), ctx=ast.Load()), node)
        self.generic_visit(node)
        return node

    def visit_Call(self, node):
        f = node.func
        if isinstance(f, ast.Attribute) and isinstance(f.value, ast.Name) and f.value.id in self.cands and f.attr == "_asdict":
            r = self.cands[f.value.id]
            return ast.copy_location(ast.Dict(keys=[ast.Constant(value=x) for x in r.fields], values=[ast.Name(id=_fieldvar(f.value.id, x), ctx=ast.Load()) for x in r.fields]), node)
        if isinstance(f, ast.Name) and f.id == "asdict" and len(node.args) == 1 and isinstance(node.args[0], ast.Name) and node.args[0].id in self.cands:
            r = self.cands[node.args[0].id]
            return ast.copy_location(ast.Dict(keys=[ast.Constant(value=x) for x in r.fields], values=[ast.Name(id=_fieldvar(node.args[0].id, x), ctx=ast.Load()) for x in r.fields]), node)
        self.generic_visit(node)
        return node

    def visit_Subscript(self, node):
        if isinstance(node.value, ast.Name) and node.value.id in self.cands and isinstance(node.slice, ast.Constant) and isinstance(node.slice.value, int):
            r = self.cands[node.value.id]
            return ast.copy_location(ast.Name(id=_fieldvar(node.value.id, r.fields[node.slice.value]), ctx=ast.Load()), node)
        self.generic_visit(node)
        return node

    def visit_Compare(self, node):
        if isinstance(node.left, ast.Name) and node.left.id in self.cands and len(node.ops) == 1 and isinstance(node.ops[0], (ast.Is, ast.IsNot)):
            return ast.copy_location(ast.Constant(value=isinstance(node.ops[0], ast.IsNot)), node)
        self.generic_visit(node)
        return node

    def visit_For(self, node):
        if isinstance(node.iter, ast.Name) and node.iter.id in self.cands:
            node.iter = self._tuple(node.iter.id)
        self.generic_visit(node)
        return node

    def visit_comprehension(self, node):
        if isinstance(node.iter, ast.Name) and node.iter.id in self.cands:
            node.iter = self._tuple(node.iter.id)
        self.generic_visit(node)
        return node


# ---------------------------------------------------------------------------------------------------------------------------------
# parameters


def _ann_record(ann, recs) -> Optional[Record]:
    """the record class named by a parameter annotation: R, "R", Optional[R], R | None"""
    if ann is None:
        return None
    if isinstance(ann, ast.Constant) and isinstance(ann.value, str):
        try:
            ann = ast.parse(ann.value, mode="eval").body
        except SyntaxError:
            return None
    if isinstance(ann, ast.Name) and ann.id in recs:
        return recs[ann.id]
    if isinstance(ann, ast.Subscript) and ast.unparse(ann.value).split(".")[-1] == "Optional":
        return _ann_record(ann.slice, recs)
    if isinstance(ann, ast.BinOp) and isinstance(ann.op, ast.BitOr):
        for a, b in ((ann.left, ann.right), (ann.right, ann.left)):
            if isinstance(b, ast.Constant) and b.value is None:
                return _ann_record(a, recs)
    return None


def expand_params(trees, recs) -> bool:
    """package functions with a record-typed parameter: one parameter per field plus a presence flag.  Done only when every call of
    that (uniquely named) function passes a constructor call, a record-typed name, None, or nothing for it"""
    defs: Dict[str, list] = {}
    for t in trees:
        for n in ast.walk(t):
            if isinstance(n, ast.FunctionDef):
                defs.setdefault(n.name, []).append(n)
    changed = False
    for name, fns in defs.items():
        if len(fns) != 1:
            continue
        fn = fns[0]
        a = fn.args
        if a.vararg or a.kwarg or a.posonlyargs or a.kwonlyargs:
            continue
        params = [x.arg for x in a.args]
        ndef = len(a.defaults)
        defaults = dict(zip(params[len(params) - ndef:], a.defaults))
        targets = [(i, x.arg, _ann_record(x.annotation, recs)) for i, x in enumerate(a.args)]
        targets = [(i, p, r) for i, p, r in targets if r is not None and (p not in defaults or (isinstance(defaults[p], ast.Constant) and defaults[p].value is None) or (_is_ctor(defaults[p], recs) is r and r.ctor_args(defaults[p]) is not None and all(isinstance(x, ast.Constant) for x in r.ctor_args(defaults[p]))))]
        if not targets:
            continue
        # the parameter must only be used through fields / None tests, and never re-bound
        i, p, r = targets[0]
        if any(isinstance(n, ast.Name) and n.id == p and isinstance(n.ctx, (ast.Store, ast.Del)) for n in ast.walk(fn)):
            continue
        par = {}
        for n in ast.walk(fn):
            for c in ast.iter_child_nodes(n):
                par[id(c)] = n
        ok = True
        for n in ast.walk(fn):
            if isinstance(n, ast.Name) and n.id == p and isinstance(n.ctx, ast.Load):
                q = par.get(id(n))
                if isinstance(q, ast.Attribute) and q.value is n and q.attr in r.fields and isinstance(q.ctx, ast.Load):
                    continue
                if isinstance(q, ast.Compare) and q.left is n and len(q.ops) == 1 and isinstance(q.ops[0], (ast.Is, ast.IsNot)) and isinstance(q.comparators[0], ast.Constant) and q.comparators[0].value is None:
                    continue
                if isinstance(q, ast.Call) and n in q.args and _call_name(q) == fn.name:
                    continue  # passed on to itself (same expansion applies)
                ok = False
        if not ok:
            continue
        is_method = bool(params) and params[0] in ("self", "cls")
        # call sites
        sites = []
        for t in trees:
            for n in ast.walk(t):
                if isinstance(n, ast.Call) and _call_name(n) == name:
                    sites.append(n)
                elif isinstance(n, ast.Name) and n.id == name and isinstance(n.ctx, ast.Load):
                    pn = None
                elif isinstance(n, ast.Attribute) and n.attr == name and isinstance(n.ctx, ast.Load):
                    pass
        # references that are not calls (the function passed around) forbid the change
        callfuncs = {id(s.func) for s in sites}
        if any((isinstance(n, ast.Name) and n.id == name and isinstance(n.ctx, ast.Load) or isinstance(n, ast.Attribute) and n.attr == name and isinstance(n.ctx, ast.Load)) and id(n) not in callfuncs for t in trees for n in ast.walk(t)):
            continue
        pos = i - (1 if is_method else 0)
        plans = []
        for s in sites:
            if any(isinstance(x, ast.Starred) for x in s.args) or any(k.arg is None for k in s.keywords):
                ok = False
                break
            recv_bound = isinstance(s.func, ast.Attribute) or not is_method
            idx = pos if recv_bound else i
            arg, where = None, None
            if idx < len(s.args):
                arg, where = s.args[idx], ("pos", idx)
            else:
                for k in s.keywords:
                    if k.arg == p:
                        arg, where = k.value, ("kw", k)
            if arg is None:
                if p not in defaults:
                    ok = False
                    break
                plans.append((s, where, None))
                continue
            if isinstance(arg, ast.Constant) and arg.value is None:
                plans.append((s, where, "none"))
            elif _is_ctor(arg, recs) is r and r.ctor_args(arg) is not None:
                plans.append((s, where, "ctor"))
            elif isinstance(arg, ast.Name):
                plans.append((s, where, "name"))
            else:
                ok = False
                break
        if not ok:
            continue
        # rewrite the definition
        flag = f"{p}__present"
        new_args, new_defaults = [], []
        has_default = p in defaults
        for j, x in enumerate(a.args):
            if j != i:
                new_args.append(x)
            else:
                new_args.append(ast.arg(arg=flag, annotation=None))
                for f in r.fields:
                    new_args.append(ast.arg(arg=_fieldvar(p, f), annotation=None))
        # defaults: parameters after p keep theirs; p's own default None -> flag False, fields None
        tail = params[i + 1:]
        if has_default or any(q in defaults for q in tail):
            nd = []
            for q in params:
                if q == p:
                    if has_default or nd:
                        if has_default and _is_ctor(defaults[p], recs) is r:
                            nd.append(ast.Constant(value=True))
                            nd.extend(r.ctor_args(defaults[p]))
                        else:
                            nd.append(ast.Constant(value=False))
                            nd.extend(ast.Constant(value=None) for _ in r.fields)
                elif q in defaults:
                    nd.append(defaults[q])
                elif nd:
                    nd = None
                    break
            if nd is None:
                continue
            new_defaults = nd
        else:
            new_defaults = list(a.defaults)
        a.args, a.defaults = new_args, new_defaults
        # uses inside
        class _P(ast.NodeTransformer):
            def visit_Attribute(self_, node):
                if isinstance(node.value, ast.Name) and node.value.id == p and node.attr in r.fields:
                    return ast.copy_location(ast.Name(id=_fieldvar(p, node.attr), ctx=ast.Load()), node)
                self_.generic_visit(node)
                return node

            def visit_Compare(self_, node):
                if isinstance(node.left, ast.Name) and node.left.id == p and len(node.ops) == 1 and isinstance(node.ops[0], (ast.Is, ast.IsNot)):
                    nm = ast.Name(id=flag, ctx=ast.Load())
                    return ast.copy_location(nm if isinstance(node.ops[0], ast.IsNot) else ast.UnaryOp(op=ast.Not(), operand=nm), node)
                self_.generic_visit(node)
                return node

        for st in fn.body:
            _P().visit(st)
        # call sites
        for s, where, kind in plans:
            if where is None:
                continue
            if kind == "none":
                vals = [ast.Constant(value=False)] + [ast.Constant(value=None) for _ in r.fields]
            elif kind == "ctor":
                arg = s.args[where[1]] if where[0] == "pos" else where[1].value
                vals = [ast.Constant(value=True)] + r.ctor_args(arg)
            else:
                arg = s.args[where[1]] if where[0] == "pos" else where[1].value
                if arg.id == p and s in [x for x in ast.walk(fn) if isinstance(x, ast.Call)]:
                    vals = [ast.Name(id=flag, ctx=ast.Load())] + [ast.Name(id=_fieldvar(p, f), ctx=ast.Load()) for f in r.fields]
                else:
                    # a record-typed local of the caller: its fields after local dissolution (the presence flag is True: locals that
                    # may be None are not dissolved, and the call then keeps an undefined name -> the rules fail closed)
                    vals = [ast.Constant(value=True)] + [ast.Attribute(value=ast.Name(id=arg.id, ctx=ast.Load()), attr=f, ctx=ast.Load()) for f in r.fields]
            if where[0] == "pos":
                s.args[where[1]:where[1] + 1] = vals
            else:
                k = where[1]
                at = s.keywords.index(k)
                names_ = [flag] + [_fieldvar(p, f) for f in r.fields]
                s.keywords[at:at + 1] = [ast.keyword(arg=nn, value=vv) for nn, vv in zip(names_, vals)]
        for t in trees:
            ast.fix_missing_locations(t)
        changed = True
    return changed


def _call_name(c: ast.Call) -> Optional[str]:
    f = c.func
    return f.attr if isinstance(f, ast.Attribute) else f.id if isinstance(f, ast.Name) else None


# ---------------------------------------------------------------------------------------------------------------------------------


def dissolve_records(trees) -> bool:
    recs = find_records(trees)
    if not recs:
        return False
    changed = False
    for _ in range(4):
        step = False
        for t in trees:
            f = _Fold(recs)
            f.visit(t)
            step = step or f.changed
        if expand_params(trees, recs):
            step = True
        for t in trees:
            for fn in [n for n in ast.walk(t) if isinstance(n, ast.FunctionDef)]:
                # parameters named <p>__present mark an expanded record parameter: its fields are plain parameters now
                if _LocalSROA(fn, recs, {}).run():
                    step = True
        changed = changed or step
        if not step:
            break
    # a record class nobody refers to any more is gone
    for t in trees:
        for r in list(recs.values()):
            if r.node in t.body:
                own = {id(n) for n in ast.walk(r.node)}
                used = any((isinstance(n, ast.Name) and n.id == r.name or isinstance(n, ast.Attribute) and n.attr == r.name) and id(n) not in own for tt in trees for n in ast.walk(tt))
                if not used:
                    t.body.remove(r.node)
                    changed = True
    for t in trees:
        ast.fix_missing_locations(t)
    return changed
