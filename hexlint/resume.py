"""Semantic analysis of 'resume' scans (Indicator._find_calc_index, CandlestickType._find_conv_index and whatever they delegate to).

Model.  The list has n elements; the elements already handled form a prefix [0, m) (0 <= m <= n): readings / conversion tags are
written front to back and removed only wholesale or from the front.  `done(list[e])` therefore means  e < m.  The scan function is
summarised into guarded return cases over the symbols n and m:

  * straight-line `if`/`return`/assignments are followed path by path (conditions in DNF over linear atoms),
  * a delegation `return helper(list, lambda c: ...)` or `self._helper(i)` is inlined with its predicate bound,
  * `for v in range(a, b, -1): if done(list[v]): return E(v)` is replaced by its closed form (first hit at v = min(a, m-1) if that
    is > b, otherwise fall through); the ascending `if not done(list[v])` form likewise,

and every case must entail the specification in the polyhedra domain (Fourier-Motzkin, integer semantics):

  exact  (conversion):  result == m        -- nothing converted twice, nothing skipped
  calc   (readings)  :  0 <= result <= m   -- nothing skipped (re-visiting is harmless: the sweep skips present readings)
                        result >= m - 1    -- reported separately (bounded re-work, used by C07)

Nothing is executed; an unmodelled construct raises Unknown (the caller reports an analysis error, never a pass)."""
from __future__ import annotations

import ast
from typing import Dict, List, Optional, Tuple

from .absint import c_not, mk_cmp, show_cond
from .facts import prove_ge0
from .model import FuncInfo, Repo
from .poly import A, C, Frac, ONE, ZERO
from . import poly

N = Frac.atom(("sym", "n"))
M = Frac.atom(("sym", "m"))


class Unknown(Exception):
    pass


TRUE_DNF = [[]]
FALSE_DNF: List[list] = []


def dnf_and(a, b):
    out = []
    for x in a:
        for y in b:
            out.append(x + [c for c in y if c not in x])
    return out


def dnf_or(a, b):
    return a + [y for y in b if y not in a]


def dnf_not(a):
    # not (c1 or c2 ...) = and_i not c_i ;  not (x1 and x2 ..) = or_j not x_j
    out = TRUE_DNF
    for conj in a:
        neg = FALSE_DNF
        for atom in conj:
            neg = dnf_or(neg, atom_dnf(c_not(atom)))
        out = dnf_and(out, neg)
    return out


def atom_dnf(c):
    if c is True:
        return TRUE_DNF
    if c is False:
        return FALSE_DNF
    if isinstance(c, tuple) and c[0] == "cmp" and c[1] == "!=":
        d = c[2]
        return [[("cmp", "<", d)], [("cmp", "<", -d)]]
    if isinstance(c, tuple) and c[0] == "or":
        out = FALSE_DNF
        for x in c[1:]:
            out = dnf_or(out, atom_dnf(x))
        return out
    if isinstance(c, tuple) and c[0] == "and":
        out = TRUE_DNF
        for x in c[1:]:
            out = dnf_and(out, atom_dnf(x))
        return out
    return [[c]]


class Case:
    def __init__(self, facts, result, node, note=""):
        self.facts, self.result, self.node, self.note = facts, result, node, note


class ScanAnalysis:
    def __init__(self, repo: Repo, fi: FuncInfo, list_txt: str):
        self.repo, self.fi, self.list_txt = repo, fi, list_txt
        self.cases: List[Case] = []
        self.marks: List[Tuple[ast.AST, str]] = []  # (node, 'membership' | 'tag' | 'value')
        self.loops: List[Tuple[ast.AST, str]] = []  # (node, 'descending' | 'ascending')
        self.depth = 0

    # ------------------------------------------------------------------ expressions
    def is_list(self, e, env) -> bool:
        if isinstance(e, ast.Name) and env.get(e.id) == ("list",):
            return True
        return ast.unparse(e) == env.get("@list")

    def lin(self, e, env) -> Frac:
        if isinstance(e, ast.Constant) and isinstance(e.value, int) and not isinstance(e.value, bool):
            return C(e.value)
        if isinstance(e, ast.Name):
            v = env.get(e.id)
            if isinstance(v, tuple) and v and v[0] == "lin":
                return v[1]
            if v is None or (isinstance(v, tuple) and v[0] == "sym"):
                return Frac.atom(("sym", e.id))
            raise Unknown(f"{e.id} is not a number")
        if isinstance(e, ast.Call) and isinstance(e.func, ast.Name) and e.func.id == "len" and len(e.args) == 1 and self.is_list(e.args[0], env):
            return N
        if isinstance(e, ast.BinOp) and isinstance(e.op, (ast.Add, ast.Sub)):
            l, r = self.lin(e.left, env), self.lin(e.right, env)
            return l + r if isinstance(e.op, ast.Add) else l - r
        if isinstance(e, ast.BinOp) and isinstance(e.op, ast.Mult):
            l, r = self.lin(e.left, env), self.lin(e.right, env)
            if l.is_const() or r.is_const():
                return l * r
        if isinstance(e, ast.UnaryOp) and isinstance(e.op, ast.USub):
            return -self.lin(e.operand, env)
        if isinstance(e, ast.Attribute) and isinstance(e.value, ast.Name) and e.value.id == "self":
            return Frac.atom(("sym", "self." + e.attr))
        raise Unknown(f"not a linear expression: {ast.unparse(e)[:60]}")

    def elem(self, e, env) -> Optional[Frac]:
        """index of the list element denoted by e, or None"""
        if isinstance(e, ast.Name):
            v = env.get(e.id)
            if isinstance(v, tuple) and v and v[0] == "elem":
                return v[1]
            return None
        if isinstance(e, ast.Subscript) and self.is_list(e.value, env):
            idx = self.lin(e.slice, env)
            if idx.is_const() and idx.const_value() < 0:
                idx = N + idx
            return idx
        return None

    def done(self, idx: Frac):
        return mk_cmp("<", idx, M)

    # ------------------------------------------------------------------ conditions
    def _is_selfname(self, e, env) -> bool:
        return ast.unparse(e) == "self.name" or (isinstance(e, ast.Name) and env.get(e.id) == ("selfname",))

    def cond(self, e, env):
        if isinstance(e, ast.BoolOp):
            out = TRUE_DNF if isinstance(e.op, ast.And) else FALSE_DNF
            for v in e.values:
                out = dnf_and(out, self.cond(v, env)) if isinstance(e.op, ast.And) else dnf_or(out, self.cond(v, env))
            return out
        if isinstance(e, ast.UnaryOp) and isinstance(e.op, ast.Not):
            return dnf_not(self.cond(e.operand, env))
        if isinstance(e, ast.Constant) and isinstance(e.value, bool):
            return TRUE_DNF if e.value else FALSE_DNF
        if isinstance(e, ast.Compare) and len(e.ops) == 1:
            l, op, r = e.left, e.ops[0], e.comparators[0]
            # membership marks:  self.name in X.indicators / X.sub_indicators
            if isinstance(op, (ast.In, ast.NotIn)) and isinstance(r, ast.Attribute) and r.attr in ("indicators", "sub_indicators"):
                idx = self.elem(r.value, env)
                if idx is not None and self._is_selfname(l, env):
                    self.marks.append((e, "membership"))
                    d = atom_dnf(self.done(idx))
                    return d if isinstance(op, ast.In) else dnf_not(d)
            # membership in a store picked by a helper:  self.name in self._store(X)
            if isinstance(op, (ast.In, ast.NotIn)) and isinstance(r, ast.Call) and len(r.args) == 1 and self._is_selfname(l, env):
                idx = self.elem(r.args[0], env)
                sel = self._store_selector(r)
                if idx is not None and sel is not None:
                    self.marks.append((e, "membership" if sel == "self._sub_indicator" else f"store selected by `{sel}` (readings are stored by self._sub_indicator)"))
                    d = atom_dnf(self.done(idx))
                    return d if isinstance(op, ast.In) else dnf_not(d)
            # membership in a store picked by a conditional:  self.name in (X.sub_indicators if <flag> else X.indicators)
            if isinstance(op, (ast.In, ast.NotIn)) and isinstance(r, ast.IfExp) and self._is_selfname(l, env):
                from .structure import canon_ifexp

                a, b = r.body, r.orelse
                if isinstance(a, ast.Attribute) and isinstance(b, ast.Attribute) and {a.attr, b.attr} == {"indicators", "sub_indicators"}:
                    ia, ib = self.elem(a.value, env), self.elem(b.value, env)
                    if ia is not None and ib is not None and ia == ib:
                        t, ta, tb = canon_ifexp(r)
                        sel = t if ta.endswith(".sub_indicators") else f"not {t}"
                        self.marks.append((e, "membership" if sel == "self._sub_indicator" else f"store selected by `{sel}` (readings are stored by self._sub_indicator)"))
                        d = atom_dnf(self.done(ia))
                        return d if isinstance(op, ast.In) else dnf_not(d)
            # tag marks:  self.name == X.tag
            if isinstance(op, (ast.Eq, ast.NotEq)):
                for a, b in ((l, r), (r, l)):
                    if isinstance(a, ast.Attribute) and a.attr == "tag" and self._is_selfname(b, env):
                        idx = self.elem(a.value, env)
                        if idx is not None:
                            self.marks.append((e, "tag"))
                            d = atom_dnf(self.done(idx))
                            return d if isinstance(op, ast.Eq) else dnf_not(d)
            # value marks:  <lookup of the stored reading> is (not) None
            if isinstance(op, (ast.Is, ast.IsNot)) and isinstance(r, ast.Constant) and r.value is None:
                idx = self._value_lookup(l, env)
                if idx is not None:
                    self.marks.append((e, "value"))
                    d = atom_dnf(self.done(idx))
                    return d if isinstance(op, ast.IsNot) else dnf_not(d)
            ops = {ast.Lt: "<", ast.LtE: "<=", ast.Gt: ">", ast.GtE: ">=", ast.Eq: "==", ast.NotEq: "!="}
            if type(op) in ops:
                return atom_dnf(mk_cmp(ops[type(op)], self.lin(l, env), self.lin(r, env)))
        if isinstance(e, ast.Compare) and len(e.ops) == 2:
            a = ast.Compare(left=e.left, ops=[e.ops[0]], comparators=[e.comparators[0]])
            b = ast.Compare(left=e.comparators[0], ops=[e.ops[1]], comparators=[e.comparators[1]])
            return dnf_and(self.cond(a, env), self.cond(b, env))
        # truthiness of the list / of a tag / of a stored value
        if self.is_list(e, env):
            return atom_dnf(mk_cmp(">=", N, ONE))
        if isinstance(e, ast.Attribute) and e.attr == "tag":
            idx = self.elem(e.value, env)
            if idx is not None:
                self.marks.append((e, "tag"))
                return atom_dnf(self.done(idx))
        idx = self._value_lookup(e, env)
        if idx is not None:
            self.marks.append((e, "value"))
            return atom_dnf(self.done(idx))
        if isinstance(e, ast.Call):
            inl = self._inline_pred(e, env)
            if inl is not None:
                return inl
        raise Unknown(f"condition not modelled: {ast.unparse(e)[:80]}")

    def _store_selector(self, call: ast.Call) -> Optional[str]:
        """helper(candle) returning `candle.sub_indicators if <flag> else candle.indicators`: the flag's text (None if not that shape)"""
        from .structure import canon_ifexp

        f = call.func
        if not (isinstance(f, ast.Attribute) and isinstance(f.value, ast.Name) and f.value.id == "self" and self.fi.cls is not None):
            return None
        fi = self.repo.find_method(self.fi.cls, f.attr)
        if fi is None:
            return None
        p = next((a.arg for a in fi.node.args.args if a.arg != "self"), None)
        rets = [n.value for n in ast.walk(fi.node) if isinstance(n, ast.Return) and n.value is not None]
        if len(rets) == 1 and isinstance(rets[0], ast.IfExp):
            t, a, b = canon_ifexp(rets[0])
            if (a, b) == (f"{p}.sub_indicators", f"{p}.indicators"):
                return t
            if (a, b) == (f"{p}.indicators", f"{p}.sub_indicators"):
                return f"not {t}"
        # if-statement form
        ifs = [n for n in fi.node.body if isinstance(n, ast.If)]
        if len(ifs) == 1 and len(rets) == 2:
            from .structure import canon_if

            t, then, other = canon_if(ifs[0])
            tr = [ast.unparse(x.value) for x in then if isinstance(x, ast.Return)]
            rest = [ast.unparse(x.value) for x in list(other) + [s for s in fi.node.body if isinstance(s, ast.Return)] if isinstance(x, ast.Return)]
            if tr == [f"{p}.sub_indicators"] and rest[:1] == [f"{p}.indicators"]:
                return ast.unparse(t)
            if tr == [f"{p}.indicators"] and rest[:1] == [f"{p}.sub_indicators"]:
                return f"not {ast.unparse(t)}"
        return None

    def _value_lookup(self, e, env) -> Optional[Frac]:
        """X.indicators.get(self.name) / self.read_candle(X) / reading_by_candle(X, ...): a test on the stored value of element X"""
        if isinstance(e, ast.Call):
            f = e.func
            if isinstance(f, ast.Attribute) and f.attr == "get" and isinstance(f.value, ast.Attribute) and f.value.attr in ("indicators", "sub_indicators"):
                return self.elem(f.value.value, env)
            nm = f.attr if isinstance(f, ast.Attribute) else f.id if isinstance(f, ast.Name) else None
            if nm in ("read_candle", "reading_by_candle") and e.args:
                return self.elem(e.args[0], env)
            if nm in ("reading", "reading_by_index"):
                for a in list(e.args) + [k.value for k in e.keywords]:
                    try:
                        return self.lin(a, env) if not isinstance(a, ast.Constant) or isinstance(a.value, int) else None
                    except Unknown:
                        continue
        if isinstance(e, ast.Subscript) and isinstance(e.value, ast.Attribute) and e.value.attr in ("indicators", "sub_indicators"):
            return self.elem(e.value.value, env)
        return None

    def _inline_pred(self, call: ast.Call, env):
        """done(x) with done bound to a lambda; self._helper(i) / helper(x) with a single-return boolean body"""
        if self.depth > 4:
            raise Unknown("predicate inlining too deep")
        f = call.func
        target_params, body, env2 = None, None, None
        if isinstance(f, ast.Name) and isinstance(env.get(f.id), tuple) and env[f.id][0] == "pred":
            _, lam, cenv = env[f.id]
            target_params, body, env2 = [a.arg for a in lam.args.args], lam.body, dict(cenv)
        else:
            fi = None
            if isinstance(f, ast.Attribute) and isinstance(f.value, ast.Name) and f.value.id == "self" and self.fi.cls is not None:
                fi = self.repo.find_method(self.fi.cls, f.attr)
                skip = 1
            elif isinstance(f, ast.Name):
                r = self.repo.resolve(self.fi.module, f.id)
                fi = r if isinstance(r, FuncInfo) else None
                skip = 0
            if fi is None:
                return None
            stmts = [s for s in fi.node.body if not (isinstance(s, ast.Expr) and isinstance(s.value, ast.Constant))]
            pre, last = stmts[:-1], stmts[-1] if stmts else None
            if not isinstance(last, ast.Return) or last.value is None or not all(isinstance(s, ast.Assign) for s in pre):
                return None
            target_params = [a.arg for a in fi.node.args.args][skip:]
            env2 = {"@list": env.get("@list")}
            body = last.value
            self.depth += 1
            try:
                self._bind(target_params, call, env, env2)
                for s in pre:
                    self._assign(s, env2)
                return self.cond(body, env2)
            finally:
                self.depth -= 1
        self.depth += 1
        try:
            self._bind(target_params, call, env, env2)
            return self.cond(body, env2)
        finally:
            self.depth -= 1

    def _bind(self, params, call, env, env2):
        args = list(call.args)
        for i, p in enumerate(params):
            a = args[i] if i < len(args) else next((k.value for k in call.keywords if k.arg == p), None)
            if a is None:
                continue
            if isinstance(a, ast.Lambda):
                env2[p] = ("pred", a, dict(env))
            elif self.is_list(a, env):
                env2[p] = ("list",)
            else:
                idx = self.elem(a, env)
                if idx is not None:
                    env2[p] = ("elem", idx)
                else:
                    try:
                        env2[p] = ("lin", self.lin(a, env))
                    except Unknown:
                        env2[p] = ("sym", p)

    def _assign(self, st: ast.Assign, env):
        if len(st.targets) != 1 or not isinstance(st.targets[0], ast.Name):
            raise Unknown(f"assignment not modelled: {ast.unparse(st)[:60]}")
        name, v = st.targets[0].id, st.value
        if self.is_list(v, env):
            env[name] = ("list",)
            return
        idx = self.elem(v, env)
        if idx is not None:
            env[name] = ("elem", idx)
            return
        if isinstance(v, ast.Lambda):
            env[name] = ("pred", v, dict(env))
            return
        if ast.unparse(v) == "self.name":
            env[name] = ("selfname",)
            return
        if isinstance(v, ast.Call) and isinstance(v.func, ast.Name) and v.func.id in ("range", "enumerate", "reversed"):
            env[name] = ("range", v, dict(env))
            return
        try:
            env[name] = ("lin", self.lin(v, env))
        except Unknown:
            env[name] = ("sym", name)

    # ------------------------------------------------------------------ statements
    def run(self):
        env = {"@list": self.list_txt}
        ft = self.block(self.fi.node.body, env, [])
        for env2, facts in ft:
            self.cases.append(Case(facts, None, self.fi.node, "falls off the end (returns None)"))
        return self

    def block(self, stmts, env, facts):
        """returns the fall-through continuations [(env, facts)]"""
        conts = [(dict(env), list(facts))]
        for st in stmts:
            nxt = []
            for e, f in conts:
                nxt += self.stmt(st, e, f)
            conts = nxt
            if not conts:
                break
        return conts

    def stmt(self, st, env, facts):
        if isinstance(st, ast.Expr) and isinstance(st.value, ast.Constant):
            return [(env, facts)]
        if isinstance(st, ast.Assign):
            self._assign(st, env)
            return [(env, facts)]
        if isinstance(st, ast.Return):
            self.ret(st, env, facts)
            return []
        if isinstance(st, ast.If):
            t = self.cond(st.test, env)
            out = []
            for conj in t:
                out += self.block(st.body, env, facts + [c for c in conj if c not in facts])
            for conj in dnf_not(t):
                out += self.block(st.orelse, env, facts + [c for c in conj if c not in facts])
            return out
        if isinstance(st, ast.For):
            return self.loop(st, env, facts)
        if isinstance(st, ast.Pass):
            return [(env, facts)]
        raise Unknown(f"statement not modelled: {type(st).__name__} `{ast.unparse(st)[:60]}`")

    def ret(self, st: ast.Return, env, facts):
        v = st.value
        if v is None:
            self.cases.append(Case(facts, None, st, "returns None"))
            return
        if isinstance(v, ast.Call):
            fi = None
            if isinstance(v.func, ast.Name):
                r = self.repo.resolve(self.fi.module, v.func.id)
                fi = r if isinstance(r, FuncInfo) else None
                skip = 0
            elif isinstance(v.func, ast.Attribute) and isinstance(v.func.value, ast.Name) and v.func.value.id == "self" and self.fi.cls is not None:
                fi = self.repo.find_method(self.fi.cls, v.func.attr)
                skip = 1
            if fi is not None and any(self.is_list(a, env) for a in list(v.args) + [k.value for k in v.keywords]):
                if self.depth > 3:
                    raise Unknown("delegation too deep")
                params = [a.arg for a in fi.node.args.args][skip:]
                env2 = {"@list": None}
                self._bind(params, v, env, env2)
                lst = [p for p in params if env2.get(p) == ("list",)]
                env2["@list"] = lst[0] if lst else None
                sub = ScanAnalysis(self.repo, fi, env2["@list"])
                sub.depth = self.depth + 1
                for e2, f2 in sub.block(fi.node.body, env2, list(facts)):
                    sub.cases.append(Case(f2, None, fi.node, "falls off the end"))
                self.cases += sub.cases
                self.marks += sub.marks
                self.loops += sub.loops
                return
        try:
            self.cases.append(Case(facts, self.lin(v, env), st))
        except Unknown as e:
            self.cases.append(Case(facts, None, st, str(e)))

    def loop(self, st: ast.For, env, facts):
        it = st.iter
        renv = env
        if isinstance(it, ast.Name) and isinstance(env.get(it.id), tuple) and env[it.id][0] == "range":
            _, it, renv = env[it.id]
        # element iteration newest-first:  for [age,] x in [enumerate(]reversed(S)[)]   ==   for i in range(len(S)-1, -1, -1): x = S[i] [; age = len(S)-1-i]
        def _is(e, fn_):
            return isinstance(e, ast.Call) and isinstance(e.func, ast.Name) and e.func.id == fn_ and len(e.args) == 1 and not e.keywords

        seq, age_name, elem_name = None, None, None
        if _is(it, "enumerate") and _is(it.args[0], "reversed") and isinstance(st.target, ast.Tuple) and len(st.target.elts) == 2 and all(isinstance(x, ast.Name) for x in st.target.elts):
            seq, age_name, elem_name = it.args[0].args[0], st.target.elts[0].id, st.target.elts[1].id
        elif _is(it, "reversed") and isinstance(st.target, ast.Name) and not _is(it.args[0], "range"):
            seq, elem_name = it.args[0], st.target.id
        if seq is not None and not st.orelse:
            import copy as _c

            iv = "idx__scan"
            ln = ast.Call(func=ast.Name(id="len", ctx=ast.Load()), args=[_c.deepcopy(seq)], keywords=[])
            last = ast.BinOp(left=ln, op=ast.Sub(), right=ast.Constant(value=1))
            pre_ = [ast.Assign(targets=[ast.Name(id=elem_name, ctx=ast.Store())], value=ast.Subscript(value=_c.deepcopy(seq), slice=ast.Name(id=iv, ctx=ast.Load()), ctx=ast.Load()), lineno=st.lineno)]
            if age_name:
                pre_.append(ast.Assign(targets=[ast.Name(id=age_name, ctx=ast.Store())], value=ast.BinOp(left=_c.deepcopy(last), op=ast.Sub(), right=ast.Name(id=iv, ctx=ast.Load())), lineno=st.lineno))
            rng = ast.Call(func=ast.Name(id="range", ctx=ast.Load()), args=[_c.deepcopy(last), ast.UnaryOp(op=ast.USub(), operand=ast.Constant(value=1)), ast.UnaryOp(op=ast.USub(), operand=ast.Constant(value=1))], keywords=[])
            st2 = ast.For(target=ast.Name(id=iv, ctx=ast.Store()), iter=rng, body=pre_ + list(st.body), orelse=[], lineno=st.lineno)
            ast.fix_missing_locations(st2)
            return self.loop(st2, renv if renv is not env else env, facts)
        if not (isinstance(st.target, ast.Name) and isinstance(it, ast.Call) and isinstance(it.func, ast.Name) and it.func.id == "range" and not st.orelse):
            raise Unknown(f"loop not modelled: for {ast.unparse(st.target)} in {ast.unparse(it)[:50]}")
        args = it.args
        if len(args) == 1:
            a, b, step = ZERO, self.lin(args[0], renv), 1
        elif len(args) == 2:
            a, b, step = self.lin(args[0], renv), self.lin(args[1], renv), 1
        else:
            s = self.lin(args[2], renv)
            if not s.is_const() or s.const_value() not in (1, -1):
                raise Unknown("range step is not +-1")
            a, b, step = self.lin(args[0], renv), self.lin(args[1], renv), int(s.const_value())
        body = [x for x in st.body if not (isinstance(x, ast.Expr) and isinstance(x.value, ast.Constant))]
        pre_assigns = [x for x in body[:-1] if isinstance(x, ast.Assign)]
        if not body or len(pre_assigns) != len(body) - 1 or not isinstance(body[-1], ast.If) or body[-1].orelse or len(body[-1].body) != 1 or not isinstance(body[-1].body[0], ast.Return):
            raise Unknown("loop body is not `if <test on the element>: return <expr>`")
        v = st.target.id
        V = Frac.atom(("sym", "@" + v))
        env2 = dict(env)
        env2[v] = ("lin", V)
        for x in pre_assigns:
            self._assign(x, env2)
        test = self.cond(body[-1].test, env2)
        ret = body[-1].body[0]
        self.loops.append((st, "descending" if step < 0 else "ascending"))
        want = self.done(V) if step < 0 else c_not(self.done(V))
        inv = []
        if len(test) != 1 or want not in test[0]:
            raise Unknown("loop test is not the prefix mark of the visited element (done(list[v]) for a descending scan, not done(list[v]) for an ascending one)")
        for c in test[0]:
            if c == want:
                continue
            if V.atoms() <= poly.all_atoms(c[2]) if isinstance(c, tuple) and len(c) > 2 and isinstance(c[2], Frac) else False:
                raise Unknown("loop test has a second condition on the loop variable")
            inv.append(c)
        out = []

        def hit(at: Frac, extra):
            e3 = dict(env2)
            e3[v] = ("lin", at)
            for x in pre_assigns:
                self._assign(x, e3)
            self.ret(ret, e3, facts + inv + extra)

        if step < 0:
            # visits a, a-1, ..., b+1
            hit(a, [mk_cmp(">", a, b), mk_cmp("<", a, M)])
            hit(M - ONE, [mk_cmp(">", a, b), mk_cmp(">=", a, M), mk_cmp(">", M - ONE, b)])
            out.append((dict(env), facts + [mk_cmp("<=", a, b)]))
            out.append((dict(env), facts + [mk_cmp(">", a, b), mk_cmp("<=", M - ONE, b)]))
        else:
            # visits a, a+1, ..., b-1
            hit(a, [mk_cmp("<", a, b), mk_cmp(">=", a, M)])
            hit(M, [mk_cmp("<", a, b), mk_cmp("<", a, M), mk_cmp("<", M, b)])
            out.append((dict(env), facts + [mk_cmp(">=", a, b)]))
            out.append((dict(env), facts + [mk_cmp("<", a, b), mk_cmp(">=", M, b)]))
        if inv:
            # the invariant side condition may also be false: then the loop never returns
            for conj in dnf_not([inv]):
                out.append((dict(env), facts + conj))
        # drop syntactically impossible continuations
        return [(e, [c for c in f if c is not True]) for e, f in out if False not in f]


def feasible(facts) -> bool:
    """facts (plus 0 <= m <= n) are not contradictory"""
    from .facts import _contradictory

    return not _contradictory(tuple(f for f in facts if isinstance(f, tuple)), [M, N - M])


def analyse_scan(repo: Repo, fi: FuncInfo, list_txt: str) -> ScanAnalysis:
    return ScanAnalysis(repo, fi, list_txt).run()


def case_text(c: Case) -> str:
    g = " & ".join(show_cond(x) for x in c.facts if isinstance(x, tuple)) or "always"
    return f"[{g}] -> {c.result!r}" if c.result is not None else f"[{g}] -> ? ({c.note})"
